"""Runs inside /venv python with Scenic from $VERIF_REPO.  Reads a JSON job on stdin, drives the real
serialisation code, writes one JSON result on stdout (last line)."""
import io
import json
import math
import random
import struct
import sys
import traceback
import warnings

warnings.filterwarnings("ignore")

import numpy

import scenic
from scenic.core.distributions import (Distribution, MultiplexerDistribution, Samplable, needsSampling)
from scenic.core.serialization import SerializationError, Serializer
from scenic.core.simulators import DivergenceError, DummySimulator
from scenic.core.vectors import Orientation, Vector
import scenic.syntax.veneer as veneer

TYNAMES = {int: "int", float: "float", bool: "bool", str: "str", bytes: "bytes", type(None): "none",
           Vector: "vec", Orientation: "ori"}


def canon(v, depth=0):
    """Canonical, exactly comparable form of a sampled value."""
    if depth > 6:
        return "<deep>"
    if isinstance(v, bool) or v is None or isinstance(v, (int, str)):
        return v
    if isinstance(v, float):
        return v.hex()
    if isinstance(v, bytes):
        return "bytes:" + v.hex()
    if isinstance(v, Vector):
        return ["vec"] + [float(c).hex() for c in v]
    if isinstance(v, Orientation):
        return ["ori"] + [float(c).hex() for c in v.q]
    if isinstance(v, (tuple, list)):
        return [canon(x, depth + 1) for x in v]
    if isinstance(v, (set, frozenset)):
        return sorted((json.dumps(canon(x, depth + 1), sort_keys=True) for x in v))
    if isinstance(v, dict):
        return {str(k): canon(x, depth + 1) for k, x in sorted(v.items(), key=lambda kv: str(kv[0]))}
    if isinstance(v, numpy.generic):
        return canon(v.item(), depth + 1)
    return "<" + type(v).__name__ + ">"


def scene_canon(scene):
    objs = []
    for o in scene.objects:
        props = {}
        for p in sorted(o.properties):
            try:
                props[p] = canon(getattr(o, p))
            except Exception as e:  # pragma: no cover
                props[p] = "<err " + type(e).__name__ + ">"
        objs.append(props)
    return dict(objects=objs, params={k: canon(v) for k, v in scene.params.items()})


def export_dag(scenario, sample):
    """Walk the object graph the codec walks; fail closed on anything not understood."""
    index = {}
    nodes = []
    pvals = {}
    unsupported = []

    def visit(obj):
        k = id(obj)
        if k in index:
            return index[k]
        if not needsSampling(obj):
            index[k] = len(nodes)
            nodes.append(["F"])
            return index[k]
        if isinstance(obj, MultiplexerDistribution):
            ix = visit(obj.index)
            opts = [visit(o) for o in obj.options]
            index[k] = len(nodes)
            nodes.append(["M", ix, opts])
            return index[k]
        if isinstance(obj, Distribution) and not obj._deterministic:
            ty = TYNAMES.get(obj._valueType)
            if ty is None:
                unsupported.append(type(obj).__name__ + ":" + getattr(obj._valueType, "__name__", str(obj._valueType)))
                ty = "none"
            index[k] = len(nodes)
            nodes.append(["P", ty])
            v = sample[obj]
            pvals[index[k]] = enc_val(ty, v)
            return index[k]
        if type(obj).serializeValue not in (Samplable.serializeValue, Distribution.serializeValue):
            unsupported.append("override:" + type(obj).__name__)
        deps = [visit(d) for d in obj._conditioned._dependencies]
        index[k] = len(nodes)
        nodes.append(["D", deps])
        return index[k]

    sys.setrecursionlimit(10000)
    deps = [visit(o) for o in scenario.dependencies]
    return nodes, pvals, deps, unsupported


def enc_val(ty, v):
    if ty == "int":
        return ["I", str(int(v))] if not isinstance(v, bool) else ["I", str(int(v))]
    if ty == "bool":
        return ["B", "1" if v else "0"]
    if ty == "float":
        return ["X", struct.pack("<d", v).hex()]
    if ty in ("vec", "ori"):
        s = io.BytesIO()
        type(v).encodeTo(v, s)
        return ["X", s.getvalue().hex()]
    if ty == "str":
        return ["S", v.encode().hex() or "-"]
    if ty == "bytes":
        return ["S", v.hex() or "-"]
    return ["N"]


def outcome_of(f):
    try:
        r = f()
        return "ok", r
    except SerializationError as e:
        return "SerializationError", None
    except BaseException as e:
        return "other:" + type(e).__name__, traceback.format_exc()[-600:]


def do_program(job):
    src = job["src"]
    res = dict(name=job.get("name"))
    random.seed(job["seed"])
    numpy.random.seed(job["seed"])
    try:
        scenario = scenic.scenarioFromString(src, mode2D=job.get("mode2D", False))
        scene, _ = scenario.generate(maxIterations=200, verbosity=0)
    except BaseException as e:
        res["skip"] = type(e).__name__ + ": " + str(e)[:200]
        return res
    data = scenario.sceneToBytes(scene)
    res["bytes"] = data.hex()
    res["header"] = dict(version=Serializer.sceneFormatVersion(), ast=scenario.astHash.hex(),
                         opts=scenario.compileOptions.hash.hex())
    nodes, pvals, deps, unsupported = export_dag(scenario, scene.sample)
    res["dag"] = dict(nodes=nodes, pvals=pvals, deps=deps, unsupported=unsupported)
    # property oracle: decode gives the same scene
    before = scene_canon(scene)
    oc, scene2 = outcome_of(lambda: scenario.sceneFromBytes(data))
    res["roundtrip_outcome"] = oc
    res["mutated"] = [i for i, o in enumerate(scene.objects) if getattr(o, "mutationScale", 0) != 0]
    after = scene_canon(scene2) if oc == "ok" else None
    res["roundtrip_equal"] = (oc == "ok" and after == before)
    if oc == "ok" and not res["roundtrip_equal"]:
        diffs = []
        for i, (a, b) in enumerate(zip(before["objects"], after["objects"])):
            for k in sorted(set(a) | set(b)):
                if a.get(k) != b.get(k):
                    diffs.append([i, k, a.get(k), b.get(k)])
        for k in sorted(set(before["params"]) | set(after["params"])):
            if before["params"].get(k) != after["params"].get(k):
                diffs.append(["param", k, before["params"].get(k), after["params"].get(k)])
        if len(before["objects"]) != len(after["objects"]):
            diffs.append(["nobjects", "", len(before["objects"]), len(after["objects"])])
        res["roundtrip_diff"] = diffs[:40]
    # truncations
    n = len(data)
    cuts = list(range(n)) if n <= job.get("max_cuts", 400) else sorted(random.Random(job["seed"]).sample(range(n), job.get("max_cuts", 400)))
    trunc = []
    for c in cuts:
        oc, info = outcome_of(lambda: scenario.sceneFromBytes(data[:c]))
        trunc.append([c, oc] if info is None or oc == "ok" else [c, oc, info])
    res["trunc"] = [[t[0], t[1]] for t in trunc]
    res["trunc_info"] = [t for t in trunc if len(t) > 2][:3]
    # single-byte corruptions
    rr = random.Random(job["seed"] + 1)
    corr = []
    npos = job.get("npos", 60)
    poss = list(range(n)) if n <= npos else sorted(rr.sample(range(n), npos))
    for pos in poss:
        alts = range(256) if n <= 24 else rr.sample(range(256), job.get("alts", 6))
        for b in alts:
            if b == data[pos]:
                continue
            d2 = data[:pos] + bytes([b]) + data[pos + 1:]
            oc, info = outcome_of(lambda: scenario.sceneFromBytes(d2))
            corr.append([pos, b, oc] + ([info] if info and oc != "ok" else []))
    res["corrupt"] = [[c[0], c[1], c[2]] for c in corr]
    res["corrupt_info"] = [c for c in corr if len(c) > 3][:3]
    # refused for a different program / options
    try:
        other = scenic.scenarioFromString(src + "\nparam verif_extra = 1\n", mode2D=job.get("mode2D", False))
        res["other_program"] = outcome_of(lambda: other.sceneFromBytes(data))[0]
        other2 = scenic.scenarioFromString(src, mode2D=not job.get("mode2D", False))
        res["other_options"] = outcome_of(lambda: other2.sceneFromBytes(data))[0]
    except BaseException as e:
        res["other_program"] = res.get("other_program", "compile-failed:" + type(e).__name__)
    # simulation replay
    if job.get("dynamic"):
        res["replay"] = do_replay(scenario, scene, job)
    return res


def sim_canon(sim):
    r = sim.result
    return dict(traj=[[canon(p) for p in st.positions] for st in r.trajectory],
                actions=[{str(i): [canon(a) if not hasattr(a, "__dict__") else repr(a) for a in acts]
                          for i, (ag, acts) in enumerate(step.items())} for step in r.actions],
                term=str(r.terminationType), reason=str(r.terminationReason),
                records=canon({k: v for k, v in r.records.items()}))


def do_replay(scenario, scene, job):
    out = {}
    steps = job.get("steps", 6)
    simulator = DummySimulator(drift=1.0)
    random.seed(job["seed"] + 7)
    try:
        sim1 = simulator.simulate(scene, maxSteps=steps, maxIterations=1, enableDivergenceCheck=True, raiseGuardViolations=True)
    except BaseException as e:
        return dict(skip=type(e).__name__ + ": " + str(e)[:200])
    if sim1 is None:
        return dict(skip="rejected")
    c1 = sim_canon(sim1)
    data = scenario.simulationToBytes(sim1)
    random.seed(12345)  # a different stream: the replay must not depend on it
    oc, sim2 = outcome_of(lambda: scenario.simulationFromBytes(data, DummySimulator(drift=1.0), maxSteps=steps, maxIterations=1, enableDivergenceCheck=True))
    out["outcome"] = oc
    out["equal"] = oc == "ok" and sim2 is not None and sim_canon(sim2) == c1
    if oc == "ok" and sim2 is not None and not out["equal"]:
        out["diff"] = dict(a=c1, b=sim_canon(sim2))
    out["nbytes"] = len(data)
    # a replayed simulation re-records the same replay, and its own encoding replays again (second generation)
    if oc == "ok" and sim2 is not None:
        out["rerecord_equal"] = sim2.getReplay() == sim1.getReplay()
        data2 = scenario.simulationToBytes(sim2)
        random.seed(999)
        oc3, sim3 = outcome_of(lambda: scenario.simulationFromBytes(data2, DummySimulator(drift=1.0), maxSteps=steps, maxIterations=1))
        out["gen2_outcome"] = oc3
        out["gen2_equal"] = oc3 == "ok" and sim3 is not None and sim_canon(sim3) == c1
        # replay continued past the end of the recording, then encoded and replayed again
        random.seed(4321)
        oc4, sim4 = outcome_of(lambda: scenario.simulationFromBytes(data, DummySimulator(drift=1.0), maxSteps=steps + 3, maxIterations=1))
        if oc4 == "ok" and sim4 is not None:
            c4 = sim_canon(sim4)
            out["extended_prefix_equal"] = c4["actions"][:len(c1["actions"])] == c1["actions"]
            data4 = scenario.simulationToBytes(sim4)
            random.seed(5)
            oc5, sim5 = outcome_of(lambda: scenario.simulationFromBytes(data4, DummySimulator(drift=1.0), maxSteps=steps + 3, maxIterations=1))
            out["extended_gen2_equal"] = oc5 == "ok" and sim5 is not None and sim_canon(sim5) == c4
        else:
            out["extended_outcome"] = oc4
    # divergence in either direction: drift scaled in 1/1024 units so model arithmetic is exact
    div = []
    replay = sim1.getReplay()
    for delta_k, tol_k in job.get("div_cases", []):
        delta, tol = delta_k / 1024.0, tol_k / 1024.0

        def run():
            return DummySimulator(drift=1.0 + delta).replay(scene, replay, maxSteps=1, maxIterations=1, divergenceTolerance=tol)
        try:
            run()
            div.append([delta_k, tol_k, False])
        except DivergenceError:
            div.append([delta_k, tol_k, True])
        except BaseException as e:
            div.append([delta_k, tol_k, "other:" + type(e).__name__])
    out["div"] = div
    # truncated replays are either refused or continue past the end of the replay; never crash otherwise
    tr = []
    rr = random.Random(job["seed"] + 3)
    for c in sorted(rr.sample(range(len(replay)), min(len(replay), 25))):
        oc, info = outcome_of(lambda: DummySimulator(drift=1.0).replay(scene, replay[:c], maxSteps=steps, maxIterations=1))
        tr.append([c, oc] + ([info] if info and oc != "ok" else []))
    out["trunc"] = tr
    return out


def do_codec(job):
    """Direct codec calls: ints / byte strings through the module-level functions."""
    from scenic.core import serialization as S
    out = []
    for kind, arg in job["cases"]:
        if kind == "WI":
            s = io.BytesIO()
            try:
                S.writeInt(int(arg), s)
                out.append("SOME " + (s.getvalue().hex() or "-"))
            except SerializationError:
                out.append("NONE")
        elif kind == "RI":
            data = bytes.fromhex(arg) if arg != "-" else b""
            s = io.BytesIO(data)
            try:
                v = S.readInt(s)
                out.append("OK %d %s" % (v, s.read().hex() or "-"))
            except (SerializationError, IndexError):
                out.append("ERR trunc")
        elif kind == "RB":
            data = bytes.fromhex(arg) if arg != "-" else b""
            s = io.BytesIO(data)
            try:
                v = S.readBytes(s)
                out.append("OK S %s | %s" % (v.hex() or "-", s.read().hex() or "-"))
            except (SerializationError, IndexError):
                out.append("ERR trunc")
    return out


def main():
    job = json.load(sys.stdin)
    if job["kind"] == "programs":
        results = []
        for p in job["programs"]:
            try:
                results.append(do_program(p))
            except BaseException as e:
                results.append(dict(name=p.get("name"), crash=traceback.format_exc()[-1500:]))
        print(json.dumps(dict(results=results)))
    elif job["kind"] == "codec":
        print(json.dumps(dict(results=do_codec(job))))


if __name__ == "__main__":
    main()
