"""Runs inside /venv python with Scenic from $VERIF_REPO.  Reads a JSON job on stdin, drives the real
serialisation code, writes one JSON result on stdout (last line)."""
import io
import json
import math
import random
import struct
import sys
import traceback
import warnings

warnings.filterwarnings("ignore")

import numpy

import scenic
from scenic.core.distributions import (Distribution, MultiplexerDistribution, Samplable, needsSampling)
from scenic.core.serialization import SerializationError, Serializer
from scenic.core.simulators import DivergenceError, DummySimulation, DummySimulator
from scenic.core.vectors import Orientation, Vector
import scenic.syntax.veneer as veneer

TYNAMES = {int: "int", float: "float", bool: "bool", str: "str", bytes: "bytes", type(None): "none",
           Vector: "vec", Orientation: "ori"}


def canon(v, depth=0):
    """Canonical, exactly comparable form of a sampled value."""
    if depth > 6:
        return "<deep>"
    if isinstance(v, bool) or v is None or isinstance(v, (int, str)):
        return v
    if isinstance(v, float):
        return v.hex()
    if isinstance(v, bytes):
        return "bytes:" + v.hex()
    if isinstance(v, Vector):
        return ["vec"] + [float(c).hex() for c in v]
    if isinstance(v, Orientation):
        return ["ori"] + [float(c).hex() for c in v.q]
    if isinstance(v, (tuple, list)):
        return [canon(x, depth + 1) for x in v]
    if isinstance(v, (set, frozenset)):
        return sorted((json.dumps(canon(x, depth + 1), sort_keys=True) for x in v))
    if isinstance(v, dict):
        return {str(k): canon(x, depth + 1) for k, x in sorted(v.items(), key=lambda kv: str(kv[0]))}
    if isinstance(v, numpy.generic):
        return canon(v.item(), depth + 1)
    return "<" + type(v).__name__ + ">"


def scene_canon(scene):
    objs = []
    for o in scene.objects:
        props = {}
        for p in sorted(o.properties):
            try:
                props[p] = canon(getattr(o, p))
            except Exception as e:  # pragma: no cover
                props[p] = "<err " + type(e).__name__ + ">"
        objs.append(props)
    return dict(objects=objs, params={k: canon(v) for k, v in scene.params.items()})


class _Stop(Exception):
    pass


class _NoValues(dict):
    """Table handed to deserializeValue while probing: the decoder's reads are recorded, then the first
    access to a value (sampleGiven) stops the probe before anything is computed or drawn."""

    def __getitem__(self, k):
        raise _Stop

    def __contains__(self, k):
        raise _Stop

    def get(self, k, d=None):
        raise _Stop


class _Probe:
    """Stands in for the Serializer: records the codec calls one samplable makes for itself (which
    children it hands to writeSamplable / readSamplable, which value types it writes / reads) without
    recursing.  This is how the exporter OBSERVES the encoder's and the decoder's dependency walks
    instead of reading `_conditioned._dependencies` the way the code is believed to."""

    def __init__(self):
        self.ops = []

    def writeSamplable(self, obj, values):
        self.ops.append(("S", obj))

    def readSamplable(self, obj, values):
        self.ops.append(("S", obj))

    def writeValue(self, value, ty):
        self.ops.append(("V", ty))

    def readValue(self, ty):
        self.ops.append(("V", ty))
        raise _Stop


def probe_walks(obj, values):
    enc, dec = _Probe(), _Probe()
    st, nst = random.getstate(), numpy.random.get_state()
    try:
        try:
            obj.serializeValue(values, enc)
        except BaseException:
            pass
        try:
            obj.deserializeValue(dec, _NoValues())
        except BaseException:
            pass
    finally:
        random.setstate(st)
        numpy.random.set_state(nst)
    return enc.ops, dec.ops


def kind_letter(o):
    if not needsSampling(o):
        return "F"
    if isinstance(o, MultiplexerDistribution):
        return "M"
    if isinstance(o, Distribution) and not o._deterministic:
        return "P"
    return "D"


def export_nodes(roots, sample, with_values=True):
    """Walk the object graph the codec walks from the given roots; fail closed on anything not understood.
    Deterministic nodes carry TWO dependency lists: the one serializeValue walks and the one
    deserializeValue walks (observed with a probe).  `cg` gives, per node, its own dependency list and its
    conditioned proxy's (attributes), for the model's code_view."""
    index = {}
    nodes = []
    cg = []
    pvals = {}
    unsupported = []
    stats = dict(cond=[], random_proxy=False, cond_mux=False)

    def add(obj, node, own=None, proxy=None):
        index[id(obj)] = len(nodes)
        nodes.append(node)
        cg.append([own if own is not None else node, proxy])
        return index[id(obj)]

    def proxy_of(obj):
        c = getattr(obj, "_conditioned", obj)
        if c is obj:
            return None
        stats["cond"].append(kind_letter(obj) + ">" + kind_letter(c) + ":" + type(obj).__name__ + ">" + type(c).__name__)
        if kind_letter(obj) == "M":
            stats["cond_mux"] = True
        elif kind_letter(obj) == "D" and kind_letter(c) == "P":
            stats["random_proxy"] = True
        return [visit(d) for d in c._dependencies]

    def visit(obj):
        k = id(obj)
        if k in index:
            return index[k]
        if not needsSampling(obj):
            return add(obj, ["F"])
        if isinstance(obj, MultiplexerDistribution) and (type(obj).serializeValue is not MultiplexerDistribution.serializeValue
                                                         or type(obj).deserializeValue is not MultiplexerDistribution.deserializeValue):
            unsupported.append("override:" + type(obj).__name__)
        if isinstance(obj, MultiplexerDistribution) and not needsSampling(obj.index):
            # index already known (always the case at run time, where the selector was drawn on its own):
            # the codec writes nothing for it and then the chosen option only
            try:
                choice = obj.options[obj.index]
            except Exception:
                unsupported.append("mux-const-index-out-of-range")
                choice = None
            deps_ = [visit(choice)] if choice is not None else []
            return add(obj, ["D", deps_, deps_], proxy=proxy_of(obj))
        if isinstance(obj, MultiplexerDistribution) and getattr(obj, "_conditioned", obj) is not obj:
            # conditioned multiplexer.  The code as it is ignores the proxy (index first, then the TypeError of an
            # unsampled index): exported as a multiplexer.  A codec that follows the proxy instead is exported by
            # its observed walks below.
            eops, dops = probe_walks(obj, sample)
            as_is = eops == dops and len(eops) >= 1 and eops[0] == ("S", obj.index) and \
                all(op[0] == "S" and any(op[1] is o for o in obj.options) for op in eops[1:])
        else:
            as_is = True
        if isinstance(obj, MultiplexerDistribution) and as_is:
            ix = visit(obj.index)
            opts = [visit(o) for o in obj.options]
            return add(obj, ["M", ix, opts], proxy=proxy_of(obj))
        if not isinstance(obj, MultiplexerDistribution) and (
                type(obj).serializeValue not in (Samplable.serializeValue, Distribution.serializeValue) or
                type(obj).deserializeValue not in (Samplable.deserializeValue, Distribution.deserializeValue)):
            unsupported.append("override:" + type(obj).__name__)
        eops, dops = probe_walks(obj, sample)
        if len(eops) == 1 and eops[0][0] == "V":
            ty = TYNAMES.get(eops[0][1])
            if ty is None:
                unsupported.append(type(obj).__name__ + ":" + getattr(eops[0][1], "__name__", str(eops[0][1])))
                ty = "none"
            if dops != eops:
                unsupported.append("asymmetric-primitive:" + type(obj).__name__)
            i = add(obj, ["P", ty], proxy=proxy_of(obj))
            if with_values and obj in sample:
                pvals[i] = enc_val(ty, sample[obj])
            return i
        if any(op[0] != "S" for op in eops + dops):
            unsupported.append("mixed-codec:" + type(obj).__name__)
        edeps = [visit(op[1]) for op in eops if op[0] == "S"]
        ddeps = [visit(op[1]) for op in dops if op[0] == "S"]
        own = [visit(d) for d in obj._dependencies]
        return add(obj, ["D", edeps, ddeps], own=["D", own, own], proxy=proxy_of(obj))

    sys.setrecursionlimit(10000)
    deps = [visit(o) for o in roots]
    stats["ncond"] = len(stats["cond"])
    stats["cond"] = sorted(set(stats["cond"]))
    return nodes, pvals, deps, unsupported, cg, stats


def export_dag(scenario, sample):
    return export_nodes(scenario.dependencies, sample)


def enc_val(ty, v):
    if ty == "int":
        return ["I", str(int(v))] if not isinstance(v, bool) else ["I", str(int(v))]
    if ty == "bool":
        return ["B", "1" if v else "0"]
    if ty == "float":
        return ["X", struct.pack("<d", v).hex()]
    if ty in ("vec", "ori"):
        s = io.BytesIO()
        type(v).encodeTo(v, s)
        return ["X", s.getvalue().hex()]
    if ty == "str":
        return ["S", v.encode().hex() or "-"]
    if ty == "bytes":
        return ["S", v.hex() or "-"]
    return ["N"]


def outcome_of(f):
    try:
        r = f()
        return "ok", r
    except SerializationError as e:
        return "SerializationError", None
    except BaseException as e:
        return "other:" + type(e).__name__, traceback.format_exc()[-600:]


def build_condition(scenario, ref, st):
    """kwargs for Scenario.conditionOn from a stage description (objects: indices into the scenario's objects,
    params: name -> ['const', value] | ['expr', <expression over scenic.core.distributions>])."""
    import scenic.core.distributions as D
    ns = {k: getattr(D, k) for k in ("Range", "DiscreteRange", "Uniform", "Options", "Normal", "TruncatedNormal")}
    kw = {}
    objs = tuple(i for i in st.get("objects", []) if i < len(scenario.objects))
    if objs:
        kw["objects"] = objs
        kw["scene"] = ref
    params = {}
    for name, spec in st.get("params", {}).items():
        if name not in scenario.params:
            continue
        params[name] = spec[1] if spec[0] == "const" else eval(spec[1], dict(ns))
    if params:
        kw["params"] = params
    return kw


def scene_checks(scenario, scene, job, stage, src, light=False):
    res = dict(name=job.get("name") + "#" + stage, job_name=job.get("name"), stage=stage)
    oc, data = outcome_of(lambda: scenario.sceneToBytes(scene))
    nodes, pvals, deps, unsupported, cg, stats = export_dag(scenario, scene.sample)
    res["dag"] = dict(nodes=nodes, pvals=pvals, deps=deps, unsupported=unsupported, cg=cg)
    res["cond"] = stats
    res["header"] = dict(version=Serializer.sceneFormatVersion(), ast=scenario.astHash.hex(),
                         opts=scenario.compileOptions.hash.hex())
    res["encode_outcome"] = oc
    res["mutated"] = [i for i, o in enumerate(scene.objects) if getattr(o, "mutationScale", 0) != 0]
    if oc != "ok":
        res["encode_info"] = data
        return res
    res["bytes"] = data.hex()
    # property oracle: decode gives the same scene
    before = scene_canon(scene)
    oc, scene2 = outcome_of(lambda: scenario.sceneFromBytes(data))
    res["roundtrip_outcome"] = oc
    after = scene_canon(scene2) if oc == "ok" else None
    res["roundtrip_equal"] = (oc == "ok" and after == before)
    if oc == "ok":
        # the decoded scene encodes to the same bytes, and decoding twice gives the same scene
        oc2, data2 = outcome_of(lambda: scenario.sceneToBytes(scene2))
        res["reencode_equal"] = (oc2 == "ok" and data2 == data)
        oc3, scene3 = outcome_of(lambda: scenario.sceneFromBytes(data))
        res["redecode_equal"] = (oc3 == "ok" and scene_canon(scene3) == after)
    if oc == "ok" and not res["roundtrip_equal"]:
        diffs = []
        for i, (a, b) in enumerate(zip(before["objects"], after["objects"])):
            for k in sorted(set(a) | set(b)):
                if a.get(k) != b.get(k):
                    diffs.append([i, k, a.get(k), b.get(k)])
        for k in sorted(set(before["params"]) | set(after["params"])):
            if before["params"].get(k) != after["params"].get(k):
                diffs.append(["param", k, before["params"].get(k), after["params"].get(k)])
        if len(before["objects"]) != len(after["objects"]):
            diffs.append(["nobjects", "", len(before["objects"]), len(after["objects"])])
        res["roundtrip_diff"] = diffs[:40]
    # truncations
    n = len(data)
    big = n > 5000   # huge payloads (70 kB strings): fewer cuts/corruptions, every one costs a full decode on both sides
    max_cuts = job.get("max_cuts", 400)
    npos = job.get("npos", 60)
    if light:
        max_cuts, npos = min(max_cuts, 60), min(npos, 16)
    if big:
        max_cuts, npos = min(max_cuts, 40), min(npos, 12)
    cuts = list(range(n)) if n <= max_cuts else sorted(random.Random(job["seed"]).sample(range(n), max_cuts))
    trunc = []
    for c in cuts:
        oc, info = outcome_of(lambda: scenario.sceneFromBytes(data[:c]))
        trunc.append([c, oc] if info is None or oc == "ok" else [c, oc, info])
    res["trunc"] = [[t[0], t[1]] for t in trunc]
    res["trunc_info"] = [t for t in trunc if len(t) > 2][:3]
    # single-byte corruptions
    rr = random.Random(job["seed"] + 1)
    corr = []
    poss = list(range(n)) if n <= npos else sorted(rr.sample(range(n), npos))
    for pos in poss:
        alts = range(256) if n <= 24 and not light else rr.sample(range(256), job.get("alts", 6))
        for b in alts:
            if b == data[pos]:
                continue
            d2 = data[:pos] + bytes([b]) + data[pos + 1:]
            oc, info = outcome_of(lambda: scenario.sceneFromBytes(d2))
            corr.append([pos, b, oc] + ([info] if info and oc != "ok" else []))
    res["corrupt"] = [[c[0], c[1], c[2]] for c in corr]
    res["corrupt_info"] = [c for c in corr if len(c) > 3][:3]
    if light:
        return res
    # refused for a different program / options; accepted by a fresh compilation of the same program
    try:
        other = scenic.scenarioFromString(src + "\nparam verif_extra = 1\n", mode2D=job.get("mode2D", False))
        res["other_program"] = outcome_of(lambda: other.sceneFromBytes(data))[0]
        other2 = scenic.scenarioFromString(src, mode2D=not job.get("mode2D", False))
        res["other_options"] = outcome_of(lambda: other2.sceneFromBytes(data))[0]
    except BaseException as e:
        res["other_program"] = res.get("other_program", "compile-failed:" + type(e).__name__)
    if job.get("fresh_compile"):
        # the same program compiled again (pruning conditions its positions again): decodes to the same scene
        try:
            st, nst = random.getstate(), numpy.random.get_state()
            same = scenic.scenarioFromString(src, mode2D=job.get("mode2D", False))
            random.setstate(st)
            numpy.random.set_state(nst)
            oc, scene4 = outcome_of(lambda: same.sceneFromBytes(data))
            res["fresh_outcome"] = oc
            res["fresh_equal"] = oc == "ok" and scene_canon(scene4) == before
        except BaseException as e:
            res["fresh_outcome"] = "compile-failed:" + type(e).__name__
    return res


def do_program(job):
    """All results of one program: the plain scenario, then one result per conditioning stage (the SAME
    scenario object conditioned again and again), replay on the last scene."""
    src = job["src"]
    random.seed(job["seed"])
    numpy.random.seed(job["seed"])
    try:
        scenario = scenic.scenarioFromString(src, mode2D=job.get("mode2D", False))
        scene, _ = scenario.generate(maxIterations=job.get("max_iterations", 200), verbosity=0)
    except BaseException as e:
        return [dict(name=job.get("name") + "#plain", job_name=job.get("name"), stage="plain",
                     skip=type(e).__name__ + ": " + str(e)[:200])]
    out = [scene_checks(scenario, scene, job, "plain", src)]
    for k, st in enumerate(job.get("condition", [])):
        stage = "cond%d" % k
        try:
            kw = build_condition(scenario, scene, st)
            if not kw:
                continue
            scenario.conditionOn(**kw)
            for rep in range(st.get("scenes", 1)):
                scene, _ = scenario.generate(maxIterations=job.get("max_iterations", 200), verbosity=0)
                r = scene_checks(scenario, scene, job, stage + ("" if rep == 0 else ".%d" % rep), src, light=True)
                r["condition"] = dict(objects=list(kw.get("objects", ())), params=sorted(kw.get("params", {})))
                out.append(r)
        except BaseException as e:
            out.append(dict(name=job.get("name") + "#" + stage, job_name=job.get("name"), stage=stage,
                            skip="condition:" + type(e).__name__ + ": " + str(e)[:200]))
            break
    # simulation replay (of the last scene: after conditioning if the job conditions)
    if job.get("dynamic") and "bytes" in out[-1]:
        out[-1]["replay"] = do_replay(scenario, scene, job)
    return out


def sim_canon(sim):
    r = sim.result
    return dict(traj=[[canon(p) for p in st.positions] for st in r.trajectory],
                actions=[{str(i): [canon(a) if not hasattr(a, "__dict__") else repr(a) for a in acts]
                          for i, (ag, acts) in enumerate(step.items())} for step in r.actions],
                term=str(r.terminationType), reason=str(r.terminationReason),
                records=canon({k: v for k, v in r.records.items()}))


class LogSimulation(DummySimulation):
    """DummySimulation that logs, in order, every request the replay machinery sees: run-time draws
    (dependency graph + values) and per-object updates (type and value of each dynamic property).
    Optionally perturbs one dynamic property from one step on (a nondeterministic simulator)."""

    def __init__(self, scene, vlog=None, perturb=None, **kwargs):
        self._vlog = vlog if vlog is not None else []
        self._perturb = perturb
        self._pending = None
        self._ncalls = {}
        super().__init__(scene, **kwargs)

    def replaySampledValue(self, dist, values):
        nodes, _, deps, unsup, _cg, _st = export_nodes([dist], values, with_values=False)
        ev = dict(k="D", nodes=nodes, root=deps[0], pvals={}, replayed=True, unsupported=unsup)
        self._vlog.append(ev)
        self._pending = (dist, ev)
        return super().replaySampledValue(dist, values)

    def recordSampledValue(self, dist, values):
        nodes, pvals, deps, unsup, _cg, _st = export_nodes([dist], values)
        if self._pending is not None and self._pending[0] is dist:
            ev = self._pending[1]
        else:
            ev = dict(k="D", replayed=False)
            self._vlog.append(ev)
        self._pending = None
        ev.update(nodes=nodes, root=deps[0], pvals=pvals, unsupported=unsup)
        super().recordSampledValue(dist, values)

    def getProperties(self, obj, properties):
        vals = super().getProperties(obj, properties)
        for prop in properties:
            if vals.get(prop) is None and prop not in ("position",):
                vals[prop] = getattr(obj, prop)
        oi = self.objects.index(obj)
        n = self._ncalls.get(oi, 0)
        self._ncalls[oi] = n + 1
        pt = self._perturb
        if pt and pt["obj"] == oi and n == pt["call"] and pt["prop"] in vals:
            v = vals[pt["prop"]]
            d = pt["delta"]
            if isinstance(v, Vector):
                vals[pt["prop"]] = v + Vector(*d)
            elif isinstance(v, bool):
                vals[pt["prop"]] = (not v) if d[0] else v
            elif isinstance(v, (int, float)):
                vals[pt["prop"]] = v + (int(d[0]) if isinstance(v, int) else d[0])
            elif isinstance(v, str):
                vals[pt["prop"]] = (v + "x") if d[0] else v
            elif isinstance(v, Orientation) and d[0]:
                vals[pt["prop"]] = Orientation.fromEuler(0.25, 0.125, 0)
        dyn = obj._simulatorProvidedProperties
        ps, unsup = [], []
        for prop, ty in dyn.items():
            value = vals[prop]
            if ty is float and isinstance(value, (int, float)):
                value = float(value)
            elif ty is type(None):
                ty = type(value)
            tn = TYNAMES.get(ty)
            if tn is None or not isinstance(value, ty):
                unsup.append(prop + ":" + getattr(ty, "__name__", "?"))
                tn = "none"
            ps.append([prop, tn] + enc_val(tn, value))
        self._vlog.append(dict(k="U", obj=oi, props=ps, unsupported=unsup))
        return vals


class LogSimulator(DummySimulator):
    def __init__(self, drift=0, perturb=None):
        super().__init__(drift=drift)
        self.vlog = []
        self.perturb = perturb

    def createSimulation(self, scene, **kwargs):
        return LogSimulation(scene, vlog=self.vlog, perturb=self.perturb, drift=self.drift, **kwargs)


def float_dyadic(x):
    m, d = float(x).as_integer_ratio()
    return [str(m), str(-(d.bit_length() - 1))]


def do_replay(scenario, scene, job):
    """Runs of one scene through the real replay machinery.  Every run is logged (events interned) so
    that the orchestrator can push the same requests through the extracted model."""
    out = {}
    steps = job.get("steps", 6)
    wr1 = job.get("wr", True)
    events, evindex, runs = [], {}, []

    def intern(log):
        ids = []
        for ev in log:
            key = json.dumps(ev, sort_keys=True)
            if key not in evindex:
                evindex[key] = len(events)
                events.append(ev)
            ids.append(evindex[key])
        return ids

    def run(kind, replay, seed, wr=True, cont=False, tol=0.0, perturb=None, nsteps=None, **extra):
        simulator = LogSimulator(drift=1.0, perturb=perturb)
        random.seed(seed)
        numpy.random.seed(seed % (2 ** 32))
        rec = dict(kind=kind, replay=(replay.hex() if replay else ""), wr=wr, cont=cont, tol=float_dyadic(tol), **extra)
        sim = None
        try:
            sim = simulator.simulate(scene, maxSteps=nsteps or steps, maxIterations=1, replay=replay, enableDivergenceCheck=wr,
                                     divergenceTolerance=tol, continueAfterDivergence=cont, raiseGuardViolations=True)
            rec["outcome"] = "ok" if sim is not None else "rejected"
        except SerializationError:
            rec["outcome"] = "SerializationError"
        except DivergenceError:
            rec["outcome"] = "DivergenceError"
        except BaseException as e:
            rec["outcome"] = "other:" + type(e).__name__
            rec["info"] = traceback.format_exc()[-500:]
        rec["log"] = intern(simulator.vlog)
        if sim is not None:
            rec["out"] = sim.getReplay().hex()
        runs.append(rec)
        return sim, rec

    try:
        sim1, r1 = run("record", None, job["seed"] + 7, wr=wr1)
    except BaseException as e:  # pragma: no cover
        return dict(skip=type(e).__name__ + ": " + str(e)[:200])
    if sim1 is None:
        return dict(skip="rejected" if r1["outcome"] == "rejected" else r1["outcome"])
    c1 = sim_canon(sim1)
    replay = sim1.getReplay()
    data = scenario.simulationToBytes(sim1)
    out["nbytes"] = len(data)
    out["ndraws"] = sum(1 for i in r1["log"] if events[i]["k"] == "D")
    # (1) replay through the public API (scene decoded from the bytes as well), a different random stream
    random.seed(12345)
    oc, simA = outcome_of(lambda: scenario.simulationFromBytes(data, LogSimulator(drift=1.0), maxSteps=steps, maxIterations=1, enableDivergenceCheck=wr1))
    out["outcome"] = oc
    out["equal"] = oc == "ok" and simA is not None and sim_canon(simA) == c1
    if oc == "ok" and simA is not None and not out["equal"]:
        out["diff"] = dict(a=c1, b=sim_canon(simA))
    if oc == "ok" and simA is not None:
        out["api_rerecord_equal"] = simA.getReplay() == replay
    # (2) the same replay on the same scene, logged: same result, re-recorded bytes identical
    sim2, r2 = run("replay", replay, 999, wr=wr1)
    out["rerecord_equal"] = sim2 is not None and sim2.getReplay() == replay
    out["replay_equal"] = sim2 is not None and sim_canon(sim2) == c1
    # replay with the other divergence-data setting (header flag decides what is read, the option what is written)
    sim2b, _ = run("replay-otherflag", replay, 998, wr=not wr1)
    out["otherflag_equal"] = sim2b is not None and sim_canon(sim2b) == c1
    if sim2 is not None:
        sim3, _ = run("gen2", sim2.getReplay(), 5, wr=wr1)
        out["gen2_equal"] = sim3 is not None and sim_canon(sim3) == c1
    # (3) continued past the end of the recording, then replayed again
    sim4, r4 = run("extended", replay, 4321, wr=wr1, nsteps=steps + 3)
    if sim4 is not None:
        c4 = sim_canon(sim4)
        out["extended_prefix_equal"] = c4["actions"][:len(c1["actions"])] == c1["actions"]
        sim5, _ = run("extended-gen2", sim4.getReplay(), 6, wr=wr1, nsteps=steps + 3)
        out["extended_gen2_equal"] = sim5 is not None and sim_canon(sim5) == c4
    else:
        out["extended_outcome"] = r4["outcome"]
    # (4) truncations
    n = len(replay)
    rr = random.Random(job["seed"] + 3)
    maxc = job.get("replay_cuts", 25)
    cuts = list(range(n)) if n <= maxc else sorted(set(rr.sample(range(n), maxc - 8) + list(range(8))))
    for c in cuts:
        run("trunc", replay[:c], 777 + c, wr=wr1, cut=c)
    # (5) nondeterministic simulator: one dynamic property drifts by delta from some update on
    if r1["wr"]:
        for pt in job.get("perturbs", []):
            run("perturb", replay, 31, wr=pt.get("wr", True), cont=pt.get("cont", False), tol=pt["tol"],
                perturb=dict(obj=pt["obj"], call=pt["call"], prop=pt["prop"], delta=pt["delta"]), pt=pt)
    # (6) single-byte corruptions of the replay
    for _ in range(job.get("replay_corruptions", 12)):
        pos = rr.randrange(n)
        b = rr.randrange(256)
        if b == replay[pos]:
            continue
        run("corrupt", replay[:pos] + bytes([b]) + replay[pos + 1:], 55, wr=wr1, pos=pos, byte=b)
    out["events"] = events
    out["runs"] = runs
    return out


def do_codec(job):
    """Direct codec calls: ints / byte strings through the module-level functions."""
    from scenic.core import serialization as S
    out = []
    for kind, arg in job["cases"]:
        if kind == "WI":
            s = io.BytesIO()
            try:
                S.writeInt(int(arg), s)
                out.append("SOME " + (s.getvalue().hex() or "-"))
            except SerializationError:
                out.append("NONE")
        elif kind == "RI":
            data = bytes.fromhex(arg) if arg != "-" else b""
            s = io.BytesIO(data)
            try:
                v = S.readInt(s)
                out.append("OK %d %s" % (v, s.read().hex() or "-"))
            except (SerializationError, IndexError, OverflowError):
                # OverflowError: a length field beyond sys.maxsize handed to stream.read (wrapped into
                # SerializationError by readSamplable at the scene level)
                out.append("ERR trunc")
        elif kind == "RB":
            data = bytes.fromhex(arg) if arg != "-" else b""
            s = io.BytesIO(data)
            try:
                v = S.readBytes(s)
                out.append("OK S %s | %s" % (v.hex() or "-", s.read().hex() or "-"))
            except (SerializationError, IndexError, OverflowError):
                # OverflowError: a length field beyond sys.maxsize handed to stream.read (wrapped into
                # SerializationError by readSamplable at the scene level)
                out.append("ERR trunc")
    return out


def main():
    job = json.load(sys.stdin)
    if job["kind"] == "programs":
        results = []
        for p in job["programs"]:
            try:
                results += do_program(p)
            except BaseException as e:
                results.append(dict(name=p.get("name") + "#plain", job_name=p.get("name"), stage="plain", crash=traceback.format_exc()[-1500:]))
        print(json.dumps(dict(results=results)))
    elif job["kind"] == "codec":
        print(json.dumps(dict(results=do_codec(job))))


if __name__ == "__main__":
    main()
