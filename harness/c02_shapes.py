"""C02 helper, importable BOTH from generated Scenic programs (harness/ is on PYTHONPATH of the implementation
side) and from impl_c02.py: one-body non-convex meshes assembled from overlapping axis-aligned boxes (manifold
union; coordinates single-precision exact because manifold3d returns float32), and the exact convex pieces."""
import numpy as np


def f32(x):
    return float(np.float32(x))


def norm_pieces(pieces):
    return [[f32(v) for v in p] for p in pieces]


def assembly(pieces):
    """pieces: [[ex, ey, ez, ox, oy, oz], ...] (extents, centre offsets) -> trimesh (union)"""
    import trimesh
    ms = []
    for ex, ey, ez, ox, oy, oz in norm_pieces(pieces):
        m = trimesh.creation.box(extents=[ex, ey, ez])
        m.apply_translation([ox, oy, oz])
        ms.append(m)
    return trimesh.boolean.union(ms, engine="manifold")


def piece_corners(pieces):
    """corner arrays (8x3) of the pieces in the assembly frame, the bounding-box centre and extents of the union"""
    cs = []
    for ex, ey, ez, ox, oy, oz in norm_pieces(pieces):
        cs.append(np.array([[ox + sx * ex / 2, oy + sy * ey / 2, oz + sz * ez / 2]
                            for sx in (-1, 1) for sy in (-1, 1) for sz in (-1, 1)], dtype=float))
    allv = np.concatenate(cs)
    lo, hi = allv.min(axis=0), allv.max(axis=0)
    return cs, (lo + hi) / 2, hi - lo
