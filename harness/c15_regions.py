"""C15 — generator of REGION programs: every region kind of scenic.core.regions that has its own sampler is
exercised through the real scenario path (`new Object in/on R`, `new Point in R`, `new OrientedPoint on R`,
`visible`), so that the cross-process / repeated-run comparison (bit-exact float.hex dumps) sees every draw a
region sampler makes, whichever generator it takes it from (Python's `random`, NumPy's global stream via
trimesh.sample / numpy.random.*, or — the bug class — a generator that is not a function of the seeds).
No scenic import here (orchestrator side)."""

OBJ = "with allowCollisions True, with requireVisible False, with width 0.2, with length 0.2, with height 0.2"


def _f(rng, lo, hi, nd=2):
    return round(rng.uniform(lo, hi), nd)


def _pos3(rng, zlo=0.0, zhi=2.0):
    return f"({_f(rng, -3, 3)}, {_f(rng, -3, 3)}, {_f(rng, zlo, zhi)})"


def _pos2(rng):
    return f"({_f(rng, -3, 3)}, {_f(rng, -3, 3)})"


def _dims(rng, lo=1.5, hi=3.5):
    return f"({_f(rng, lo, hi)}, {_f(rng, lo, hi)}, {_f(rng, 1.0, 2.5)})"


def _rot(rng):
    if rng.random() < 0.35:
        return ""
    return f", rotation=({_f(rng, -3.1, 3.1)}, {_f(rng, -1.2, 1.2)}, {_f(rng, -1.2, 1.2)})"


def _box(rng, rand_ok=True):
    pos = _pos3(rng)
    if rand_ok and rng.random() < 0.3:      # random parameters: Region.sampleGiven route, then the sampled region's sampler
        pos = f"(Range({_f(rng, -3, -1)}, {_f(rng, 1, 3)}), {_f(rng, -3, 3)}, {_f(rng, 0, 2)})"
    return f"BoxRegion(dimensions={_dims(rng)}, position={pos}{_rot(rng)})"


def _sphere(rng):
    return f"SpheroidRegion(dimensions={_dims(rng)}, position={_pos3(rng)}{_rot(rng)})"


def _hollow(rng):
    a, b = _f(rng, 3, 4.5), _f(rng, 3, 4.5)
    return (f"BoxRegion(dimensions=({a}, {b}, 2), position={_pos3(rng)}{_rot(rng)})"
            f".difference(BoxRegion(dimensions=({_f(rng, 1, a - 1)}, {_f(rng, 1, b - 1)}, 5), position={_pos3(rng, 0, 1)}))")


def _custom(rng):
    shape = rng.choice(["trimesh.creation.cone(radius=1.0, height=2.0, sections=8)",
                        "trimesh.creation.annulus(r_min=0.5, r_max=1.0, height=1.0, sections=8)",
                        "trimesh.creation.icosphere(subdivisions=1)",
                        "trimesh.creation.cylinder(radius=1.0, height=1.5, sections=7)"])
    return f"MeshVolumeRegion({shape}, dimensions={_dims(rng)}, position={_pos3(rng)}{_rot(rng)})"


def _volume(rng):      # for surfaces: fixed parameters only (the orientation field of a surface region with random parameters
    k = rng.randrange(4)   # is evaluated on the unsampled mesh and raises ValueError in trimesh: not a C15 matter)
    return _box(rng, rand_ok=False) if k == 0 else [_sphere, _hollow, _custom][k - 1](rng)


def _pts2(rng, n):
    return "[" + ", ".join(_pos2(rng) for _ in range(n)) + "]"


def _pts3(rng, n):
    return "[" + ", ".join(_pos3(rng) for _ in range(n)) + "]"


def _c2(rng, near):
    """centre of a flat region as a Scenic vector (`x @ y`; SectorRegion does not accept a tuple centre)"""
    w = 0.7 if near else 3
    return f"({_f(rng, -w, w)} @ {_f(rng, -w, w)})"


def _polygon(rng, near=False):
    # a star-shaped (usually non-convex) polygon around a centre
    import math
    w = 0.7 if near else 2
    cx, cy = rng.uniform(-w, w), rng.uniform(-w, w)
    n = rng.randint(4, 7)
    pts = []
    for k in range(n):
        r = rng.uniform(1.0, 3.0)
        t = 2 * math.pi * (k + rng.uniform(-0.3, 0.3)) / n
        pts.append(f"({round(cx + r * math.cos(t), 2)}, {round(cy + r * math.sin(t), 2)})")
    z = "" if near or rng.random() < 0.5 else f", z={_f(rng, -1, 2)}"
    return f"PolygonalRegion([{', '.join(pts)}]{z})"


def _circle(rng, near=False):
    r = f"Range({_f(rng, 1, 1.5)}, {_f(rng, 2, 3)})" if rng.random() < 0.35 else str(_f(rng, 1, 3))
    return f"CircularRegion({_c2(rng, near)}, {r})"


def _sector(rng, near=False):
    h = f"Range({_f(rng, -7, 0)}, {_f(rng, 0.1, 7)})" if rng.random() < 0.35 else str(_f(rng, -7, 7))    # angles beyond 2 pi are legal
    return f"SectorRegion({_c2(rng, near)}, {_f(rng, 1.5 if near else 1, 3)}, {h}, {_f(rng, 1.5 if near else 0.3, 6.2)})"


def _rect(rng, near=False):
    w = f"Range({_f(rng, 1, 1.5)}, {_f(rng, 2, 3)})" if rng.random() < 0.35 else str(_f(rng, 1, 3))
    return f"RectangularRegion({_c2(rng, near)}, {_f(rng, -7, 7)}, {w}, {_f(rng, 1, 3)})"


def _flat(rng, near=False):
    return rng.choice([_polygon, _circle, _sector, _rect])(rng, near)


def _grid(rng):
    ny, nx = rng.randint(2, 4), rng.randint(2, 4)
    rows = [[1 if rng.random() < 0.35 else 0 for _ in range(nx)] for _ in range(ny)]
    rows[rng.randrange(ny)][rng.randrange(nx)] = 0
    rows[rng.randrange(ny)][rng.randrange(nx)] = 0
    return f"GridRegion('grid', {rows!r}, {_f(rng, 0.5, 2)}, {_f(rng, 0.5, 2)}, {_f(rng, -3, 0)}, {_f(rng, -3, 0)})"


# kind -> (constructor, usable with Object `on`?, has a preferred orientation?)
KINDS = {
    "vox-box": (lambda r: f"{_box(r, rand_ok=False)}.voxelized({r.choice([0.5, 0.4, 0.75])})", False, False),
    "vox-sphere": (lambda r: f"{_sphere(r)}.voxelized({r.choice([0.5, 0.4])})", False, False),
    "vox-hollow": (lambda r: f"{_hollow(r)}.voxelized({r.choice([0.5, 0.6])})", False, False),
    "mesh-box": (_box, False, False),
    "mesh-sphere": (_sphere, False, False),
    "mesh-hollow": (_hollow, False, False),
    "mesh-custom": (_custom, False, False),
    "surface": (lambda r: f"{_volume(r)}.getSurfaceRegion()", True, False),
    "polyline": (lambda r: f"PolylineRegion({_pts2(r, r.randint(2, 5))})", False, True),
    "path": (lambda r: (f"PathRegion(points={_pts3(r, r.randint(2, 5))})" if r.random() < 0.6 else
                        f"PathRegion(polylines=[{_pts3(r, r.randint(2, 3))}, {_pts3(r, r.randint(2, 4))}])"), False, True),
    "pointset": (lambda r: f"PointSetRegion('pts', {_pts3(r, r.randint(1, 8))})", False, False),
    "grid": (_grid, False, False),
    "polygon": (_polygon, True, False),
    "circle": (_circle, True, False),
    "sector": (_sector, True, False),
    "rect": (_rect, True, False),
    "view": (lambda r: r.choice(["ego.visibleRegion", "ego.visibleRegion", "(visible {A})", "(not visible {A})", "({A} visible from ego)"]), False, False),
    "inter-flat": (lambda r: f"{_flat(r, True)}.intersect({{A2}})", False, False),
    "diff-flat": (lambda r: f"{{A2}}.difference({r.choice([_circle, _rect, _polygon])(r, True)})", False, False),
    "union-flat": (lambda r: f"{_flat(r, True)}.union({_flat(r)})", False, False),
    "inter-vol": (lambda r: "{A3}.intersect({B3})", False, False),
    "diff-vol": (lambda r: "{A3}.difference({B3})", False, False),
    "union-vol": (lambda r: "{A3}.union({B3})", False, False),
    "workspace": (lambda r: "workspace", False, False),
}
KIND_NAMES = list(KINDS)


def gen_region_program(rng, idx, kinds, hi0):
    """`kinds`: the region kinds this program must contain (the caller deals them round-robin so that every run
    covers all of them); `hi0`: upper bound of the one named Range (unique bounds identify it in the logs)."""
    L = ["from verif_c15_helpers import burn", "import trimesh", "from scenic.core.regions import GridRegion"]
    if "workspace" in kinds:
        L.append(rng.choice(["workspace = Workspace(RectangularRegion((0, 0), 0, 40, 40))",
                             "workspace = Workspace(BoxRegion(dimensions=(40, 40, 40)))",
                             "workspace = Workspace(CircularRegion((0, 0), 30))"]))
    L.append(f"x0 = Range(0, {hi0})")
    L.append("ego = new Object at (0, 0, 0), with visibleDistance 6, with viewAngles (140 deg, 80 deg), with allowCollisions True, "
             "with width 0.3, with length 0.3, with height 0.3")
    # auxiliary regions that combination kinds refer to (centred near the origin so that they overlap each other and the view cone)
    aux = {"A": f"BoxRegion(dimensions=(5, 5, 3), position=(0, {_f(rng, 1, 3)}, 0))",
           "A2": f"RectangularRegion((0, {_f(rng, 0, 1)}), {_f(rng, -3, 3)}, {_f(rng, 4, 6)}, {_f(rng, 4, 6)})",
           "A3": f"BoxRegion(dimensions=({_f(rng, 3, 4)}, {_f(rng, 3, 4)}, 2), position=(0.5, 0, 1){_rot(rng)})",
           "B3": rng.choice([f"SpheroidRegion(dimensions=({_f(rng, 2, 4)}, {_f(rng, 2, 4)}, 2.5), position=(0, 0.5, 1.2))",
                             f"BoxRegion(dimensions=({_f(rng, 1, 2)}, {_f(rng, 5, 6)}, 1), position=(0, 0, 1.2){_rot(rng)})"])}
    used_aux = set()
    regs = []
    for j, kind in enumerate(kinds):
        ctor, on_ok, oriented = KINDS[kind]
        expr = ctor(rng)
        for a in aux:
            if "{" + a + "}" in expr:
                used_aux.add(a)
        regs.append((f"reg{j}", kind, expr, on_ok, oriented))
    for a in sorted(used_aux):
        L.append(f"aux{a} = {aux[a]}")
    for v, kind, expr, on_ok, oriented in regs:
        L.append(f"{v} = " + expr.format(**{a: "aux" + a for a in aux}))
    ninst = 0
    labels = ["x0", "ego"]
    nodes = [(1, []), (0, [])]
    insts = [1]
    for v, kind, expr, on_ok, oriented in regs:
        forms = ["point", "object"]
        if on_ok:
            forms.append("object-on")
        if oriented:
            forms.append("opoint-on")
        for form in rng.sample(forms, rng.randint(1, min(2, len(forms)))) if kind != "workspace" else ["object"]:
            k = ninst
            ninst += 1
            if form == "point":
                L += [f"pt{k} = new Point in {v}", f"param q{k} = pt{k}.position"]
            elif form == "opoint-on":
                L += [f"pt{k} = new OrientedPoint on {v}", f"param q{k} = pt{k}.position", f"param h{k} = pt{k}.heading"]
            else:
                L.append(f"ob{k} = new Object {'on' if form == 'object-on' else 'in'} {v}, {OBJ}")
                nodes.append((0, []))
                labels.append(f"ob{k}")
                insts.append(len(nodes) - 1)
    thr = rng.choice([0.3, 0.45, 0.6])
    L.append(f"require {'burn(x0)' if rng.random() < 0.5 else 'x0'} > {thr}")
    model = dict(nodes=nodes, insts=insts, params=[], bindings=[[0, 1]], beh=[], nleaves=1, labels=labels)
    return dict(name=f"region{idx}", kind="region", region_kinds=list(kinds), src="\n".join(L) + "\n",
                names={f"{0.0!r}:{float(hi0)!r}": "x0"}, model=model, has_beh=False)


def deal_kinds(rng, nprog, per_prog=3):
    """Deal the region kinds round-robin from a shuffled deck (re-shuffled when exhausted): with nprog*per_prog >=
    len(KINDS) every kind occurs in every run; the three voxel kinds are separate entries of the deck."""
    deck, out = [], []
    for _ in range(nprog):
        ks, aside = [], []
        for _guard in range(4 * len(KIND_NAMES)):
            if len(ks) >= per_prog:
                break
            if not deck:
                deck = KIND_NAMES[:]
                rng.shuffle(deck)
            k = deck.pop()
            if k in ks:
                aside.append(k)
            else:
                ks.append(k)
        deck += aside
        out.append(ks)
    return out


if __name__ == "__main__":      # development aid: print N programs as an impl_c15 payload
    import json
    import random
    import sys
    n, seed = int(sys.argv[1]), int(sys.argv[2])
    r = random.Random(seed)
    per = int(sys.argv[3]) if len(sys.argv) > 3 else 3
    tasks = []
    for i, ks in enumerate(deal_kinds(r, n, per)):
        p = gen_region_program(r, i, ks, 1.01)
        tasks.append(dict(name=p["name"] + ":" + ",".join(ks), src=p["src"], names=p["names"], uprops=[], seed=r.randint(0, 10 ** 6), nscenes=6,
                          simulate=True, steps=4, maxIterations=400,
                          subs=[dict(mode="sequential", jitter=0, burn=1, noisy=0, full_log=True, id=0, timeout=120),
                                dict(mode="batch", jitter=12, burn=0, noisy=2, id=1, alloc=5, timeout=120)]))
    json.dump(dict(tasks=tasks), sys.stdout)
