"""C01 implementation side (runs under /venv/bin/python with Scenic from $VERIF_REPO).
For every program: compile, export the dependency DAG by a fail-closed walk over the compiled
Scenario (c01 walker), and enumerate every RNG path of Scenario._generateInner(n, 0, None)."""
import inspect
import json
import sys
import traceback
from fractions import Fraction

import c01_rngenum as R


class WalkError(Exception):
    pass


OPNAMES = {"__add__": "add", "__radd__": "add", "__sub__": "sub", "__rsub__": "rsub", "__mul__": "mul",
           "__rmul__": "mul", "__neg__": "neg", "__abs__": "abs", "__floordiv__": "floordiv",
           "__rfloordiv__": "rfloordiv", "__mod__": "mod", "__rmod__": "rmod", "__getitem__": "getitem",
           "__truediv__": "div", "__rtruediv__": "rdiv", "__pow__": "pow", "__rpow__": "rpow",
           "__divmod__": "divmod", "__rdivmod__": "rdivmod",
           "__call__": "call", "__len__": "len"}
ATTRS = {"a": 0, "b": 1, "total": 2}
FUNS = {"comb": 0, "mkbox": 1, "pair": 2, "plain3": 3, "plain2": 4}


def qstr(x):
    x = Fraction(x)
    return f"{x.numerator}/{x.denominator}"


def canon(v):
    """Canonical text of a sampled value, in the syntax of the model driver's string_of_val."""
    from verif_c01_helpers import Box
    if isinstance(v, bool):
        raise WalkError("bool value")
    if isinstance(v, int):
        return str(v)
    if isinstance(v, float):
        if v != v or v in (float("inf"), float("-inf")):
            raise WalkError(f"non-finite float {v!r}")
        if v == int(v):
            return str(int(v))
        return qstr(Fraction(v))          # the exact value of the float
    if isinstance(v, tuple):
        return "[0:" + ",".join(canon(x) for x in v) + "]"
    if isinstance(v, list):
        return "[1:" + ",".join(canon(x) for x in v) + "]"
    if isinstance(v, Box):
        return "[2:" + canon(v.a) + "," + canon(v.b) + "]"
    raise WalkError(f"value of unsupported type {type(v).__name__}")


def const_tokens(v):
    from verif_c01_helpers import Box
    if isinstance(v, bool):
        raise WalkError("bool constant")
    if isinstance(v, int):
        return ["Z", str(v)]
    if isinstance(v, float) and v == v and abs(v) != float("inf"):
        return ["Z", str(int(v))] if v == int(v) else ["Q", qstr(Fraction(v))]
    if isinstance(v, (tuple, list)):
        t = ["T", "0" if isinstance(v, tuple) else "1", str(len(v))]
        for x in v:
            t += const_tokens(x)
        return t
    if isinstance(v, Box):
        return ["T", "2", "2"] + const_tokens(v.a) + const_tokens(v.b)
    raise WalkError(f"constant of unsupported type {type(v).__name__}")


class Walker:
    """Scenario object graph -> list of model nodes (children before parents)."""

    def __init__(self):
        self.nodes = []        # token lists
        self.kinds = []
        self.ids = {}          # id(samplable) -> node number
        self.keep = []         # keep objects alive so ids stay unique

    def add(self, kind_tokens, args, kind):
        self.nodes.append(kind_tokens + [str(len(args))] + [str(a) for a in args])
        self.kinds.append(kind)
        return len(self.nodes) - 1

    def node(self, x):
        from scenic.core.distributions import Samplable
        from scenic.core.lazy_eval import isLazy
        if not isinstance(x, Samplable) or not isLazy(x):
            if isinstance(x, Samplable):
                from scenic.core.object_types import Constructible
                if isinstance(x, Constructible) and not x._dependencies:
                    return self.add(["B"], [], "B")       # object without random properties: nothing to draw
                raise WalkError(f"non-lazy samplable {type(x).__name__}")
            return self.add(["C"] + const_tokens(x), [], "const")
        if id(x) in self.ids:
            return self.ids[id(x)]
        n = self.samplable(x)
        self.ids[id(x)] = n
        self.keep.append(x)
        return n

    def check_deps(self, x, operands):
        """the model's operand order must be the object's own _dependencies order"""
        from scenic.core.lazy_eval import isLazy
        want = [id(d) for d in x._conditioned._dependencies]
        have = [id(o) for o in operands if isLazy(o)]
        if want != have:
            raise WalkError(f"dependency order of {type(x).__name__} differs from the model's")

    def samplable(self, x):
        import scenic.core.distributions as D
        import scenic.core.type_support as TS
        from scenic.core.object_types import Constructible
        from scenic.core.lazy_eval import isLazy
        if x._conditioned is not x:
            raise WalkError(f"conditioned {type(x).__name__}")
        T = type(x)
        if T is D.DiscreteRange:
            if x.weights:
                # the model's values are low + k (k = index drawn by random.choices); the values the code
                # really returns are observed on the enumerated runs, not taken from x.options here
                if len(x.cumulativeWeights) != x.high - x.low + 1:
                    raise WalkError("weighted DiscreteRange with inconsistent weights")
                self.check_deps(x, [])
                cum = [qstr(c) for c in x.cumulativeWeights]
                return self.add(["W", str(x.low), str(len(cum))] + cum, [], "W")
            ops = [x.low, x.high]
            self.check_deps(x, ops)
            return self.add(["R"], [self.node(o) for o in ops], "R")
        if T is D.Options or T is D.MultiplexerDistribution:
            ops = [x.index] + list(x.options)
            self.check_deps(x, ops)
            return self.add(["M"], [self.node(o) for o in ops], "M")
        if T is D.UniformDistribution:
            ops = list(x.options) + [x.selector]
            self.check_deps(x, ops)
            st = ["1" if isinstance(o, D.StarredDistribution) else "0" for o in x.options]
            return self.add(["U", str(len(st))] + st, [self.node(o) for o in ops], "U")
        if T is D.OperatorDistribution:
            if x.kwoperands:
                raise WalkError("operator with keyword operands")
            if x.operator not in OPNAMES:
                raise WalkError("operator " + x.operator)
            ops = [x.object] + list(x.operands)
            self.check_deps(x, ops)
            return self.add(["O", OPNAMES[x.operator]], [self.node(o) for o in ops], "O:" + OPNAMES[x.operator])
        if T is D.AttributeDistribution:
            if x.attribute not in ATTRS:
                raise WalkError("attribute " + x.attribute)
            self.check_deps(x, [x.object])
            return self.add(["O", "attr%d" % ATTRS[x.attribute]], [self.node(x.object)], "O:attr")
        if T is D.FunctionDistribution:
            if x.kwargs:
                raise WalkError("function with keyword arguments")
            name = getattr(D.underlyingFunction(x.function), "__name__", "?")
            if name not in FUNS:
                raise WalkError("function " + name)
            ops = list(x.arguments)
            self.check_deps(x, ops)
            st = ["1" if isinstance(o, D.StarredDistribution) else "0" for o in ops]
            return self.add(["F", str(FUNS[name]), str(len(st))] + st, [self.node(o) for o in ops], "F:" + name)
        if T is D.TupleDistribution:
            if x.builder is tuple:
                tag = 0
            elif x.builder is list:
                tag = 1
            else:
                raise WalkError("tuple builder")
            ops = list(x.coordinates)
            self.check_deps(x, ops)
            return self.add(["O", "mk%d" % tag], [self.node(o) for o in ops], "O:mk")
        if T is D.StarredDistribution:
            self.check_deps(x, [x.value])
            return self.add(["O", "id"], [self.node(x.value)], "O:starred")
        if T is TS.TypecheckedDistribution:
            if x._coercer is not TS.coerceToFloat:
                raise WalkError("typechecked distribution with coercer " + repr(x._coercer))
            self.check_deps(x, [x._dist])
            return self.add(["O", "id"], [self.node(x._dist)], "O:coerce")
        if isinstance(x, Constructible):
            ops = list(x._dependencies)
            props = [getattr(x, p) for p in x.properties]
            lazy_props = [v for v in props if isLazy(v)]
            if sorted(map(id, lazy_props)) != sorted(map(id, ops)):
                raise WalkError("object dependencies are not its random properties")
            return self.add(["B"], [self.node(o) for o in ops], "B")
        raise WalkError("unsupported samplable " + T.__name__)


def rexpr_tokens(e, bind):
    k = e[0]
    if k == "name":
        return bind(e[1])
    if k == "const":
        if isinstance(e[1], dict):          # a float literal, sent as its exact value {"__q__": [n, d]}
            n, d = e[1]["__q__"]
            return ["K", "Z", str(n // d)] if n % d == 0 else ["K", "Q", f"{n}/{d}"]
        return ["K", "Z", str(e[1])]
    if k == "bin":
        return ["B", e[1]] + rexpr_tokens(e[2], bind) + rexpr_tokens(e[3], bind)
    if k == "index":
        return ["B", "getitem"] + rexpr_tokens(e[1], bind) + ["K", "Z", str(e[2])]
    raise WalkError("requirement expression " + k)


def cond_tokens(c, bind):
    k = c[0]
    if k in ("lt", "le", "eq", "ne"):
        return [k.upper()] + rexpr_tokens(c[1], bind) + rexpr_tokens(c[2], bind)
    if k in ("and", "or"):
        return [k.upper()] + cond_tokens(c[1], bind) + cond_tokens(c[2], bind)
    if k == "not":
        return ["NOT"] + cond_tokens(c[1], bind)
    raise WalkError("requirement condition " + k)


def export(scenario, reqs):
    """reqs: the conditions of the program's require statements (from the generator's AST), in
    source order; names are resolved through the bindings captured by the compiled requirement."""
    w = Walker()
    deps = [w.node(d) for d in scenario.dependencies]
    from scenic.core.lazy_eval import isLazy
    from scenic.core.distributions import toDistribution
    obs = []      # (label, node or None, constant text or None)

    def ob(label, v):
        v = toDistribution(v)
        if isLazy(v):
            obs.append((label, w.node(v), None))
        else:
            obs.append((label, None, canon(v)))
    for name, v in scenario.params.items():
        ob("param:" + name, v)
    for i, o in enumerate(scenario.objects):
        for p in sorted(o.properties):
            if p.startswith("foo"):
                ob(f"obj{i}.{p}", getattr(o, p))
    ureqs = sorted(scenario.userRequirements, key=lambda r: r.line)
    if len(ureqs) != len(reqs):
        raise WalkError("number of requirements")
    by_line = {}
    for r, spec in zip(ureqs, reqs):
        gb = inspect.getclosurevars(r.closure).nonlocals["globalBindings"]

        def bind(name, gb=gb):
            if name not in gb:
                raise WalkError("requirement does not bind " + name)
            from scenic.core.lazy_eval import isLazy
            v = gb[name]
            if not isLazy(v):
                return ["K"] + const_tokens(v)        # a name bound to a constant when the statement ran
            return ["N", str(w.node(v))]
        by_line[r.line] = [qstr(Fraction(r.prob))] + cond_tokens(spec, bind)
    # the order in which _generateInner draws the activations
    rtoks = [by_line[r.line] for r in scenario.userRequirements]
    return dict(nodes=w.nodes, kinds=w.kinds, deps=deps, reqs=rtoks, obs=obs)


def observe(scene, iterations):
    out = {}
    for name, v in scene.params.items():
        out["param:" + name] = canon(v)
    for i, o in enumerate(scene.objects):
        for p in sorted(o.properties):
            if p.startswith("foo"):
                out[f"obj{i}.{p}"] = canon(getattr(o, p))
    return [iterations, out]


def run_program(job):
    import scenic
    from scenic.core.distributions import RejectionException
    res = dict(name=job["name"])
    try:
        scenario = scenic.scenarioFromString(job["src"], mode2D=job.get("mode2D", False))
    except Exception as e:
        res["compile_error"] = f"{type(e).__name__}: {e}"
        return res
    try:
        res["dag"] = export(scenario, job["reqs"])
    except WalkError as e:
        res["walk_error"] = str(e)
        return res
    res["runs"] = {}
    for n in job["maxits"]:
        def once():
            try:
                scene, its = scenario._generateInner(n, 0, None)
                return observe(scene, its)
            except RejectionException:
                return "REJ"
        try:
            runs = R.enumerate_runs(once, job.get("max_paths", 20000))
        except R.TooManyPaths:
            res["runs"][str(n)] = "too-many-paths"
            continue
        except R.Unsupported as e:
            res["unsupported"] = str(e)
            return res
        except Exception as e:
            res["crash"] = f"{type(e).__name__}: {e}\n" + traceback.format_exc()[-1500:]
            return res
        res["runs"][str(n)] = [[" ".join(lg), qstr(p), r] for lg, p, r in runs]
    return res


def main():
    payload = json.load(sys.stdin)
    out = []
    for job in payload["programs"]:
        try:
            out.append(run_program(job))
        except Exception as e:
            out.append(dict(name=job.get("name"), crash=f"{type(e).__name__}: {e}\n" + traceback.format_exc()[-1500:]))
    print(json.dumps(dict(results=out)))


if __name__ == "__main__":
    main()
