"""C02 — every generated scene satisfies all of its requirements, whatever order/subset/shortcut the
checker chose.  Proof layer: coq/Properties/C02.v.  Correspondence: (i) the real
WeightedAcceptanceChecker under a scripted clock vs the extracted model over long histories;
(ii) generateDefaultRequirements of real programs vs default_requirements of the exported flags,
and every accepted scene re-checked directly (all pairs, no shortcuts)."""
import concurrent.futures as cf
import json
import os
import sys
import time
from fractions import Fraction

sys.path.insert(0, os.path.dirname(os.path.abspath(__file__)))
import common
from common import Check
from c04 import cert_cmd      # certificate -> command line of the extracted Polytope checker (read-only reuse of C04's format)

PID = "C02"


# ------------------------------------------------------------------ scripted histories
def gen_history(rng, idx, nsteps):
    n = rng.randint(1, 8)
    kind = rng.choice(["pow2-ties", "pow2-ties", "pow2", "any", "any-ties"])
    if kind.startswith("pow2"):
        B = rng.choice([1, 2, 4, 8, 16, 64])
    else:
        B = rng.choice([3, 5, 7, 10, 10, 100, 100])
    opt = [1 if rng.random() < 0.35 else 0 for _ in range(n)]
    pfals = [rng.choice([0, 0, 0.02, 0.1, 0.3, 0.7, 1.0]) for _ in range(n)]
    pact = [rng.choice([1, 1, 1, 0.9, 0.5]) for _ in range(n)]
    if kind.endswith("ties"):
        scale = [rng.choice([0, 1, 2, 3]) for _ in range(n)]
        dur = lambda i: rng.choice([0, scale[i], scale[i], rng.randint(0, 3)])
    else:
        scale = [2 ** rng.randint(0, 20) for _ in range(n)]
        dur = lambda i: rng.randint(0, scale[i]) if rng.random() < 0.9 else rng.randint(0, 2 ** 20)
    steps = []
    for _ in range(nsteps if B < 50 else max(nsteps, 260)):
        act = [1 if rng.random() < pact[i] else 0 for i in range(n)]
        fals = [1 if rng.random() < pfals[i] else 0 for i in range(n)]
        durs = [dur(i) for i in range(n)]
        steps.append([act, fals, durs])
    # BasicChecker view of the same table: at most one optional requirement is the blanket collision check, some
    # mandatory ones are pairwise IntersectionRequirements (>= 3 of them keep the blanket check when icc is set)
    opts = [i for i in range(n) if opt[i]]
    blanket = rng.choice(opts) if opts and rng.random() < 0.8 else -1
    inter = [0 if opt[i] else (1 if rng.random() < 0.6 else 0) for i in range(n)]
    return dict(name=f"hist{idx}", kind=kind, B=B, n=n, opt=opt, steps=steps, blanket=blanket, inter=inter, icc=1 if rng.random() < 0.7 else 0)


def history_cmds(h):
    cmds = [f"INIT {h['B']} {h['n']}"]
    for act, fals, durs in h["steps"]:
        t = [str(h["n"])]
        for i in range(h["n"]):
            t += [str(h["opt"][i]), str(act[i]), str(fals[i])]
        t += [str(len(durs))] + [str(d) for d in durs]
        cmds.append("STEP " + " ".join(t))
    return cmds


def parse_model_step(line):
    o, v, s = [x.strip() for x in line.split("|")]
    order = [] if o == "-" else [int(x) for x in o.split(",")]
    sums = [[int(y, 0) for y in x.split(":")] for x in s.split()]
    return order, v, sums


def robust(B, sums, act):
    """False when float rounding could legitimately order two keys differently from exact arithmetic."""
    if B & (B - 1) == 0:
        return True
    keys = []
    for i, (a, t) in enumerate(sums):
        if act[i]:
            keys.append((i, (0, Fraction(t, B - a)) if a < B else (1, Fraction(t, B))))
    for x in range(len(keys)):
        for y in range(x + 1, len(keys)):
            (i, (ci, ki)), (j, (cj, kj)) = keys[x], keys[y]
            if sums[i] == sums[j] or ci != cj:
                continue
            if abs(ki - kj) <= Fraction(1, 10 ** 9) * max(abs(ki), abs(kj), Fraction(1, 10 ** 9)):
                return False
    return True


def fetch_scripted(exe, hists):
    cmds = []
    for h in hists:
        cmds += history_cmds(h)
    model = common.run_driver(exe, cmds)
    res = common.run_impl("impl_c02.py", dict(kind="scripted", histories=hists))
    bcmds, where = [], []
    for hi, h in enumerate(hists):
        if "inter" not in h:
            continue
        for k, (act, fals, _) in enumerate(h["steps"][:60]):
            t = [str(h["icc"]), str(h["n"])]
            for i in range(h["n"]):
                t += [str(h["opt"][i]), str(act[i]), str(fals[i]), "1" if i == h["blanket"] else "0", str(h["inter"][i])]
            bcmds.append("BASIC " + " ".join(t))
            where.append((hi, k))
    bmodel = dict(zip(where, common.run_driver(exe, bcmds))) if bcmds else {}
    return model, (res["results"], res.get("basic"), bmodel)


def check_basic(c, hists, basic, bmodel):
    """the real BasicChecker vs the extracted basic_check, and the property oracle on what it did"""
    for hi, h in enumerate(hists):
        b = (basic or [None] * len(hists))[hi]
        if b is None:
            continue
        c.hist("basic:histories")
        kept_blanket = h["blanket"] in b["kept"]
        c.hist("basic:blanket-kept" if kept_blanket else "basic:blanket-dropped")
        for k, v in enumerate(b["verdicts"]):
            act, fals, _ = h["steps"][k]
            c.count(n=1)
            case = dict(history=dict(h, steps=h["steps"][:k + 1]), step=k, basic_impl=v, basic_model=bmodel.get((hi, k)), kept=b["kept"])
            if v == "accept":
                missed = [i for i in range(h["n"]) if act[i] and not h["opt"][i] and fals[i]]
                if missed:
                    c.violation("accept-unsound", "the real BasicChecker accepted a sample that falsifies an active mandatory requirement", dict(case, falsified_mandatory=missed))
            elif v.startswith("reject "):
                r = int(v.split()[1])
                if not (act[r] and fals[r]):
                    c.violation("reject-unsound", "the real BasicChecker rejected because of a requirement that is inactive or not falsified", case)
            if v != bmodel.get((hi, k)):
                c.violation("correspondence", "BasicChecker verdict differs from the model basic_check", case)
                break
            c.hist("basic:" + v.split()[0])


def check_scripted(c, hists, model, impl):
    impl, basic, bmodel = impl
    check_basic(c, hists, basic, bmodel)
    pos = 0
    for h, isteps in zip(hists, impl):
        pos += 1  # INIT
        B, n = h["B"], h["n"]
        prev = [[0, 0] for _ in range(n)]
        stopped = False
        reordered = dropped = 0
        for k, ((act, fals, durs), ist) in enumerate(zip(h["steps"], isteps)):
            line = model[pos]
            pos += 1
            if stopped:
                continue
            morder, mverdict, msums = parse_model_step(line)
            c.count(n=1)
            case = dict(history=dict(h, steps=h["steps"][:k + 1]), step=k, impl=ist,
                        model=dict(order=morder, verdict=mverdict, sums=msums))
            # property oracle on what the real checker did
            if ist["verdict"] == "accept":
                missed = [i for i in range(n) if act[i] and not h["opt"][i] and fals[i]]
                if missed:
                    c.violation("accept-unsound", "the real checker accepted a sample that falsifies an active mandatory requirement",
                                dict(case, falsified_mandatory=missed))
            elif ist["verdict"].startswith("reject "):
                r = int(ist["verdict"].split()[1])
                if not (act[r] and fals[r]):
                    c.violation("reject-unsound", "the real checker rejected because of a requirement that is inactive or not falsified", case)
            else:
                c.violation("correspondence", "unexpected result of checkRequirements", case)
            if not ist["lens_ok"]:
                c.violation("metrics", "a buffer no longer has bufferSize entries", case)
            if not robust(B, prev, act):
                c.hist("scripted:nonrobust-stop")
                stopped = True
                continue
            if ist["order"] != morder:
                c.violation("correspondence", "sortedRequirements() order differs from the model", case)
                stopped = True
            elif ist["verdict"] != mverdict:
                c.violation("correspondence", "checker verdict differs from the model", case)
                stopped = True
            elif ist["sums"] != msums:
                c.violation("correspondence", "bufferSums differ from the model", case)
                stopped = True
            ident = [i for i in range(n) if act[i]]
            if morder != ident[:len(morder)]:
                reordered += 1
            if len(morder) < len(ident):
                dropped += 1
            prev = msums
            c.hist("scripted:" + mverdict.split()[0])
        c.count(("hist", h["B"], h["n"], h["opt"], h["steps"][0]), nontrivial=reordered > 0 and dropped > 0)
        c.cov["traces_validated_against_impl"] += 1
        c.hist(f"scripted:B={B}")
        c.hist(f"scripted:n={n}")
        c.hist("scripted:kind=" + h["kind"])
        c.hist("scripted:steps-reordered", reordered)
        c.hist("scripted:steps-optional-dropped", dropped)
    c.sample(dict(history=dict(hists[0], steps=hists[0]["steps"][:3]), impl=impl[0][:3]), limit=2)


# ------------------------------------------------------------------ program generator
SHAPES = ["", "", "", "with shape SpheroidShape()", "with shape CylinderShape()", "with shape ConeShape()"]


def gen_program(rng, idx):
    mode2D = rng.random() < 0.3
    has_ws = rng.random() < 0.85
    W = rng.choice([16, 24, 36])
    h = W // 2 - 3
    L = []
    if has_ws:
        L.append(f"workspace = Workspace(RectangularRegion((0,0), 0, {W}, {W}))")
    n = rng.randint(2, 5)
    names = []
    cont = dict(workspace=dict(kind="rect", w=W) if has_ws else None, objects={})
    cur = [0]

    def dims():
        s = f"with width {rng.choice([0.5, 1, 2, 3])}, with length {rng.choice([0.5, 1, 2, 4])}"
        if not mode2D:
            s += f", with height {rng.choice([0.5, 1, 2])}"
        return s

    def flags(is_ego):
        f = []
        r = rng.random()
        if r < 0.2:
            f.append("with allowCollisions True")
        elif r < 0.3:
            f.append("with allowCollisions Uniform(True, False)")
        r = rng.random()
        if r < 0.25:
            f.append("with occluding False")
        elif r < 0.35:
            f.append("with occluding Uniform(True, False)")
        elif mode2D and r < 0.8:
            f.append("with occluding True")
        r = rng.random()
        if not is_ego:
            if r < 0.25:
                f.append("with requireVisible True")
            elif mode2D and r < 0.7:
                f.append("with requireVisible False")
        if has_ws and rng.random() < 0.2:
            rad = rng.choice([h, h + 2, W])
            f.append(f"with regionContainedIn CircularRegion((0,0), {rad})")
            cont["objects"][str(cur[0])] = dict(kind="circle", r=rad)
        if not mode2D and rng.random() < 0.5:
            f.append(rng.choice(SHAPES))
        return [x for x in f if x]

    def at():
        if mode2D or rng.random() < 0.6:
            return f"at (Range({-h}, {h}), Range({-h}, {h}))"
        return f"at (Range({-h}, {h}), Range({-h}, {h}), Range(0, 2))"

    def facing():
        if mode2D or rng.random() < 0.7:
            return "facing Range(0, 360) deg"
        return "facing (Range(0, 360) deg, Range(-25, 25) deg, Range(-10, 10) deg)"

    ego = ["at (Range(-3, 3), Range(-3, 3))", facing(), dims(),
           f"with viewAngle {rng.choice([60, 120, 200, 360])} deg", f"with visibleDistance {rng.choice([8, 12, 20])}"] + flags(True)
    L.append("ego = new Object " + ", ".join(ego))
    names.append("ego")
    for k in range(1, n):
        cur[0] = k
        r = rng.random()
        if has_ws and r < 0.35:
            pos = "visible from " + rng.choice(names)
            if rng.random() < 0.3:
                pos = at() + ", " + pos
        elif has_ws and r < 0.5:
            pos = "not visible from " + rng.choice(names)
            if not mode2D or rng.random() < 0.3:   # alone it cannot be sampled in 3D (footprint region)
                pos = at() + ", " + pos
        elif has_ws and r < 0.6:
            pos = "in workspace"
        else:
            pos = at()
        L.append(f"o{k} = new Object " + ", ".join([pos, facing(), dims()] + flags(False)))
        names.append(f"o{k}")
    if has_ws and rng.random() < 0.3:
        L.append("pt = new Point visible from " + rng.choice(names))
    if has_ws and mode2D and rng.random() < 0.3:
        L.append("pt2 = new OrientedPoint not visible from " + rng.choice(names))
    preds = []
    for _ in range(rng.randint(0, 3)):
        a, b = rng.randrange(n), rng.randrange(n)
        if a == b:
            continue
        na, nb = names[a], names[b]
        prob = rng.choice(["", "", "[0.5]", "[0.2]"])
        if rng.random() < 0.5:
            d = rng.choice([1, 2, 4])
            L.append(f"require{prob} (distance from {na} to {nb}) > {d}")
            preds.append(f"dist(o[{a}], o[{b}]) > {d}")
        else:
            cst = rng.choice([-2, 0, 3])
            L.append(f"require{prob} {na}.position.x < {nb}.position.x + {cst}")
            preds.append(f"o[{a}].position.x < o[{b}].position.x + {cst}")
    return dict(name=f"prog{idx}", src="\n".join(L) + "\n", seed=rng.randint(0, 10 ** 6), mode2D=mode2D, user_preds=preds, containers=cont)


POLYS = [[(-5, -5), (5, -5), (5, 0), (0, 0), (0, 5), (-5, 5)],                       # L
         [(-6, -4), (6, -4), (6, 4), (3, 4), (3, -1), (-3, -1), (-3, 4), (-6, 4)],   # U
         [(-5, -3), (5, -3), (7, 3), (-3, 3)],                                       # parallelogram
         [(-4, -4), (4, -4), (4, 4), (-4, 4)]]


def gen_assembly_spec(rng):
    """[[ex,ey,ez,ox,oy,oz],...] of an L / U / C / slotted one-body non-convex assembly (cf. c04.gen_assembly)"""
    kind = rng.choice(["L", "U", "U", "C", "slot"])
    t, hh = rng.uniform(0.7, 1.3), rng.uniform(0.8, 2.0)
    a, b = rng.uniform(3.0, 5.0), rng.uniform(2.5, 4.5)
    if kind == "L":
        return kind, [[a, t, hh, a / 2, t / 2, 0.0], [t, b, hh, t / 2, b / 2, 0.0]]
    tb = t if kind != "slot" else rng.uniform(1.5, 2.5)
    b1 = b + tb
    b2 = b1 if kind != "C" else tb + rng.uniform(0.8, 3.0)
    return kind, [[a, tb, hh, a / 2, tb / 2, 0.0], [t, b1, hh, t / 2, b1 / 2, 0.0], [t, b2, hh, a - t / 2, b2 / 2, 0.0]]


def gen_geometry_program(rng, idx):
    """3D programs aimed at the GEOMETRY of the built-in requirements: boxes tilted through their parentOrientation
    (or their own pitch/roll) and tall boxes sampled right up to the edges of rectangular / polygonal workspaces and
    `contained in` polygons / discs; a non-convex one-body mesh object with small objects sampled all over its
    bounding box (inside its arms: must be rejected; in its cavity: fine)."""
    fam = rng.choice(["tilt", "tilt", "poly", "meshhost", "meshhost"])
    L = []
    cont = dict(workspace=None, objects={})
    pieces = {}
    deg = lambda lo, hi: f"Range({lo}, {hi}) deg"

    def tilt_specs():
        r = rng.random()
        hgt = rng.choice([2, 3, 5, 6])
        s = [f"with width {rng.choice([0.5, 1, 2])}", f"with length {rng.choice([0.5, 1, 2])}", f"with height {hgt}"]
        if r < 0.55:      # tilt ONLY through the parent orientation (own yaw/pitch/roll default or yaw only)
            s.append(f"with parentOrientation ({rng.choice(['0', deg(0, 360), '90 deg'])}, {rng.choice([0, 30, 50, 70, -40])} deg, {rng.choice([0, 0, 20, -60])} deg)")
            if rng.random() < 0.4:
                s.append(f"facing {deg(0, 360)}")
        elif r < 0.8:     # own pitch / roll
            s.append(f"facing ({deg(0, 360)}, {rng.choice([0, 30, 60, -45])} deg, {rng.choice([0, 0, 25, -50])} deg)")
        else:
            s.append(f"facing {deg(0, 360)}")
        return s

    if fam in ("tilt", "poly"):
        n = rng.randint(1, 3)
        if fam == "tilt":
            W = rng.choice([8, 10, 12])
            L.append(f"workspace = Workspace(RectangularRegion((0,0), 0, {W}, {W}))")
            cont["workspace"] = dict(kind="rect", w=W)
            half = W / 2
        else:
            pts = rng.choice(POLYS)
            L.append(f"poly = PolygonalRegion({pts})")
            half = 7
            if rng.random() < 0.5:
                L.append("workspace = Workspace(poly)")
                cont["workspace"] = dict(kind="poly", pts=pts)
        for k in range(n):
            name = "ego" if k == 0 else f"o{k}"
            sp = tilt_specs()
            if fam == "poly" and cont["workspace"] is None:
                pos = "contained in poly"
                cont["objects"][str(k)] = dict(kind="poly", pts=pts)
            elif rng.random() < 0.3:
                pos = "in workspace"
            else:
                pos = f"at (Range({-half}, {half}), Range({-half}, {half}), {rng.choice([0, 0, 1, 'Range(0, 2)'])})"
            if rng.random() < 0.15 and fam == "tilt":
                rad = rng.choice([3, 4])
                sp.append(f"with regionContainedIn CircularRegion((0,0), {rad})")
                cont["objects"][str(k)] = dict(kind="circle", r=rad)
            if n > 1 and rng.random() < 0.4:
                sp.append("with allowCollisions True")
            L.append(f"{name} = new Object {pos}, " + ", ".join(sp))
    else:
        kind, spec = gen_assembly_spec(rng)
        spec = [[round(v, 3) for v in p] for p in spec]
        L.append("from c02_shapes import assembly")
        L.append("workspace = Workspace(RectangularRegion((0,0), 0, 16, 16))")
        cont["workspace"] = dict(kind="rect", w=16)
        face = rng.choice(["", f", facing {rng.choice([0, 40, 135, -70])} deg", f", facing ({rng.choice([0, 60, 200])} deg, {rng.choice([0, 20, -35])} deg, {rng.choice([0, 0, 15])} deg)"])
        L.append(f"ego = new Object at (0, 0, 0), with shape MeshShape(assembly({spec})){face}")
        pieces["0"] = spec
        ext = [max(p[3 + k] + p[k] / 2 for p in spec) - min(p[3 + k] - p[k] / 2 for p in spec) for k in range(3)]
        hx_, hy_, hz_ = [round(e / 2 + 0.3, 2) for e in ext]
        if face:
            hx_ = hy_ = round(max(hx_, hy_), 2)
        for k in range(1, rng.randint(2, 4)):
            d = [rng.choice([0.2, 0.3, 0.4]) for _ in range(3)]
            shp = rng.choice(["", "", ", with shape SpheroidShape()", ", with shape CylinderShape()", ", with shape ConeShape()"])
            fc = rng.choice([f", facing {deg(0, 360)}", f", facing ({deg(0, 360)}, {deg(-40, 40)}, {deg(-30, 30)})", ""])
            ac = ", with allowCollisions True" if k > 1 and rng.random() < 0.3 else ""
            L.append(f"o{k} = new Object at (Range({-hx_}, {hx_}), Range({-hy_}, {hy_}), Range({-hz_}, {hz_})), "
                     f"with width {d[0]}, with length {d[1]}, with height {d[2]}{shp}{fc}{ac}")
    return dict(name=f"prog{idx}", src="\n".join(L) + "\n", seed=rng.randint(0, 10 ** 6), mode2D=False, user_preds=[],
                family="geometry-" + fam, containers=cont, pieces=pieces)


def gen_occlusion_program(rng, idx):
    """Targeted family: a wall between the viewer and objects that must (not) be seen, several
    'visible from' requirements in one program (so that each one's occluder list matters)."""
    mode2D = rng.random() < 0.25
    occ = ", with occluding True" if mode2D else ""
    rv = ", with requireVisible False" if mode2D else ""
    hgt = "" if mode2D else ", with height 4"
    L = ["workspace = Workspace(RectangularRegion((0,0), 0, 30, 30))",
         f"ego = new Object at (0, 0), facing {rng.choice([0, 0, 20, -30])} deg, with viewAngle {rng.choice([120, 200, 360])} deg, with visibleDistance 14{occ}",
         f"o1 = new Object {rng.choice(['visible from ego', 'at (Range(-8, 8), Range(-8, -2)), visible from ego', 'at (Range(-6, 6), Range(4, 9)), not visible from ego'])}, with width 1, with length 1{occ}{rv}",
         f"o2 = new Object at (Range(-2, 2), {rng.choice([2.5, 3, 4])}), with width {rng.choice([5, 7, 9])}, with length 0.5{hgt}{rv}"
         + rng.choice([occ, occ, ", with occluding False", ", with occluding Uniform(True, False)"])]
    kind = rng.choice(["visible from ego", "visible from ego", "not visible from ego", "with requireVisible True"])
    L.append(f"o3 = new Object at (Range(-5, 5), Range(5, 10)), {kind}, with width 1, with length 1{occ}" + ("" if "requireVisible" in kind else rv))
    if rng.random() < 0.5:
        L.append(f"o4 = new Object at (Range(-6, 6), Range(5, 11)), {rng.choice(['visible from ego', 'not visible from ego', 'visible from o1'])}, with width 1, with length 1{occ}{rv}")
    return dict(name=f"prog{idx}", src="\n".join(L) + "\n", seed=rng.randint(0, 10 ** 6), mode2D=mode2D, user_preds=[], family="occlusion",
                containers=dict(workspace=dict(kind="rect", w=30), objects={}))


def gen_camera_program(rng, idx):
    """3D observers whose camera is OFF the object's position (cameraOffset) and whose orientation is pitched / rolled (own angles or
    parentOrientation), narrow view angles, with targets that must (not) be seen placed all around: the view volume starts at
    position + orientation x cameraOffset, and the visibility requirements must be decided from there."""
    deg = lambda lo, hi: f"Range({lo}, {hi}) deg"
    off = [0, 0, 0]
    for k in rng.sample(range(3), rng.choice([1, 1, 2])):
        off[k] = rng.choice([-1, 1]) * rng.choice([2, 3, 4, 5])
    pitch, roll = rng.choice([(40, 0), (70, 0), (-60, 0), (90, 0), (0, 60), (0, -80), (50, 40), (-35, 70)])
    if rng.random() < 0.5:
        orient = f"facing ({deg(0, 360)}, {pitch} deg, {roll} deg)"
    else:
        orient = f"with parentOrientation ({rng.choice([0, 45, 200])} deg, {pitch} deg, {roll} deg), facing {deg(0, 360)}"
    hgt = rng.choice([5, 6, 8])
    L = ["workspace = Workspace(RectangularRegion((0,0), 0, 40, 40))",
         f"ego = new Object at (0, 0, 0), {orient}, with cameraOffset ({off[0]}, {off[1]}, {off[2]}), "
         f"with viewAngles ({rng.choice([50, 80, 120])} deg, {rng.choice([40, 60, 90])} deg), with visibleDistance {rng.choice([7, 9, 12])}, "
         f"with width 0.5, with length 0.5, with height 0.5" + rng.choice(["", ", with occluding False"])]
    # one target that must be seen (placed anywhere: most samples are rejected), up to two that must not be seen
    kinds = [rng.choice(["with requireVisible True", "with requireVisible True", "visible from ego"])] if rng.random() < 0.8 else []
    kinds += ["not visible from ego"] * rng.choice([0, 1, 2] if kinds else [2, 3])
    for k, kind in enumerate(kinds, 1):
        shp = rng.choice(["", "", ", with shape SpheroidShape()"])
        L.append(f"o{k} = new Object at (Range(-9, 9), Range(-9, 9), Range({-hgt}, {hgt})), {kind}, with width 0.6, with length 0.6, with height 0.6{shp}, "
                 f"with allowCollisions True")
    if rng.random() < 0.4:   # a wall somewhere near the observer: occlusion from the true camera and from a wrong one differ
        L.append(f"w = new Object at (Range(-4, 4), Range(-4, 4), Range(-3, 3)), facing ({deg(0, 360)}, {rng.choice([0, 90])} deg, 0 deg), "
                 f"with width 6, with length 0.3, with height 6, with allowCollisions True")
    return dict(name=f"prog{idx}", src="\n".join(L) + "\n", seed=rng.randint(0, 10 ** 6), mode2D=False, user_preds=[], family="camera", maxIterations=1500,
                containers=dict(workspace=dict(kind="rect", w=40), objects={}))


def gen_stack_program(rng, idx, long=False):
    """UPRIGHT boxes (yaw only) piled over one another at random heights: the planar-box fast path of Object.intersects decides the
    mandatory pairwise requirement by a z-interval test; the optional blanket check must not be what keeps overlapping boxes out.
    Run with the default WeightedAcceptanceChecker, with BasicChecker (which ignores the blanket check for < 3 pairs or without
    initialCollisionCheck) and -- `long` -- as a sparse scene sampled hundreds of times, so that the never-rejecting blanket check
    sorts last and is dropped by the weighted checker, after which partially stacked boxes turn up now and then."""
    n = 2 if long or rng.random() < 0.6 else 3
    L = []
    for k in range(n):
        name = "ego" if k == 0 else f"o{k}"
        w, l, h = rng.choice([1, 2, 3]), rng.choice([1, 2, 3]), rng.choice([0.5, 1, 2, 3, 4])
        if k == 0:
            pos = "at (0, 0, 0)"
        elif long:
            # 96%: far away (no contact at all); 4%: above/below the first box at any height up to well clear of it
            pos = "at (Discrete({Range(-0.4, 0.4): 0.04, Range(7, 12): 0.96}), Range(-0.4, 0.4), Range(-5, 5))"
        else:
            pos = f"at (Range(-0.5, 0.5), Range(-0.5, 0.5), Range(-5, 5))"
        face = rng.choice(["", f", facing Range(0, 360) deg", f", with parentOrientation ({rng.choice([30, 90, 250])} deg, 0, 0)"])
        L.append(f"{name} = new Object {pos}{face}, with width {w}, with length {l}, with height {h}")
    job = dict(name=f"prog{idx}", src="\n".join(L) + "\n", seed=rng.randint(0, 10 ** 6), mode2D=False, user_preds=[],
               family="stack-long" if long else "stack", containers=dict(workspace=None, objects={}))
    if long:
        job.update(light=True, nscenes=1200, maxIterations=3000)
    else:
        job["checker"] = rng.choice([None, "basic0", "basic1", "basic1"])
    return job


def scen_tokens(r):
    t = [str(len(r["insts"]))] + [str(i) for i in r["insts"]]
    t += [str(len(r["objs"]))] + [str(i) for i in r["objs"]]
    t += [str(r["ego"]), str(len(r["flags"]))]
    for f in r["flags"]:
        t += [str(x) for x in f]
    return " ".join(t)


def check_programs(c, exe, jobs):
    nw = min(8, common.NCPU)
    chunks = [ch for ch in (jobs[i::nw] for i in range(nw)) if ch]
    results = []
    with cf.ThreadPoolExecutor(len(chunks)) as ex:
        for r in ex.map(lambda ch: common.run_impl("impl_c02.py", dict(kind="programs", programs=ch), timeout=7000), chunks):
            results += r["results"]
    by_name = {j["name"]: j for j in jobs}
    for r in sorted(results, key=lambda r: int(r["name"][4:]) if r["name"][4:].isdigit() else -1):
        job = by_name[r["name"]]
        if "crash" in r:
            c.violation("harness", "implementation driver crashed", dict(job=job, crash=r["crash"], tb=r.get("tb")), no_input=True)
            continue
        if "skip" in r:
            c.hist("programs:skip:" + r["skip"].split(":")[0])
            continue
        c.hist("programs:compiled")
        c.hist("programs:mode2D" if job["mode2D"] else "programs:mode3D")
        toks = scen_tokens(r)
        m_new, m_old = common.run_driver(exe, ["DEF " + toks, "DEF1 " + toks])
        impl_list = r["reqs"]
        for q in impl_list:
            c.hist("req:" + q.split()[0])
        nvis = sum(1 for q in impl_list if q[0] in "VN")
        if impl_list != m_new.split(";"):
            c.violation("defaults", "the requirement list built by generateDefaultRequirements differs from default_requirements of the exported flags",
                        dict(job=job, impl=impl_list, model=m_new.split(";"), matches_oneshot_model=(impl_list == m_old.split(";")),
                             flags=r["flags"], objs=r["objs"], ego=r["ego"]))
        c.hist("programs:checker:" + str(r.get("checker")) + (":blanket-kept" if r.get("blanket_in_checker") else ":blanket-ignored"))
        if "blanket_sorted_in" in r:
            c.hist("programs:weighted:blanket-" + ("still-run" if r["blanket_sorted_in"] else "dropped-at-end") + (":long" if job.get("light") else ""))
        if r["n_checker_reqs"] != len(impl_list) + r["n_user"]:
            c.violation("defaults", "the checker was not given defaultRequirements + userRequirements",
                        dict(job=job, n_checker=r["n_checker_reqs"], n_default=len(impl_list), n_user=r["n_user"]))
        accepted = 0
        rejected_before = 0
        c.hist("programs:wall_s", r.get("wall", 0))
        for sc in r["scenes"]:
            if sc.get("exhausted"):
                c.hist("scenes:exhausted")
                continue
            accepted += 1
            rejected_before += sc["iterations"] - 1
            c.count(n=sc["checks"])
            c.hist("scenes:accepted")
            c.hist("scenes:iterations>1" if sc["iterations"] > 1 else "scenes:first-try")
            c.hist("scenes:vis-checks", sc["vis_checks"])
            for k, v in (sc.get("indep") or {}).items():
                c.hist("indep:" + k, v)
            # certified overlaps: keep only those whose common-point certificate the extracted Coq checker accepts
            keep = []
            for b in sc["bad"]:
                if b["kind"] == "overlap-exact":
                    ok = common.run_driver(exe, [cert_cmd(b["cert"], b["A"], b["B"])])[0] == "1"
                    c.hist("indep:overlap-certificate-" + ("accepted" if ok else "rejected"))
                    if not ok:
                        continue
                    b = {k: v for k, v in b.items() if k not in ("A", "B", "cert")}
                keep.append(b)
            sc["bad"] = keep
            if sc["bad"]:
                kinds = sorted({b["kind"] for b in sc["bad"]})
                c.violation("scene-oracle", "an accepted scene violates a requirement when re-checked directly: " + ",".join(kinds),
                            dict(job=job, bad=sc["bad"], kinds=kinds, iterations=sc["iterations"], positions=sc["pos"],
                                 only_visibility=all(k in ("visible", "notvisible") for k in kinds),
                                 impl_reqs=impl_list))
        c.count((job["src"], job["seed"]), nontrivial=accepted > 0 and (rejected_before > 0 or nvis > 0))
        c.cov["traces_validated_against_impl"] += 1
        c.sample(dict(program=job["src"], reqs=impl_list, scenes=[{k: v for k, v in s.items() if k != "pos"} for s in r["scenes"]]), limit=5)


def main():
    c = Check(PID, "proof")
    c.cov["rule"] = ("(i) scripted histories: random requirement sets (1-8 requirements, optional/active flags, per-requirement "
                     "falsification rates, buffer sizes 1..100, tie-rich and wide-range clock durations) run through the real "
                     "WeightedAcceptanceChecker and the extracted model, compared after every sample; a history is non-trivial when "
                     "the cost order differed from the declaration order AND trailing optional requirements were dropped at least "
                     "once. (ii) generated programs (2-5 objects, random shapes/sizes/3D poses/containers/collision, occlusion and "
                     "visibility flags, user requirements, 2D and 3D): requirement list vs model, every accepted scene re-checked "
                     "directly; a program is non-trivial when a scene was accepted after at least one rejection or it has "
                     "visibility requirements")
    common.ensure_parser()
    if not c.proofs():
        c.finish()
    exe = common.build_ocaml(PID)
    quick = c.tier == "quick"
    rng = c.rng
    nh, ns, npg, ngeo = (150, 200, 36, 28) if quick else (2400, 200, 500, 300)
    ncam, nstack, nlong = (16, 10, 3) if quick else (200, 120, 12)
    hists = [gen_history(rng, i, ns) for i in range(nh)]
    jobs = []
    corpus_dir = os.path.join(common.VERIF, "corpus", PID)
    if os.path.isdir(corpus_dir):
        for f in sorted(os.listdir(corpus_dir)):
            if f.endswith(".json"):
                jobs.append(json.load(open(os.path.join(corpus_dir, f))))
    jobs += [gen_program(rng, i) if i % 3 else gen_occlusion_program(rng, i) for i in range(npg)]
    jobs += [gen_geometry_program(rng, npg + i) for i in range(ngeo)]
    jobs += [gen_camera_program(rng, npg + ngeo + i) for i in range(ncam)]
    jobs += [gen_stack_program(rng, npg + ngeo + ncam + i) for i in range(nstack)]
    jobs += [gen_stack_program(rng, npg + ngeo + ncam + nstack + i, long=True) for i in range(nlong)]
    for j in jobs[:npg + ngeo]:
        if "checker" not in j and rng.random() < 0.25:     # the other public sample checker on ordinary programs too
            j["checker"] = rng.choice(["basic0", "basic1"])
    for j in jobs:
        j.setdefault("nscenes", 3 if quick else 5)
        j.setdefault("maxIterations", 120 if quick else 400)
    if os.environ.get("VERIF_C02_NOHIST"):     # development aid: programs only
        hists = []
    if c.replay:
        body = json.load(open(c.replay))
        case = body.get("case", {})
        if "job" in case:
            jobs, hists = [case["job"]], []
        elif "history" in case:
            jobs, hists = [], [case["history"]]
    if hists:
        nw = 6
        parts = [p for p in (hists[i::nw] for i in range(nw)) if p]
        with cf.ThreadPoolExecutor(len(parts)) as ex:
            fetched = list(ex.map(lambda p: fetch_scripted(exe, p), parts))
        for p, (model, impl) in zip(parts, fetched):
            check_scripted(c, p, model, impl)
        c.cov["wall_scripted_s"] = round(time.time() - c.t0, 1)
    if jobs:
        check_programs(c, exe, jobs)
    c.assumptions += [
        "geometry predicates (intersects, containsObject, canSee) are oracles of the model; their exactness is C04/C17's subject "
        "(an independent separating-axis test is applied to box pairs in addition)",
        "surface_implies_volume (FCL surface collision implies the solids intersect) is a named hypothesis of blanket_implied",
        "the scripted clock uses dyadic times so that float sums are exact; float division can only reorder keys that are within 1e-9 "
        "relative of each other for non-power-of-two buffer sizes, and such steps end the comparison of that history",
        "extraction via ExtrOcamlBasic only; OCaml compiler; 100-line driver",
    ]
    c.finish()


if __name__ == "__main__":
    main()
