"""C15 — same program, options and seed give identical scenes and runs in every process.
Proof layer: coq/Properties/C15.v (model with adversarial container order, cost keys and RNG
consumption; specifier resolution with the dependency set of every specifier presented in a hash-seed
dependent order; private generators).  Correspondence (multi-process): every (program, seed) is run in
several FRESH interpreter processes (hosts) that differ in PYTHONHASHSEED and allocation pattern (object
addresses); each host imports Scenic once and forks one child per sub-variant (clock jitter = requirement
order of the WeightedAcceptanceChecker, one by one / generateBatch / fresh checker per scene / BasicChecker /
reversed order / a checker consuming the global generators, amount of randomness the requirement helper
consumes); the canonical dumps must be bit-identical, and the dependency tuple, the order in which specifier
resolution evaluated the user properties and the order of random draws must equal the extracted model's.
Round 3: REGION programs (harness/c15_regions.py: every region kind with its own sampler, through `new Object in/on R`,
`new Point in R`, `visible`) and a STATIC GUARD (harness/c15_static.py: `ast` scan of $VERIF_REPO/src/scenic for unseeded /
entropy-seeded generators and OS-entropy reads, violation kind `unseeded-rng`)."""
import concurrent.futures as cf
import json
import os
import sys

sys.path.insert(0, os.path.dirname(os.path.abspath(__file__)))
import common
import c15_regions
import c15_static
from common import Check

PID = "C15"


def hi(k):
    return 1 + (k + 1) / 100


def gen_program(rng, idx, geom=False):
    m = rng.randint(4, 9)
    L = ["from verif_c15_helpers import burn"]
    if geom:     # non-convex container: the containment check reaches trimesh.sample.volume_mesh (NumPy's global generator)
        L += [f"hollow = BoxRegion(dimensions=(10, 10, 4)).difference(BoxRegion(dimensions=({rng.randint(3, 5)}, {rng.randint(3, 5)}, 6)))",
              "workspace = Workspace(hollow)"]
    names = {}
    nodes = []          # model DAG: (is_random, children) in definition order
    label = []          # source name of each node
    for k in range(m):
        L.append(f"x{k} = Range(0, {hi(k)})")
        names[f"{0.0!r}:{float(hi(k))!r}"] = f"x{k}"
        nodes.append((1, []))
        label.append(f"x{k}")
    for j in range(rng.randint(0, 2)):
        a, b = rng.sample(range(m), 2)
        L.append(f"d{j} = x{a} + x{b}")
        nodes.append((0, [a, b]))
        label.append(f"d{j}")
    nval = len(nodes)
    has_beh = rng.random() < 0.5
    if has_beh:
        L += ["behavior B():", "    while True:", f"        take x{rng.randrange(m)} + Range(0, 1)", "        wait"]
    insts = []
    nobj = rng.randint(1, 2) if geom else rng.randint(1, 3)
    for o in range(nobj):
        spec = "in workspace, with requireVisible False" if geom else "at (Range(-6, 6), Range(-6, 6))"
        child = []
        if rng.random() < 0.4:
            c = rng.randrange(nval)
            spec += f", with foo {label[c]}"
            child = [c]
        if o == 0 and has_beh:
            spec += ", with behavior B()"
        L.append(("ego = " if o == 0 else f"o{o} = ") + "new Object " + spec)
        nodes.append((0, child))
        label.append("ego" if o == 0 else f"o{o}")
        insts.append(len(nodes) - 1)
    ego = insts[0]
    params = []
    for j in range(rng.randint(0, 2)):
        if rng.random() < 0.5:
            c = rng.randrange(nval)
            L.append(f"param p{j} = {label[c]}")
            params.append(c)
        else:
            L.append(f"param p{j} = Range(0, 1)")
    bindings = []
    for j in range(rng.randint(1, 4)):
        ks = rng.sample(range(nval), rng.randint(1, min(3, nval)))
        terms = [label[c] for c in ks]
        if rng.random() < 0.5:
            terms[0] = f"burn({terms[0]})"
        expr = " + ".join(terms)
        n_terms = sum(2 if label[c].startswith("d") else 1 for c in ks)
        kind = rng.choice(["require", "require", "soft", "terminate", "record"])
        if kind == "require":
            L.append(f"require {expr} > {round(0.5 * n_terms - 0.35, 2)}")
        elif kind == "soft":
            L.append(f"require[{rng.choice([0.3, 0.6, 0.9])}] {expr} < {round(0.5 * n_terms + 0.3, 2)}")
        elif kind == "terminate":
            L.append(f"terminate when ({expr}) > 100")
        else:
            L.append(f"record initial ({expr}) as rec{j}")
        bindings.append(ks + [ego])
    beh = list(range(len(nodes))) if has_beh else []
    model = dict(nodes=nodes, insts=insts, params=params, bindings=bindings, beh=beh, nleaves=m, labels=label)
    return dict(name=f"prog{idx}", kind="geom" if geom else "flat", src="\n".join(L) + "\n", names=names, model=model, has_beh=has_beh)


RESERVED = set("""position width length height heading yaw pitch roll shape color speed velocity behavior name foo
                  in at is as or if not and for def del try new ego of by to from with until do take wait""".split())


def fresh_name(rng, used):
    while True:
        n = "".join(rng.choice("abcdefghijklmnopqrstuvwxyz") for _ in range(rng.randint(1, 4))) + rng.choice(["", "", "_a", "Z", "9"])
        n = rng.choice("pqkuvz") + n
        if n not in used and n not in RESERVED:
            used.add(n)
            return n


def gen_class_program(rng, idx):
    """A user class whose property defaults form a random dependency DAG (`total: self.alpha + self.beta`), written in
    random order (dependents before or after what they depend on), optionally a subclass overriding some of them and
    `with` specifiers overriding others: the order in which specifier resolution evaluates the properties (DFS over the
    sorted requiredProperties of every specifier) fixes the order in which the independent random properties draw."""
    L = ["from verif_c15_helpers import burn"]
    names, nodes, label = {}, [], []
    nb = [0]

    def new_range(lab):
        k = nb[0]
        nb[0] += 1
        names[f"{0.0!r}:{float(hi(k))!r}"] = lab
        nodes.append((1, []))
        label.append(lab)
        return f"Range(0, {hi(k)})", len(nodes) - 1

    g = rng.randint(1, 3)
    gl = []
    for k in range(g):
        e, n = new_range(f"x{k}")
        L.append(f"x{k} = {e}")
        gl.append(n)
    used = set()
    nleaf, nder = rng.randint(2, 5), rng.randint(1, 4)
    props = [fresh_name(rng, used) for _ in range(nleaf + nder)]     # topological rank = index
    defs = {}          # prop -> ("leaf", expr, node) | ("der", deps)

    def derived(q_rank):
        return rng.sample(props[:q_rank], min(q_rank, rng.choice([2, 2, 3, 3, 4])))

    for r, q in enumerate(props):
        if r < nleaf:
            defs[q] = ("leaf",) + new_range(q)
        else:
            defs[q] = ("der", derived(r))

    def body(q, d):
        return f"    {q}: " + (d[1] if d[0] == "leaf" else " + ".join(f"self.{a}" for a in d[1]))
    order = props[:]
    rng.shuffle(order)
    L.append("class Thing:")
    L += [body(q, defs[q]) for q in order]
    cls, class_order = "Thing", order
    if rng.random() < 0.4:       # subclass: its definitions come first in the class's default list
        over = rng.sample(props, rng.randint(1, 2))
        sub_order = []
        L.append("class Sub(Thing):")
        for q in over:
            r = props.index(q)
            if r >= 2 and rng.random() < 0.6:
                defs[q] = ("der", derived(r))
            else:
                defs[q] = ("leaf",) + new_range(q)
            L.append(body(q, defs[q]))
            sub_order.append(q)
        cls, class_order = "Sub", sub_order + [q for q in order if q not in sub_order]
    withs = []
    spec = "at (Range(-6, 6), Range(-6, 6))"
    for q in rng.sample(props, rng.randint(0, 2)):
        if rng.random() < 0.7:
            defs[q] = ("leaf",) + new_range(q)
            spec += f", with {q} {defs[q][1]}"
        else:
            c = rng.choice(gl)
            defs[q] = ("alias", None, c)
            spec += f", with {q} {label[c]}"
        withs.append(q)
    # value nodes of the properties
    pnode = {}
    for q in props:
        d = defs[q]
        if d[0] in ("leaf", "alias"):
            pnode[q] = d[2]
    for q in props:           # ranks ascending: dependencies exist already
        d = defs[q]
        if d[0] == "der":
            nodes.append((0, [pnode[a] for a in d[1]]))
            label.append(q)
            pnode[q] = len(nodes) - 1
    for q in props:           # labels of overridden leaves that are no longer used stay in the DAG, unreferenced
        pass
    L.append(f"ego = new {cls} {spec}")
    nodes.append((0, None))            # children filled in from the model's resolution order
    label.append("ego")
    ego = len(nodes) - 1
    insts = [ego]
    if rng.random() < 0.5:
        L.append("o1 = new Object at (Range(-6, 6), Range(-6, 6))")
        nodes.append((0, []))
        label.append("o1")
        insts.append(len(nodes) - 1)
    ids = {q: i for i, q in enumerate(sorted(props))}        # nat order = Python's string order
    specs = [([ids[q]], []) for q in withs]
    specs += [([ids[q]], sorted(ids[a] for a in set(defs[q][1])) if defs[q][0] == "der" else []) for q in class_order if q not in withs]
    weight = {}
    for q in props:
        weight[q] = sum(weight[a] for a in defs[q][1]) if defs[q][0] == "der" else 1
    params, bindings = [], []
    for j in range(rng.randint(0, 1)):
        L.append(f"param p{j} = Range(0, 1)")
    for j in range(rng.randint(1, 3)):
        terms, bind, n_terms = [], [], 0
        for _ in range(rng.randint(1, 3)):
            if rng.random() < 0.6:
                q = rng.choice(props)
                terms.append(f"ego.{q}")
                b = ego
                n_terms += weight[q] - 1
            else:
                c = rng.choice(gl)
                terms.append(label[c])
                b = c
            if b not in bind:
                bind.append(b)
            n_terms += 1
        if rng.random() < 0.5:
            terms[0] = f"burn({terms[0]})"
        expr = " + ".join(terms)
        kind = rng.choice(["require", "require", "soft", "record"])
        if kind == "require":
            L.append(f"require {expr} < {round(n_terms * rng.choice([0.5, 0.6, 0.75]), 2)}")
        elif kind == "soft":
            L.append(f"require[{rng.choice([0.3, 0.6, 0.9])}] {expr} > {round(0.2 * n_terms, 2)}")
        else:
            L.append(f"record initial ({expr}) as rec{j}")
        if ego not in bind:
            bind.append(ego)
        bindings.append(bind)
    multi = sum(1 for q in props if defs[q][0] == "der" and len(set(defs[q][1])) >= 2)
    model = dict(nodes=nodes, insts=insts, params=params, bindings=bindings, beh=[], labels=label,
                 resolve=dict(obj=ego, specs=specs, pnode={str(ids[q]): pnode[q] for q in props}, pname={str(ids[q]): q for q in props}))
    return dict(name=f"prog{idx}", kind="class", src="\n".join(L) + "\n", names=names, model=model, has_beh=False,
                uprops=props, multi=multi)


def res_cmd(rs):
    t = ["RES", str(len(rs["specs"]))]
    for ps, rq in rs["specs"]:
        t += [str(len(ps))] + [str(x) for x in ps] + [str(len(rq))] + [str(x) for x in rq]
    return " ".join(t)


def model_cmd(md):
    t = ["ORD", str(len(md["nodes"]))]
    for r, ch in md["nodes"]:
        t += [str(r), str(len(ch))] + [str(c) for c in ch]
    for key in ("insts", "params"):
        t += [str(len(md[key]))] + [str(c) for c in md[key]]
    t.append(str(len(md["bindings"])))
    for b in md["bindings"]:
        t += [str(len(b))] + [str(c) for c in b]
    t += [str(len(md["beh"]))] + [str(c) for c in md["beh"]]
    return " ".join(t)


def f2_witness():
    """Fixed first case: the program on which finding F2 was reproduced (six values referenced only from requirements)."""
    m = 6
    L = [f"x{k} = Range(0, {hi(k)})" for k in range(m)]
    L += ["ego = new Object at (Range(-5, 5), Range(-5, 5))", "require x0 + x1 + x2 < 2.5", "require x3 + x4 > 0.3",
          "require x5 > 0.1", "param p = Range(0, 1)"]
    names = {f"{0.0!r}:{float(hi(k))!r}": f"x{k}" for k in range(m)}
    nodes = [(1, []) for _ in range(m)] + [(0, [])]
    model = dict(nodes=nodes, insts=[m], params=[], bindings=[[0, 1, 2, m], [3, 4, m], [5, m]], beh=[], nleaves=m,
                 labels=[f"x{k}" for k in range(m)] + ["ego"])
    return dict(name="prog-f2", kind="flat", src="\n".join(L) + "\n", names=names, model=model, has_beh=False)


def spec_witness():
    """Fixed second case: a property default that needs two independently random properties defined after it."""
    L = ["class Thing:", "    total: self.beta + self.alpha + self.gamma", f"    gamma: Range(0, {hi(0)})", f"    beta: Range(0, {hi(1)})",
         f"    alpha: Range(0, {hi(2)})", "ego = new Thing at (Range(-5, 5), Range(-5, 5))", "require ego.total > 0.4"]
    names = {f"{0.0!r}:{float(hi(k))!r}": n for k, n in enumerate(["gamma", "beta", "alpha"])}
    nodes = [(1, []), (1, []), (1, []), (0, [1, 2, 0]), (0, None)]
    rs = dict(obj=4, specs=[([3], [0, 1, 2]), ([2], []), ([1], []), ([0], [])], pnode={"0": 2, "1": 1, "2": 0, "3": 3},
              pname={"0": "alpha", "1": "beta", "2": "gamma", "3": "total"})
    model = dict(nodes=nodes, insts=[4], params=[], bindings=[[4]], beh=[], labels=["gamma", "beta", "alpha", "total", "ego"], resolve=rs)
    return dict(name="prog-spec", kind="class", src="\n".join(L) + "\n", names=names, model=model, has_beh=False,
                uprops=["total", "gamma", "beta", "alpha"], multi=1)


# sub-variants run as forked children of a host: how scenes are requested, clock jitter (0 = the real clock), how much
# burn() consumes per call while a scene is generated, whether the checker itself consumes the global generators
SUBS = [
    dict(mode="sequential", jitter=0, burn=1, noisy=0, full_log=True),
    dict(mode="sequential", jitter=11, burn=0, noisy=0, full_log=True),
    dict(mode="batch", jitter=12, burn=1, noisy=0),
    dict(mode="sequential", jitter=13, burn=1, noisy=3),
    dict(mode="sequential", jitter=14, burn=2, noisy=0),
    dict(mode="fresh-checker", jitter=15, burn=1, noisy=0),
    dict(mode="basic", jitter=0, burn=2, noisy=0),
    dict(mode="reverse", jitter=0, burn=0, noisy=0),
    dict(mode="sequential", jitter=16, burn=1, noisy=0),
    dict(mode="batch", jitter=17, burn=0, noisy=2),
    dict(mode="fresh-checker", jitter=18, burn=0, noisy=1),
    dict(mode="sequential", jitter=19, burn=3, noisy=0),
]
HASHSEEDS = ["0", "1", "12345", "4242424242", "77", "31337", "2", "3", "99", "1000003", "65537", "424242", "7", "123456789", "555",
             "8191", "271828", "314159", "42", "1729", "6", "2147483647", "4294967295", "1001"]


def first_diff(a, b, path=""):
    if type(a) != type(b):
        return path or "<root>"
    if isinstance(a, dict):
        for k in sorted(set(a) | set(b)):
            if k not in a or k not in b:
                return f"{path}.{k}"
            d = first_diff(a[k], b[k], f"{path}.{k}")
            if d:
                return d
        return None
    if isinstance(a, list):
        if len(a) != len(b):
            return f"{path}.len"
        for i, (x, y) in enumerate(zip(a, b)):
            d = first_diff(x, y, f"{path}[{i}]")
            if d:
                return d
        return None
    return None if a == b else (path or "<root>")


def named_first_iteration(log, names):
    out = []
    for e in log or []:
        if e.startswith("uniform("):
            lo, hi_ = e[8:-1].split(",")
            key = f"{float.fromhex(lo)!r}:{float.fromhex(hi_)!r}"
            if key in names:
                if names[key] in out:
                    break
                out.append(names[key])
    return out


def main():
    c = Check(PID, "proof")
    c.cov["rule"] = ("generated programs of three kinds: (flat) 4-9 named random values referenced from objects, params, hard/soft requirements, "
                     "terminate/record conditions and behaviours (some only from requirements), 1-3 colliding objects; (class) a user class whose "
                     "property defaults form a random dependency DAG over independently random properties, written in random order, with "
                     "subclass and `with` overrides; (geom) objects in a non-convex mesh workspace whose containment check draws from NumPy's "
                     "global generator; requirement helper burn() consumes the global RNG while checking. Each (program, seed) runs in "
                     "3 (quick) / 8 (thorough) fresh interpreters with different PYTHONHASHSEED and allocation pattern, each forking 4 / 3 "
                     "sub-variant children (clock jitter, sequential / generateBatch / fresh checker / BasicChecker / reversed / RNG-consuming "
                     "checker, burn amount 0-3), 6 scenes each + a DummySimulator run; a case is non-trivial when at least one scene needed "
                     "more than one iteration and (two or more random values are referenced only from requirements, or a property default "
                     "needs two or more properties, or the container is non-convex); (region) 3 region kinds per program dealt "
                     "round-robin from " + str(len(c15_regions.KIND_NAMES)) + " kinds (voxel box/sphere/hollow, mesh box/sphere/hollow/custom incl. rotated, "
                     "off-origin and random-parameter ones, mesh surface, polyline, path, point set, grid, polygon, circle, sector, rectangle, "
                     "view / visible / not visible regions, intersections / differences / unions of flat and of volume regions, workspace), "
                     "1-2 instances per region (`new Point in`, `new Object in`, `new Object on`, `new OrientedPoint on`; Point positions and "
                     "headings observed through params) + a requirement rejecting 30-60 % of the candidates; non-trivial when the 6 scenes "
                     "of a run are pairwise different (positions really sampled). Static guard: every .py file of src/scenic is scanned with "
                     "`ast` for generator constructions / re-seedings without a seed, with seed None or with a clock/pid-derived seed, and for "
                     "os.urandom / SystemRandom / secrets / uuid1 / uuid4 (allow-list keyed by file, enclosing function and call text)")
    import time
    timing = c.cov.setdefault("timing_s", {})
    t0 = time.time()
    common.ensure_parser()
    if not c.proofs():
        c.finish()
    exe = common.build_ocaml(PID)
    timing["proofs+extraction"] = round(time.time() - t0, 1)
    quick = c.tier == "quick"
    rng = c.rng
    # ---- static guard (no scenic import; the working tree under common.REPO)
    if not os.environ.get("VERIF_C15_NOSTATIC"):      # development aid: verify the dynamic route on its own
        t1 = time.time()
        nbad, ngood, _ = c15_static.selftest()
        if (nbad, ngood) != (16, 0):
            c.violation("harness", "the static guard's self-test no longer flags exactly the 16 planted entropy uses",
                        dict(flagged_bad=nbad, flagged_good=ngood), no_input=True)
        sviol, sallowed, sseeded, nfiles, serrors = c15_static.scan_tree(common.REPO)
        c.hist("static:files-scanned", nfiles)
        c.hist("static:seeded-private-generators", len(sseeded))
        c.hist("static:allow-listed-call-sites", len(sallowed))
        c.cov["static_guard"] = dict(files=nfiles, seeded_generators=sseeded, allowed=[f"{v['file']}:{v['function']}:{v['call']}" for v in sallowed],
                                     allow_list={"|".join(k): r for k, r in c15_static.ALLOW.items()}, skipped=c15_static.SKIP, unparsable=serrors)
        if nfiles < 20:
            c.violation("harness", "static guard found fewer than 20 source files under src/scenic", dict(repo=common.REPO, files=nfiles), no_input=True)
        for e in serrors:
            c.violation("harness", "static guard could not parse a source file", dict(file=e), no_input=True)
        for v in sviol:
            c.count(("static", v["file"], v["function"], v["call"]), nontrivial=True)
            c.violation("unseeded-rng", f"src/scenic/{v['file']}:{v['line']} in {v['function']}: `{v['source']}` -- {v['rule']}: scenes that reach "
                        "this code are not a function of (program, options, seed)", dict(static=True, site=f"src/scenic/{v['file']}:{v['line']}", **v))
        timing["static-guard"] = round(time.time() - t1, 1)
        if c.replay and json.load(open(c.replay)).get("case", {}).get("static"):
            c.finish()
    nprog, nseeds, nhosts, npersub, nshards = (18, 2, 3, 4, 5) if quick else (72, 2, 8, 3, 8)
    nprog = int(os.environ.get("VERIF_C15_NPROG", nprog))   # development aid (self-tests on a loaded machine)
    nregion = int(os.environ.get("VERIF_C15_NREGION", 8 if quick else 24))
    workers = min(int(os.environ.get("VERIF_WORKERS", 16)), common.NCPU)
    progs = [f2_witness(), spec_witness()][:nprog]
    for i in range(nprog - len(progs)):
        progs.append(gen_class_program(rng, i) if i % 5 in (1, 3) else gen_program(rng, i, geom=(i % 5 == 4)))
    for i, ks in enumerate(c15_regions.deal_kinds(rng, nregion)):
        progs.append(c15_regions.gen_region_program(rng, i, ks, hi(0)))
    cases = [(p, rng.randint(0, 10 ** 6)) for p in progs for _ in range(nseeds)]
    if c.replay:
        body = json.load(open(c.replay))
        case = body.get("case", {})
        if "program" in case:
            cases = [(case["program"], case["seed"])]
            progs = [case["program"]]
    nshards = max(1, min(nshards, len(cases)))

    hosts = []         # (shard, host index, hashseed, variant, [case index])
    for s in range(nshards):
        idx = list(range(s, len(cases), nshards))
        for h in range(nhosts):
            hosts.append((s, h, HASHSEEDS[(s * nhosts + h) % len(HASHSEEDS)], s * nhosts + h, idx))

    def subs_of(h):
        out = []
        for t in range(npersub):
            k = (h * npersub + t) % len(SUBS)
            out.append(dict(SUBS[k], id=k, alloc=h * npersub + t))
        return out

    def run(host):
        s, h, hs, variant, idx = host
        tasks = []
        for ci in idx:
            p, seed = cases[ci]
            tasks.append(dict(name=p["name"], src=p["src"], names=p["names"], uprops=p.get("uprops", []), seed=seed, nscenes=6,
                              simulate=True, steps=4, maxIterations=400 if p.get("kind") == "region" else 3000, subs=subs_of(h)))
        try:
            th = time.time()
            r = common.run_impl("impl_c15.py", dict(tasks=tasks), timeout=900 if quick else 2400, hashseed=hs,
                                extra_env={"VERIF_VARIANT": str(variant)})
            host_wall.append(round(time.time() - th, 1))
            host_cpu.append(round(sum(x.get("t", 0) for row in r["results"] for x in row), 1))
            return r["results"]
        except Exception as e:
            return [[dict(crash=str(e)[-1500:]) for _ in subs_of(h)] for _ in idx]

    host_wall, host_cpu = [], []
    t0 = time.time()
    with cf.ThreadPoolExecutor(workers) as ex:
        host_results = list(ex.map(run, hosts))
    timing.update(hosts_total=round(time.time() - t0, 1), host_wall=sorted(host_wall), host_time_in_runs=sorted(host_cpu), workers=workers)
    c.hist("fresh-interpreters", len(hosts))

    # ---- model predictions: specifier resolution order, dependency tuple, order of draws
    pred = {}
    cls = [p for p in progs if p["model"].get("resolve")]
    for p, o in zip(cls, common.run_driver(exe, [res_cmd(p["model"]["resolve"]) for p in cls])):
        rs = p["model"]["resolve"]
        order = [] if o.strip() == "-" else [x.strip() for x in o.strip().split(",")]
        p["model"]["nodes"][rs["obj"]] = (0, [rs["pnode"][x] for x in order])
        pred[p["name"]] = dict(proporder=[rs["pname"][x] for x in order])
    outs = common.run_driver(exe, [model_cmd(p["model"]) for p in progs])
    for p, o in zip(progs, outs):
        deps_s, log_s = [x.strip() for x in o.split("|")]
        md = p["model"]
        deps = [] if deps_s == "-" else [int(x) for x in deps_s.split(",")]
        log = [] if log_s == "-" else [int(x) for x in log_s.split(",")]
        pred.setdefault(p["name"], {}).update(deps=[md["labels"][i] for i in deps if md["nodes"][i][0]], draws=[md["labels"][i] for i in log])

    groups = {}
    for host, hres in zip(hosts, host_results):
        s, h, hs, variant, idx = host
        for ci, row in zip(idx, hres):
            for sub, r in zip(subs_of(h), row):
                groups.setdefault(ci, []).append((dict(host=variant, hashseed=hs, **sub), r))
    for ci in sorted(groups):
        grp = groups[ci]
        p, seed = cases[ci]
        pname = p["name"]
        case = dict(program=p, seed=seed)
        crashed = [(d, r["crash"]) for d, r in grp if "crash" in r]
        if crashed:
            c.violation("harness", "implementation driver crashed", dict(case, crashes=crashed[:3]), no_input=True)
            continue
        base_d, base = grp[0]
        its = [s.get("iterations") for s in base["scenes"]]
        md = p["model"]
        req_only = set()
        for b in md["bindings"]:
            req_only.update(x for x in b if md["nodes"][x][0])
        for ch in [n[1] for n in md["nodes"]] + [md["params"]]:
            req_only.difference_update(ch)
        rejected = any(i and i > 1 for i in its)
        if p["kind"] == "region":
            distinct = len({json.dumps(s["scene"], sort_keys=True) for s in base["scenes"]})
            c.count((p["src"], seed), nontrivial=(distinct == len(base["scenes"]) >= 2))
            for k in p.get("region_kinds", []):
                c.hist("region:" + k)
        else:
            c.count((p["src"], seed), nontrivial=(rejected and (len(req_only) >= 2 or p.get("multi", 0) >= 1 or p["kind"] == "geom")))
        c.cov["evaluations"] += len(grp) - 1
        c.cov["traces_validated_against_impl"] += len(grp)
        c.hist("kind:" + p["kind"])
        c.hist("programs:behaviour" if p["has_beh"] else "programs:static")
        c.hist("req-only-values:" + str(min(len(req_only), 4)))
        if p["kind"] == "class":
            c.hist("class:multi-dependency-defaults:" + str(min(p.get("multi", 0), 3)))
        c.hist("iterations-total:" + ("1" if sum(i or 0 for i in its) == len(its) else ">1"))
        if any(r.get("consumed", {}).get("consuming_rejected") for _, r in grp):
            c.hist("cases-where-a-check-consumed-global-rng-on-a-rejected-candidate")
        if any(r.get("consumed", {}).get("consuming_rejected") for d, r in grp if not d["noisy"] and not d["burn"]):
            c.hist("cases-where-scenic-itself-consumed-global-rng-on-a-rejected-candidate")
        if base.get("rejection"):
            c.hist("rejection-exhausted")
        # (1) model vs implementation: specifier resolution order, dependency tuple and draw order
        mp = pred[pname]
        if "proporder" in mp and base["prop_orders"][0] != mp["proporder"]:
            c.violation("model-proporder", "the order in which specifier resolution evaluated the user properties of the object differs from the "
                        "model's DFS over sorted requiredProperties", dict(case, impl=base["prop_orders"][0], model=mp["proporder"], variant=base_d))
        if base["deps_named"] != mp["deps"]:
            c.violation("model-deps", "the order of the named random values in Scenario.dependencies differs from the model's dependency tuple",
                        dict(case, impl=base["deps_named"], model=mp["deps"], variant=base_d))
        fi = named_first_iteration(base["scenes"][0].get("log") if base["scenes"] else None, p["names"])
        if base["scenes"] and fi != mp["draws"]:
            c.violation("model-draws", "the order in which the named random values are drawn differs from the model's sampleAll",
                        dict(case, impl=fi, model=mp["draws"], variant=base_d))
        # (2) all processes agree
        for d, r in grp[1:]:
            mode = d["mode"]
            what = None
            if r["compile_log"] != base["compile_log"] or r["compile_rng"] != base["compile_rng"]:
                what = "random calls made while compiling differ"
            elif r["prop_orders"] != base["prop_orders"]:
                what = "the order in which the properties of an object were resolved differs between processes"
            elif r["deps_named"] != base["deps_named"]:
                what = "the order of Scenario.dependencies differs between processes"
            elif r.get("rejection") != base.get("rejection") or len(r["scenes"]) != len(base["scenes"]):
                what = "one process exhausted its iterations, another did not"
            else:
                for k, (a, b) in enumerate(zip(base["scenes"], r["scenes"])):
                    dd = first_diff(a["scene"], b["scene"], f"scene[{k}]")
                    if dd:
                        what = f"scenes differ at {dd}"
                        break
                    if mode != "batch":
                        for key in ("iterations", "log_sha", "rng_after"):
                            if a[key] != b[key]:
                                what = f"scene[{k}].{key} differs ({'RNG call sequence' if key == 'log_sha' else key})"
                                break
                    if what:
                        break
                if not what and mode == "batch" and not base.get("rejection"):
                    if r.get("batch_iterations") != sum(s["iterations"] for s in base["scenes"]):
                        what = "generateBatch used a different total number of iterations"
                    elif base["scenes"] and r.get("batch_rng_after") != base["scenes"][-1]["rng_after"]:
                        what = "the RNG state after generateBatch differs from the state after generating the scenes one by one"
                if not what and mode != "batch":
                    dd = first_diff(base.get("sim"), r.get("sim"), "sim")
                    if dd:
                        what = f"simulation results differ at {dd}"
            c.hist(f"mode:{mode}")
            if what:
                c.violation("nondeterminism", "two processes with the same program and seed disagree: " + what,
                            dict(case, variant_a=dict(base_d, deps=base["deps_named"], prop_orders=base["prop_orders"], checker_order=base.get("checker_order")),
                                 variant_b=dict(d, deps=r["deps_named"], prop_orders=r["prop_orders"], checker_order=r.get("checker_order")),
                                 what=what, deps_order_differs=(r["deps_named"] != base["deps_named"]),
                                 same_interpreter=(d["host"] == base_d["host"]),
                                 differs_in=sorted(k for k in ("hashseed", "mode", "jitter", "burn", "noisy") if d[k] != base_d[k])))
        orders = {json.dumps(r.get("checker_order")) for _, r in grp}
        c.hist("distinct-checker-orders:" + str(min(len(orders), 4)))
        c.sample(dict(program=p["src"], seed=seed, deps=base["deps_named"], iterations=its, prop_order=base["prop_orders"][:1],
                      checker_orders=sorted(orders)[:3]), limit=5)
    c.assumptions += [
        "the OS allocator and hash function are abstracted as 'any permutation of the container'; NumPy's generator is covered only "
        "by the state fingerprint after every scene",
        "the RNG is an abstract stream with a cursor; save/restore is the model's [restore]; a private generator is a separate record",
        "hash-seed / address-layout variation actually exercised is bounded by the 3 (quick) / 8 (thorough) fresh interpreters per case; "
        "the other sub-variants are forked children of those interpreters (fork after importing scenic, before compiling)",
        "specifier resolution is modelled without modifying specifiers; the model is compared on user-defined properties only",
        "extraction via ExtrOcamlBasic only; OCaml compiler; 50-line driver",
        "static guard: syntactic (ast) over src/scenic/**/*.py; names are resolved through the file's own imports only, so a generator "
        "obtained through an alias defined in another module, getattr/importlib, or a C extension is not seen statically (the region / "
        "geom / flat programs cover those dynamically where the code is reached)",
    ]
    c.finish()


if __name__ == "__main__":
    main()
