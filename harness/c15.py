"""C15 — same program, options and seed give identical scenes and runs in every process.
Proof layer: coq/Properties/C15.v (model with adversarial container order, cost keys and RNG
consumption).  Correspondence (multi-process): every (program, seed) is run in N fresh interpreter
processes that differ in PYTHONHASHSEED, allocation pattern (object addresses), injected clock
jitter (requirement order of the WeightedAcceptanceChecker) and in how scenes are requested
(one by one, generateBatch, fresh checker per scene); the canonical dumps must be bit-identical,
and the dependency tuple / order of random draws must equal the extracted model's prediction."""
import concurrent.futures as cf
import json
import os
import sys

sys.path.insert(0, os.path.dirname(os.path.abspath(__file__)))
import common
from common import Check

PID = "C15"


def hi(k):
    return 1 + (k + 1) / 100


def gen_program(rng, idx):
    m = rng.randint(4, 9)
    L = ["from verif_c15_helpers import burn"]
    names = {}
    nodes = []          # model DAG: (is_random, children) in definition order
    label = []          # source name of each node
    for k in range(m):
        L.append(f"x{k} = Range(0, {hi(k)})")
        names[f"{0.0!r}:{float(hi(k))!r}"] = f"x{k}"
        nodes.append((1, []))
        label.append(f"x{k}")
    for j in range(rng.randint(0, 2)):
        a, b = rng.sample(range(m), 2)
        L.append(f"d{j} = x{a} + x{b}")
        nodes.append((0, [a, b]))
        label.append(f"d{j}")
    nval = len(nodes)
    has_beh = rng.random() < 0.5
    if has_beh:
        L += ["behavior B():", "    while True:", f"        take x{rng.randrange(m)} + Range(0, 1)", "        wait"]
    insts = []
    nobj = rng.randint(1, 3)
    for o in range(nobj):
        spec = "at (Range(-6, 6), Range(-6, 6))"
        child = []
        if rng.random() < 0.4:
            c = rng.randrange(nval)
            spec += f", with foo {label[c]}"
            child = [c]
        if o == 0 and has_beh:
            spec += ", with behavior B()"
        L.append(("ego = " if o == 0 else f"o{o} = ") + "new Object " + spec)
        nodes.append((0, child))
        label.append("ego" if o == 0 else f"o{o}")
        insts.append(len(nodes) - 1)
    ego = insts[0]
    params = []
    for j in range(rng.randint(0, 2)):
        if rng.random() < 0.5:
            c = rng.randrange(nval)
            L.append(f"param p{j} = {label[c]}")
            params.append(c)
        else:
            L.append(f"param p{j} = Range(0, 1)")
    bindings = []
    for j in range(rng.randint(1, 4)):
        ks = rng.sample(range(nval), rng.randint(1, min(3, nval)))
        terms = [label[c] for c in ks]
        if rng.random() < 0.5:
            terms[0] = f"burn({terms[0]})"
        expr = " + ".join(terms)
        n_terms = sum(2 if label[c].startswith("d") else 1 for c in ks)
        kind = rng.choice(["require", "require", "soft", "terminate", "record"])
        if kind == "require":
            L.append(f"require {expr} > {round(0.5 * n_terms - 0.35, 2)}")
        elif kind == "soft":
            L.append(f"require[{rng.choice([0.3, 0.6, 0.9])}] {expr} < {round(0.5 * n_terms + 0.3, 2)}")
        elif kind == "terminate":
            L.append(f"terminate when ({expr}) > 100")
        else:
            L.append(f"record initial ({expr}) as rec{j}")
        bindings.append(ks + [ego])
    beh = list(range(len(nodes))) if has_beh else []
    model = dict(nodes=nodes, insts=insts, params=params, bindings=bindings, beh=beh, nleaves=m, labels=label)
    return dict(name=f"prog{idx}", src="\n".join(L) + "\n", names=names, model=model, has_beh=has_beh)


def model_cmd(md):
    t = ["ORD", str(len(md["nodes"]))]
    for r, ch in md["nodes"]:
        t += [str(r), str(len(ch))] + [str(c) for c in ch]
    for key in ("insts", "params"):
        t += [str(len(md[key]))] + [str(c) for c in md[key]]
    t.append(str(len(md["bindings"])))
    for b in md["bindings"]:
        t += [str(len(b))] + [str(c) for c in b]
    t += [str(len(md["beh"]))] + [str(c) for c in md["beh"]]
    return " ".join(t)


def f2_witness():
    """Fixed first case: the program on which finding F2 was reproduced (six values referenced only from requirements)."""
    m = 6
    L = [f"x{k} = Range(0, {hi(k)})" for k in range(m)]
    L += ["ego = new Object at (Range(-5, 5), Range(-5, 5))", "require x0 + x1 + x2 < 2.5", "require x3 + x4 > 0.3",
          "require x5 > 0.1", "param p = Range(0, 1)"]
    names = {f"{0.0!r}:{float(hi(k))!r}": f"x{k}" for k in range(m)}
    nodes = [(1, []) for _ in range(m)] + [(0, [])]
    model = dict(nodes=nodes, insts=[m], params=[], bindings=[[0, 1, 2, m], [3, 4, m], [5, m]], beh=[], nleaves=m,
                 labels=[f"x{k}" for k in range(m)] + ["ego"])
    return dict(name="prog-f2", src="\n".join(L) + "\n", names=names, model=model, has_beh=False)


VARIANTS = [  # (variant id, PYTHONHASHSEED, mode)
    (0, "0", "sequential"), (1, "1", "sequential"), (2, "12345", "sequential"),
    (3, "4242424242", "sequential"), (4, "77", "batch"), (5, "31337", "fresh-checker")]


def first_diff(a, b, path=""):
    if type(a) != type(b):
        return path or "<root>"
    if isinstance(a, dict):
        for k in sorted(set(a) | set(b)):
            if k not in a or k not in b:
                return f"{path}.{k}"
            d = first_diff(a[k], b[k], f"{path}.{k}")
            if d:
                return d
        return None
    if isinstance(a, list):
        if len(a) != len(b):
            return f"{path}.len"
        for i, (x, y) in enumerate(zip(a, b)):
            d = first_diff(x, y, f"{path}[{i}]")
            if d:
                return d
        return None
    return None if a == b else (path or "<root>")


def named_first_iteration(log, names):
    out = []
    for e in log or []:
        if e.startswith("uniform("):
            lo, hi_ = e[8:-1].split(",")
            key = f"{float.fromhex(lo)!r}:{float.fromhex(hi_)!r}"
            if key in names:
                if names[key] in out:
                    break
                out.append(names[key])
    return out


def main():
    c = Check(PID, "proof")
    c.cov["rule"] = ("generated programs with 4-9 named random values referenced from objects, params, hard/soft requirements, "
                     "terminate/record conditions and behaviours (some only from requirements), 1-3 colliding objects and a "
                     "requirement helper that consumes the global RNG while checking; each (program, seed) runs in 6 fresh processes "
                     "(different PYTHONHASHSEED, allocation pattern, clock jitter; sequential / generateBatch / fresh checker), 6 scenes "
                     "each + a DummySimulator run; a case is non-trivial when at least one scene needed more than one iteration and "
                     "at least two random values are referenced only from requirements")
    common.ensure_parser()
    if not c.proofs():
        c.finish()
    exe = common.build_ocaml(PID)
    quick = c.tier == "quick"
    rng = c.rng
    nprog, nseeds, variants = (12, 2, VARIANTS) if quick else (120, 3, VARIANTS + [(v, str(1000 + v), "sequential") for v in range(6, 24)])
    nprog = int(os.environ.get("VERIF_C15_NPROG", nprog))   # development aid (self-tests on a loaded machine)
    progs = [f2_witness()] + [gen_program(rng, i) for i in range(nprog - 1)]
    jobs = []
    for p in progs:
        for s in range(nseeds):
            seed = rng.randint(0, 10 ** 6)
            for (v, hs, mode) in variants:
                jobs.append((p, seed, v, hs, mode))
    if c.replay:
        body = json.load(open(c.replay))
        case = body.get("case", {})
        if "program" in case:
            p = case["program"]
            jobs = [(p, case["seed"], v, hs, mode) for (v, hs, mode) in variants]
            progs = [p]

    def run(j):
        p, seed, v, hs, mode = j
        payload = dict(name=p["name"], src=p["src"], names=p["names"], seed=seed, nscenes=6, mode=mode,
                       simulate=(mode != "batch"), full_log=(v <= 1), steps=4, maxIterations=3000)
        try:
            return common.run_impl("impl_c15.py", payload, timeout=600, hashseed=hs, extra_env={"VERIF_VARIANT": str(v)})
        except Exception as e:
            return dict(crash=str(e)[-1500:])

    with cf.ThreadPoolExecutor(min(8, common.NCPU)) as ex:
        results = list(ex.map(run, jobs))

    # ---- model predictions for the dependency tuple and the order of draws
    pred = {}
    outs = common.run_driver(exe, [model_cmd(p["model"]) for p in progs])
    for p, o in zip(progs, outs):
        deps_s, log_s = [x.strip() for x in o.split("|")]
        m = p["model"]["nleaves"]
        deps = [] if deps_s == "-" else [int(x) for x in deps_s.split(",")]
        log = [] if log_s == "-" else [int(x) for x in log_s.split(",")]
        pred[p["name"]] = dict(deps=[f"x{i}" for i in deps if i < m], draws=[f"x{i}" for i in log if i < m])

    groups = {}
    for j, r in zip(jobs, results):
        groups.setdefault((j[0]["name"], j[1]), []).append((j, r))
    for (pname, seed), grp in groups.items():
        p = grp[0][0][0]
        case = dict(program=p, seed=seed)
        crashed = [(j[2], r["crash"]) for j, r in grp if "crash" in r]
        if crashed:
            c.violation("harness", "implementation driver crashed", dict(case, crashes=crashed), no_input=True)
            continue
        base_j, base = grp[0]
        its = [s.get("iterations") for s in base["scenes"]]
        md = p["model"]
        req_only = set()
        for b in md["bindings"]:
            req_only.update(x for x in b if x < md["nleaves"])
        for ch in [n[1] for n in md["nodes"]] + [md["params"]]:
            req_only.difference_update(ch)
        c.count((p["src"], seed), nontrivial=(any(i and i > 1 for i in its) and len(req_only) >= 2))
        c.cov["evaluations"] += len(grp) - 1
        c.cov["traces_validated_against_impl"] += len(grp)
        c.hist("programs:behaviour" if p["has_beh"] else "programs:static")
        c.hist("req-only-values:" + str(min(len(req_only), 4)))
        c.hist("iterations-total:" + ("1" if sum(i or 0 for i in its) == len(its) else ">1"))
        if base.get("rejection"):
            c.hist("rejection-exhausted")
        # (1) model vs implementation: dependency tuple and draw order
        mp = pred[pname]
        if base["deps_named"] != mp["deps"]:
            c.violation("model-deps", "the order of the named random values in Scenario.dependencies differs from the model's dependency tuple",
                        dict(case, impl=base["deps_named"], model=mp["deps"], variant=base_j[2]))
        fi = named_first_iteration(base["scenes"][0].get("log") if base["scenes"] else None, p["names"])
        if base["scenes"] and fi != mp["draws"]:
            c.violation("model-draws", "the order in which the named random values are drawn differs from the model's sampleAll",
                        dict(case, impl=fi, model=mp["draws"], variant=base_j[2]))
        # (2) all processes agree
        for j, r in grp[1:]:
            v, mode = j[2], j[4]
            what = None
            if r["compile_log"] != base["compile_log"]:
                what = "random calls made while compiling differ"
            elif r["deps_named"] != base["deps_named"]:
                what = "the order of Scenario.dependencies differs between processes"
            elif r.get("rejection") != base.get("rejection") or len(r["scenes"]) != len(base["scenes"]):
                what = "one process exhausted its iterations, another did not"
            else:
                for k, (a, b) in enumerate(zip(base["scenes"], r["scenes"])):
                    d = first_diff(a["scene"], b["scene"], f"scene[{k}]")
                    if d:
                        what = f"scenes differ at {d}"
                        break
                    if mode != "batch":
                        for key in ("iterations", "log_sha", "rng_after"):
                            if a[key] != b[key]:
                                what = f"scene[{k}].{key} differs ({'RNG call sequence' if key == 'log_sha' else key})"
                                break
                    if what:
                        break
                if not what and mode == "batch" and r.get("batch_iterations") != sum(s["iterations"] for s in base["scenes"]):
                    what = "generateBatch used a different total number of iterations"
                if not what and mode != "batch":
                    d = first_diff(base.get("sim"), r.get("sim"), "sim")
                    if d:
                        what = f"simulation results differ at {d}"
            c.hist(f"mode:{mode}")
            if what:
                c.violation("nondeterminism", "two fresh processes with the same program and seed disagree: " + what,
                            dict(case, variant_a=dict(id=base_j[2], hashseed=base_j[3], mode=base_j[4], deps=base["deps_named"], checker_order=base.get("checker_order")),
                                 variant_b=dict(id=v, hashseed=j[3], mode=mode, deps=r["deps_named"], checker_order=r.get("checker_order")),
                                 what=what, deps_order_differs=(r["deps_named"] != base["deps_named"])))
        orders = {json.dumps(r.get("checker_order")) for _, r in grp}
        c.hist("distinct-checker-orders:" + str(min(len(orders), 4)))
        c.sample(dict(program=p["src"], seed=seed, deps=base["deps_named"], iterations=its,
                      checker_orders=sorted(orders)[:3]), limit=4)
    c.assumptions += [
        "the OS allocator and hash function are abstracted as 'any permutation of the container'; NumPy's generator is covered only "
        "by the state fingerprint after every scene",
        "the RNG is an abstract stream with a cursor; save/restore is the model's [restore]",
        "process variation actually exercised is bounded by the 6 (quick) / 24 (thorough) variants per case",
        "extraction via ExtrOcamlBasic only; OCaml compiler; 40-line driver",
    ]
    c.finish()


if __name__ == "__main__":
    main()
