"""C09 — plain Python inside Scenic compiles to exactly what CPython would parse (apart from the documented rewrites).
Proof layer: coq/Properties/C09.v (compiler model = documented rewriting, totality, locations).
(G) both grammars regenerated with pegen's grammar parser; certificate harness/c09_grammar_cert.json re-checked.
(H) translation validation on the CPython standard library + site-packages + Python fragments of the repo's .scenic files:
    Scenic's compiled AST == independent rewrite_doc(ast.parse(src)); the extracted Coq model is run on a sample
    (all fragments, renamed variants and the smaller files) and must agree with both."""
import concurrent.futures as cf
import json
import os
import subprocess
import sys
import time

sys.path.insert(0, os.path.dirname(os.path.abspath(__file__)))
import common
from common import Check

PID = "C09"
PY_GRAM = "/usr/src/python3.11/Grammar/python.gram"
NPROC = int(os.environ.get("VERIF_WORKERS", min(16, common.NCPU)))


def nz(x):
    if isinstance(x, list):
        if x == ["name", "ASYNC"]:
            return ["tok", "'async'"]
        if x == ["name", "AWAIT"]:
            return ["tok", "'await'"]
        return [nz(y) for y in x]
    return x


# ----------------------------------------------------------------------------- (G) grammar certificate
def grammar_certificate(c):
    import c09_grammar as cg
    gram = os.path.join(common.REPO, "src/scenic/syntax/scenic.gram")
    r = subprocess.run([common.PY, os.path.join(common.VERIF, "harness", "c09_grammar.py"), gram, PY_GRAM],
                       capture_output=True, text=True, timeout=600)
    if r.returncode != 0:
        c.violation("grammar-cert", "pegen cannot read a grammar (translator is fail-closed)", dict(log=r.stderr[-2000:]), no_input=True)
        return None
    g = json.loads(r.stdout)
    os.makedirs(common.GEN, exist_ok=True)
    json.dump(g, open(os.path.join(common.GEN, "c09_grammars.json"), "w"))
    S, P = g["scenic"]["rules"], g["python"]["rules"]
    cert = json.load(open(os.path.join(common.VERIF, "harness", "c09_grammar_cert.json")))
    identical = differing = 0
    for name, r_ in P.items():
        c.count(("rule", name), nontrivial=True)
        if name not in S:
            c.violation("grammar-cert", f"Python rule {name} is missing from scenic.gram", dict(rule=name, cls="missing"))
            continue
        pa, sa = nz(r_["alts"]), nz(S[name]["alts"])
        if pa == sa:
            identical += 1
            if name in cert["rules"]:
                pass   # a recorded difference disappeared: fine (e.g. after a fix)
            continue
        differing += 1
        ent = cert["rules"].get(name)
        rep = dict(rule=name, python_alts=pa, scenic_alts=sa, py=cg.alt_hash(pa), scenic=cg.alt_hash(sa),
                   cls=(ent or {}).get("cls"), recorded=ent)
        if ent is None:
            rep["cls"] = "new-difference"
            c.violation("grammar-cert", f"shared grammar rule {name} now differs from CPython's and no justification is recorded", rep)
        elif ent["py"] != rep["py"] or ent["scenic"] != rep["scenic"]:
            rep["cls"] = "changed-difference"
            c.violation("grammar-cert", f"shared grammar rule {name} differs from CPython's in a way other than the recorded, justified one", rep)
        elif ent["cls"] == "UNJUSTIFIED":
            c.violation("grammar-cert", f"shared grammar rule {name} differs from CPython's without justification: {ent['reason']}", rep)
        c.hist("grammar-diff:" + (ent or {}).get("cls", "new"))
    hs, _ = cg.keywords(g["scenic"])
    hp, _ = cg.keywords(g["python"])
    extra = sorted(hs - hp - {"async", "await"})
    if extra != cert["reserved_words"]:
        c.violation("grammar-cert", "the set of reserved words Scenic adds to Python changed",
                    dict(rule="<keywords>", cls="keywords", now=extra, recorded=cert["reserved_words"]))
    import c09_kernelcert
    c09_kernelcert.run(c, g, nz, cert)
    c.cov["grammar"] = dict(python_rules=len(P), scenic_rules=len(S), identical_modulo_actions=identical,
                            differing_justified=differing, reserved_words=extra,
                            left_recursive_rules=sorted(n for n, r_ in S.items() if r_["left_recursive"]))
    return g


# ----------------------------------------------------------------------------- corpus
def corpus_files():
    import sysconfig
    roots = []
    out = subprocess.run([common.PY, "-c", "import os, sysconfig; print(os.path.dirname(os.__file__)); print(sysconfig.get_paths()['purelib'])"],
                         capture_output=True, text=True).stdout.split()
    files = []
    for root in out:
        for d, dirs, fs in os.walk(root):
            dirs.sort()
            if root == out[0] and d == root and "site-packages" in dirs:
                dirs.remove("site-packages")
            for f in sorted(fs):
                if f.endswith(".py"):
                    p = os.path.join(d, f)
                    try:
                        files.append((p, os.path.getsize(p)))
                    except OSError:
                        pass
    return files, out


def scenic_files():
    res = []
    for sub in ("examples", "tests", "src", "docs"):
        for d, dirs, fs in os.walk(os.path.join(common.REPO, sub)):
            dirs.sort()
            for f in sorted(fs):
                if f.endswith(".scenic"):
                    res.append(os.path.join(d, f))
    return res


def par(kind, items, key, extra, nproc=NPROC, timeout=7000):
    """Deal items round-robin (largest first) to nproc implementation processes."""
    chunks = [items[i::nproc] for i in range(nproc)]
    chunks = [ch for ch in chunks if ch]
    out = []
    with cf.ThreadPoolExecutor(max(1, len(chunks))) as ex:
        futs = [ex.submit(common.run_impl, "impl_c09.py", dict(kind=kind, **{key: ch}, **extra), timeout) for ch in chunks]
        for f in futs:
            out += f.result()["results"]
    return out


def corpus_index(c, files, reserved, meta):
    """Feature index of the WHOLE corpus (CPython only), cached in work/ and refreshed for new / changed files."""
    import hashlib
    key = hashlib.sha256(json.dumps([meta["python"], meta.get("feature_version"), sorted(reserved)]).encode()).hexdigest()[:10]
    cache_p = os.path.join(common.WORK, f"c09_index_{key}.json")
    cache = {}
    if os.path.exists(cache_p):
        try:
            cache = json.load(open(cache_p))
        except ValueError:
            cache = {}
    need = []
    for p, size in files:
        r = cache.get(p)
        try:
            mt = int(os.path.getmtime(p))
        except OSError:
            continue
        if r is None or r.get("fsize") != size or r.get("mtime", mt) != mt:
            need.append((p, size))
    c.cov["index"] = dict(cache=os.path.basename(cache_p), files=len(files), rescanned=len(need))
    if need:
        res = par("scan", [p for p, _ in sorted(need, key=lambda x: -x[1])], "paths", dict(reserved=reserved))
        fsize = dict(need)
        for r in res:
            r["fsize"] = fsize[r["path"]]
            cache[r["path"]] = r
        os.makedirs(common.WORK, exist_ok=True)
        tmp = cache_p + f".{os.getpid()}.tmp"
        json.dump(cache, open(tmp, "w"))
        os.replace(tmp, cache_p)
    return [cache[p] for p, _ in files if p in cache]


def select_cover(index, k, byte_budget, rng, big=60000):
    """Greedy set cover over the whole corpus index: every fine feature that occurs in some usable file is covered k times
    (once when only files > `big` characters have it), rarest features first, smallest files first; the remaining byte budget is
    spent evenly over size strata."""
    ok = [r for r in index if "skip" not in r and r.get("fine")]
    order = list(ok)
    rng.shuffle(order)
    order.sort(key=lambda r: r["size"])
    by_feat = {}
    for r in order:
        for f in r["fine"]:
            by_feat.setdefault(f, []).append(r)
    chosen, have, reason = {}, {}, {}
    for feat in sorted(by_feat, key=lambda f: (len(by_feat[f]), f)):
        for r in by_feat[feat]:
            want = k if r["size"] <= big else 1
            if have.get(feat, 0) >= want:
                break
            if r["path"] in chosen:
                continue
            chosen[r["path"]] = r
            reason[r["path"]] = feat
            for f in r["fine"]:
                have[f] = have.get(f, 0) + 1
    cover_bytes = sum(r["size"] for r in chosen.values())
    strata = [(0, 1000), (1000, 2500), (2500, 5000), (5000, 9000), (9000, 14000)]
    rest = max(0, byte_budget - cover_bytes)
    pool = [r for r in ok if r["path"] not in chosen]
    rng.shuffle(pool)
    for lo, hi in strata:
        spent = 0
        for r in pool:
            if lo <= r["size"] < hi and spent + r["size"] <= rest / len(strata):
                chosen[r["path"]] = r
                spent += r["size"]
    stats = dict(features=len(by_feat), cover_files=len(reason), cover_bytes=cover_bytes, chosen=len(chosen),
                 chosen_bytes=sum(r["size"] for r in chosen.values()),
                 features_covered_k=sum(1 for f in by_feat if have.get(f, 0) >= min(k, len(by_feat[f]))))
    return list(chosen.values()), reason, stats


def model_line(flags, toks):
    return f"X {flags[0]} {flags[1]} 0 {toks}"


def check_model(c, exe, items, what):
    """items: results carrying ref_tokens (+ out_tokens/exp_tokens or an error) -> run the extracted model."""
    items = [r for r in items if "ref_tokens" in r]
    if not items:
        return
    lines = [model_line(r.get("ctx_flags", [0, 0]), r["ref_tokens"]) for r in items]
    outs = common.run_driver(exe, lines)
    for r, o in zip(items, outs):
        head, res, rw = o.split(" | ")
        wf, rej, ctxok = head.split()
        ident = dict(path=r.get("path"), lineno=r.get("lineno"), rename=r.get("rename"), what=what)
        if what == "sentence":
            ident = dict(what=what, rule=r.get("rule"), sentence=r.get("sentence"))
        c.cov["traces_validated_against_impl"] += 1
        c.hist("model:" + res.split()[0])
        if wf != "1":
            c.violation("model-wf", "a CPython tree is outside the model's well-formedness hypothesis", dict(case=ident, model=o[:300]))
            continue
        if (rej == "1") != bool(r.get("spec_rejects")):
            c.violation("correspondence", "Coq `rejects` and the harness's reading of the documented refusals disagree", dict(case=ident, model=head))
        if r.get("impl") == "ok" and r["status"] == "ok":
            if res != "OK " + r["out_tokens"]:
                c.violation("correspondence", "compile_py (extracted model) and Scenic's compiler produce different trees",
                            dict(case=ident, model=res[:400], impl=r["out_tokens"][:400]))
            tree = res[3:] if rw == "=" else rw
            if tree != r["exp_tokens"]:
                c.violation("correspondence", "rewrite_doc (Coq) and the harness's independent rewrite_doc_py disagree",
                            dict(case=ident, model=tree[:400], harness=r["exp_tokens"][:400]))
        elif r.get("impl") == "syntax-error" and r.get("spec_rejects"):
            e = r["error"]
            if not res.startswith("ERR "):
                c.violation("correspondence", "Scenic refuses a tree the model compiles", dict(case=ident, model=res[:200], impl=e))
            else:
                _, kind, l, col = res.split()[:4]
                if int(l) != e["lineno"] or e["offset"] not in (int(col), int(col) + 1):
                    c.violation("correspondence", "model and Scenic report the syntax error at different places",
                                dict(case=ident, model=res, impl=e))


def verdicts(c, results, what):
    for r in results:
        st = r["status"]
        ident = dict(path=r.get("path"), rename=r.get("rename"), lineno=r.get("lineno"), fragment=r.get("kind"), what=what)
        if what == "sentence":
            ident = dict(what=what, rule=r.get("rule"), sentence=r.get("sentence"))
        if st == "skip":
            c.hist(f"{what}:skip:" + r["reason"].split(":")[0])
            continue
        if st == "harness-error":
            c.violation("harness", "implementation driver failed", dict(case=ident, error=r.get("error")), no_input=True)
            continue
        nontrivial = r.get("nodes", 0) >= (3 if what in ("fragment", "sentence") else 20) and not r.get("dup")
        c.count((what, r.get("path") or r.get("sentence"), r.get("lineno"), r.get("col"), r.get("rename")), nontrivial=nontrivial)
        c.hist(f"{what}:{st}")
        for f in r.get("features", []):
            c.hist("feature:" + f)
        if st in ("ok", "ok-rejected"):
            if r.get("rewritten") or any(f.startswith(("call-", "class-", "name-")) for f in r.get("features", [])):
                c.hist(f"{what}:exercises-a-documented-rewrite")
            continue
        # mismatch: every single difference must be explained by a recorded finding
        for d in (r.get("diffs") or [r["diff"]]):
            c.cov["disagreements_checked"] += 1
            v = c.violation("corpus", f"Scenic's tree differs from CPython's + documented rewrites ({d.get('what')})",
                            dict(case=ident, stage=r.get("stage"), diff=d, text=r.get("text")))
            if v and os.environ.get("C09_DEBUG"):
                print("DBG", json.dumps(dict(path=r.get("path"), d=d))[:700], file=sys.stderr)


def main():
    c = Check(PID, "translation_validation")
    c.cov["rule"] = ("corpus = .py files of the CPython stdlib and of /venv site-packages that ast.parse accepts, that use no Scenic reserved word, "
                     "no class-level annotation (Scenic property syntax) and no `@` operator (Scenic vector syntax); quick: a seeded sample is scanned with CPython and ~300 files are chosen "
                     "greedily so that every syntactic feature (match, walrus, f-string conversions, star calls, decorators, classes without bases, "
                     "str/int/float calls, ...) occurs at least 4 times, the rest evenly over 5 size strata; plus variants with an identifier renamed "
                     "to ego/workspace/globalParameters/str/int/float (exercise the name rewrites and the store-context refusals), plus every maximal "
                     "Scenic-free expression/statement below a Scenic node in the repo's .scenic files, compiled in the context of its position "
                     "(top level / behavior / monitor / compose). A file counts as non-trivial with >= 20 AST nodes, a fragment with >= 3 and not a duplicate.")
    quick = c.tier == "quick"
    common.ensure_parser()
    if not c.proofs():
        c.finish()
    exe = common.build_ocaml(PID)
    meta = common.run_impl("impl_c09.py", dict(kind="meta"))
    for k, want in meta["expect"].items():
        if meta["fields"][k][:len(want)] != want:
            c.violation("model-table", f"ast.{k}._fields is no longer what the model assumes", dict(kind=k, now=meta["fields"][k], model=want), no_input=True)
    if not all(meta["ctx_noattr"].values()):
        c.violation("model-table", "expression contexts gained location attributes", dict(meta=meta["ctx_noattr"]), no_input=True)
    reserved = meta["reserved"]
    c.cov["python"] = meta["python"]
    c.cov["reserved_words"] = reserved

    g = grammar_certificate(c)

    if c.replay:
        body = json.load(open(c.replay))
        case = body.get("case", {}).get("case") or {}
        if case.get("what") == "fragment":
            res = par("fragments", [case["path"]], "paths", {}, nproc=1)
            verdicts(c, res, "fragment")
            check_model(c, exe, res, "fragment")
        elif case.get("sentence") is not None:
            res = par("compare", [dict(id=0, src=case["sentence"], model=True)], "jobs", dict(reserved=reserved), nproc=1)
            for r in res:
                r["sentence"], r["rule"] = case["sentence"], case.get("rule")
            verdicts(c, res, "sentence")
            check_model(c, exe, res, "sentence")
        elif case.get("path"):
            job = dict(id=0, path=case["path"], model=True)
            if case.get("rename"):
                job["rename"] = case["rename"]
            res = par("compare", [job], "jobs", dict(reserved=reserved), nproc=1)
            for r in res:
                r.setdefault("path", case["path"])
            verdicts(c, res, "file")
            check_model(c, exe, res, "file")
        c.finish()

    # ---- generated supplement: at least one sentence per alternative of every rule of the regenerated python.gram
    import c09_sentences as cs
    sent_jobs = []
    if g is not None:
        problems, sents = cs.check_complete(g["python"])
        for pr in problems:
            c.violation("grammar-sentences", "the sentence table no longer covers every alternative of the regenerated python.gram: " + pr["problem"],
                        dict(rule=pr["rule"], alt=pr["alt"], problem=pr["problem"], text=pr.get("text")), no_input="text" not in pr)
        # positive neighbours of the error-reporting rules (round 3): valid programs one token away from what an invalid_* rule reports
        import c09_neighbours as cn
        nproblems, near = cn.check(g["python"])
        for pr in nproblems:
            c.violation("grammar-sentences", "the table of positive neighbours of the error-reporting rules is out of step with the regenerated python.gram: " + pr["problem"],
                        dict(rule=pr["rule"], alt=pr["alt"], problem=pr["problem"]), no_input=True)
        c.cov["invalid_rule_neighbours"] = dict(rules=len({s_["rule"] for s_ in near}), sentences=len(near))
        seen = set()
        for s_ in sents + near + [dict(rule="py312", alt=i, text=t) for i, t in enumerate(cs.EXTRA_312)] \
                + [dict(rule="layout", alt=i, text=t) for i, t in enumerate(cs.EXTRA_LAYOUT)]:
            if s_["text"] in seen:
                continue
            seen.add(s_["text"])
            sent_jobs.append(dict(id=len(sent_jobs), src=s_["text"], model=True, rule=f"{s_['rule']}#{s_['alt']}"))
        c.cov["sentences"] = dict(rules=len([n for n in g["python"]["order"] if not n.startswith("invalid_")]),
                                  alternatives_with_sentence=len({(s_["rule"], s_["alt"]) for s_ in sents}), distinct_sentences=len(sent_jobs))
        sres = par("compare", sent_jobs, "jobs", dict(reserved=reserved))
        sj = {j["id"]: j for j in sent_jobs}
        for r in sres:
            r["sentence"], r["rule"] = sj[r["id"]]["src"], sj[r["id"]]["rule"]
        verdicts(c, sres, "sentence")
        check_model(c, exe, sres, "sentence")

    if os.environ.get("VERIF_C09_ONLY") == "sentences":       # development knob
        c.finish()
    # ---- corpus: index, select, compare
    rng = c.rng
    files, roots = corpus_files()
    c.cov["corpus_roots"] = roots
    c.cov["corpus_files_total"] = len(files)
    t_start = time.time()
    index = corpus_index(c, files, reserved, meta)
    for r in index:
        if "skip" in r:
            c.hist("scan:skip:" + r["skip"].split(":")[0])
    if quick:
        cap = 20000
        chosen, why, stats = select_cover([r for r in index if r.get("size", 0) <= cap], 2, 1600000, rng, big=cap)
        allf = {f for r in index if "skip" not in r for f in r.get("fine", [])}
        stats["features_in_whole_corpus"] = len(allf)
        stats["features_only_in_files_above_cap"] = len(allf - {f for r in chosen for f in r["fine"]})
        c.cov["feature_cover"] = stats
    else:
        chosen = [r for r in index if "skip" not in r]
    chosen.sort(key=lambda r: r["size"])   # smallest first: a time budget cuts the largest files, never the variety
    small = sorted(chosen, key=lambda r: r["size"])
    model_paths = {r["path"] for r in small[:(80 if quick else 600)]}
    jobs = [dict(id=i, path=r["path"], model=r["path"] in model_paths) for i, r in enumerate(chosen)]
    # renamed variants of small files
    NEW = ["ego", "workspace", "globalParameters", "str", "int", "float"]
    variants = []
    for r in [r for r in small if r["size"] < 9000 and r.get("names")][:(60 if quick else 400)]:
        k = rng.randrange(len(r["names"]))
        variants.append(dict(id=len(jobs) + len(variants), path=r["path"], model=True,
                             rename=[r["names"][k], NEW[(len(variants)) % len(NEW)]]))
    c.cov["scan_wall_s"] = round(time.time() - t_start, 1)
    size_of = {r["path"]: r["size"] for r in chosen}
    alljobs = sorted(jobs + variants, key=lambda j: (size_of[j["path"]], j["id"]))
    res = par("compare", alljobs, "jobs", dict(reserved=reserved, cpu_budget=int(os.environ.get("VERIF_C09_BUDGET", (800 // NPROC) if quick else 900 * 16 // NPROC))))
    byid = {j["id"]: j for j in jobs + variants}
    for r in res:
        j = byid[r["id"]]
        r["path"] = j["path"]
        r["rename"] = j.get("rename")
    verdicts(c, [r for r in res if not r.get("rename")], "file")
    verdicts(c, [r for r in res if r.get("rename")], "renamed")
    check_model(c, exe, res, "file")
    c.cov["corpus_compared"] = sum(1 for r in res if r["status"] not in ("skip", "harness-error"))
    c.cov["corpus_wall_s"] = round(time.time() - t_start, 1)
    for r in res:
        if r["status"] == "ok" and r.get("features"):
            c.sample(dict(path=r["path"], rename=r.get("rename"), nodes=r.get("nodes"), features=r["features"][:8], status=r["status"]), limit=4)

    # ---- Python fragments embedded in the repo's .scenic files
    sfiles = scenic_files()
    if quick:
        rng.shuffle(sfiles)
        sfiles = sorted(sfiles[:45])
    t_fr = time.time()
    fr = par("fragments", sfiles, "paths", {})
    verdicts(c, fr, "fragment")
    check_model(c, exe, fr, "fragment")
    c.cov["fragments_wall_s"] = round(time.time() - t_fr, 1)
    c.cov["scenic_files"] = len(sfiles)
    c.cov["fragments"] = sum(1 for r in fr if r["status"] in ("ok", "ok-rejected", "mismatch"))
    for r in fr:
        if r["status"] == "ok" and r.get("rewritten"):
            c.sample(dict(path=r["path"], lineno=r["lineno"], fragment=r["kind"], ctx=r["ctx"], nodes=r["nodes"]), limit=6)
            break
    c.assumptions += [
        "the parser generated from scenic.gram (15 000 lines) is validated, not verified: translation validation against CPython on the corpus",
        "the reference for the grammar certificate is CPython 3.11's python.gram; the interpreter is " + meta["python"] + " (PEP 701/695 rules are reported as differences)",
        "rewrite_doc is evaluated by an independent Python implementation on every file and by the extracted Coq model on the sample; both must agree there",
        "extraction via ExtrOcamlBasic only; OCaml compiler; 80-line driver; strings/identifiers/constants interned as opaque atoms",
        "compile contexts modelled: top level, behavior (with locals), compose; interrupt-block rewriting of break/continue/return is not modelled",
    ]
    c.finish()


if __name__ == "__main__":
    main()
