"""C13 — interrupts pre-empt and resume as documented; guards are checked when promised.
Proof layer: coq/Properties/C13.v (lemmas in coq/C13/Interrupt.v about DynCore's try-interrupt scheduler).
Correspondence: programs of the interrupt fragment (nested try-interrupt <= depth 3, <= 3 handlers, handlers
that take actions / invoke sub-behaviours / abort / break / continue / return, inside loops and
sub-behaviours, guards) x step-indexed truth tables (all tables when the conditions x steps fit in 8 bits,
a seeded sample otherwise), raiseGuardViolations both ways: action log, event log, termination type /
GuardViolation class / rejection vs the extracted model.  Oracle: an independent reference interpreter of the
DOCUMENTED semantics (Python generators + exceptions) run on the same program and table."""
import itertools
import json
import math
import os
import random
import sys

sys.path.insert(0, os.path.dirname(os.path.abspath(__file__)))
import common
import c12
import c12_prog as cp
from common import Check

PID = "C13"


# ------------------------------------------------------------------ mirror of the compiler's flag bookkeeping
def flag_walk(ss, in_loop, st):
    """visit statements the way ScenicToPythonTransformer does inside an interrupt block; st = [usedBreak,
    usedContinue]; returns list of problems ('a' = break/continue check emitted outside a loop)"""
    probs = []
    for s in ss:
        k = s[0]
        if k == "BR" and not in_loop:
            st[0] = True
        elif k == "CO" and not in_loop:
            st[1] = True
        elif k == "WH":
            probs += flag_walk(s[2], True, st)
        elif k == "IF":
            probs += flag_walk(s[2], in_loop, st)
            probs += flag_walk(s[3], in_loop, st)
        elif k == "TRY":
            probs += try_flags(s, st, nested=True, in_loop=in_loop)
    return probs


def need_walk(ss, in_loop):
    """does a break/continue lexically in these statements (not inside a nested loop) target a loop outside?"""
    nb = nc = False
    for s in ss:
        k = s[0]
        if k == "BR" and not in_loop:
            nb = True
        elif k == "CO" and not in_loop:
            nc = True
        elif k == "IF":
            a, b = need_walk(s[2], in_loop)
            c, d = need_walk(s[3], in_loop)
            nb, nc = nb or a or c, nc or b or d
        elif k == "WH":
            pass
        elif k == "TRY":
            a, b = try_need(s)
            if not in_loop:
                nb, nc = nb or a, nc or b
    return nb, nc


def try_need(s):
    nb = nc = False
    for blk in [s[1]] + [h[1] for h in s[2]]:
        a, b = need_walk(blk, False)
        nb, nc = nb or a, nc or b
    return nb, nc


def try_flags(s, st, nested, in_loop):
    probs = []
    st[0] = st[1] = False
    for blk in [s[1]] + [h[1] for h in s[2]]:
        probs += flag_walk(blk, False, st)
    need = try_need(s)
    if (need[0] and not st[0]) or (need[1] and not st[1]):
        probs.append("b")            # a break/continue whose check is not emitted: silently ignored
    if nested and not in_loop and (st[0] or st[1]):
        probs.append("a")            # `break`/`continue` statement emitted inside a block function: compile error
    return probs


def body_walk(ss, in_loop, in_fun_loop_ok=True):
    probs = []
    for s in ss:
        k = s[0]
        if k == "WH":
            probs += body_walk(s[2], True)
        elif k == "IF":
            probs += body_walk(s[2], in_loop) + body_walk(s[3], in_loop)
        elif k == "TRY":
            st = [False, False]
            probs += try_flags(s, st, nested=False, in_loop=in_loop)
            if not in_loop and (st[0] or st[1]):
                probs.append("a")
    return probs


def handler_counts(ss, depth, acc):
    """acc[0] = max number of handlers over top-level try statements of a behavior, acc[1] = over nested ones"""
    for s in ss:
        k = s[0]
        if k == "WH":
            handler_counts(s[2], depth, acc)
        elif k == "IF":
            handler_counts(s[2], depth, acc)
            handler_counts(s[3], depth, acc)
        elif k == "TRY":
            acc[0 if depth == 0 else 1] = max(acc[0 if depth == 0 else 1], len(s[2]))
            for blk in [s[1]] + [h[1] for h in s[2]]:
                handler_counts(blk, depth + 1, acc)


def quirks(p):
    out = set()
    for b in p["behaviors"]:
        out.update(body_walk(b["body"], False))
        acc = [0, 0]
        handler_counts(b["body"], 0, acc)
        if acc[1] > acc[0]:
            out.add("e")     # nonlocal _Scenic_interrupt_condition_i without a binding: compile error
        if has_nested_return(b["body"], 0):
            out.add("c")
        if b["inv"] and any(s[0] in ("TRY", "DOF", "DOU") for s in cp.walk(b["body"])):
            out.add("d")
    return out


def has_nested_return(ss, depth):
    for s in ss:
        k = s[0]
        if k == "RT" and depth >= 2:
            return True
        if k == "WH" and has_nested_return(s[2], depth):
            return True
        if k == "IF" and (has_nested_return(s[2], depth) or has_nested_return(s[3], depth)):
            return True
        if k == "TRY":
            if any(has_nested_return(b, depth + 1) for b in [s[1]] + [h[1] for h in s[2]]):
                return True
    return False


# ------------------------------------------------------------------ reference interpreter (documented semantics)
class Brk(Exception):
    pass


class Cnt(Exception):
    pass


class Ret(Exception):
    pass


class Abt(Exception):
    pass


class Viol(Exception):
    def __init__(self, pre):
        self.pre = pre


class Rej(Exception):
    pass


END = "END"


def reference(p, tab, timestep, max_steps, root):
    T = [0]
    LY = [None]          # the behaviour whose OWN statement (take / wait / wait for / wait until) made the last yield
    B = p["behaviors"]

    def cond(c):
        return c12.tab_at(tab, c, T[0])

    def check_inv(b):
        if not all(cond(c) for c in B[b]["inv"]):
            raise Viol(False)

    def start(b):
        if not all(cond(c) for c in B[b]["pre"]):
            raise Viol(True)
        check_inv(b)

    def steps_of(n, unit):
        return n / float(timestep) if unit == "seconds" else n

    def invoke(sub, b):
        start(sub)
        try:
            yield from block(B[sub]["body"], sub)
        except Ret:
            pass

    def until(stop, inner, b, check_each):
        """do/wait ... for/until: the condition is looked at before every step, first included"""
        g = None
        while True:
            if stop():
                if g is not None:
                    g.close()
                return
            if g is None:
                g = inner()
            try:
                act = next(g)
            except StopIteration:
                return
            if check_each:
                LY[0] = b
            yield act
            if check_each:
                check_inv(b)

    def forever():
        while True:
            yield []

    def block(ss, b):
        for s in ss:
            k = s[0]
            if k == "MK":
                continue
            if k == "TK":
                LY[0] = b
                yield [s[1]]
                check_inv(b)
            elif k == "WT":
                LY[0] = b
                yield []
                check_inv(b)
            elif k in ("TE", "TS"):
                yield END
            elif k == "RQ":
                if not cond(s[1]):
                    raise Rej()
            elif k == "IF":
                yield from block(s[2] if cond(s[1]) else s[3], b)
            elif k == "WH":
                while cond(s[1]):
                    try:
                        yield from block(s[2], b)
                    except Brk:
                        break
                    except Cnt:
                        continue
            elif k == "BR":
                raise Brk()
            elif k == "CO":
                raise Cnt()
            elif k == "RT":
                raise Ret()
            elif k == "AB":
                raise Abt()
            elif k == "DO":
                yield from invoke(s[1], b)
                check_inv(b)
            elif k in ("DOF", "WF"):
                t0 = T[0]
                lim = steps_of(*(s[2:4] if k == "DOF" else s[1:3]))
                inner = (lambda s=s: invoke(s[1], b)) if k == "DOF" else forever
                yield from until(lambda: T[0] - t0 >= lim, inner, b, check_each=(k == "WF"))
                check_inv(b)
            elif k in ("DOU", "WU"):
                c = s[2] if k == "DOU" else s[1]
                inner = (lambda s=s: invoke(s[1], b)) if k == "DOU" else forever
                yield from until(lambda c=c: cond(c), inner, b, check_each=(k == "WU"))
                check_inv(b)
            elif k == "TRY":
                yield from try_interrupt(s[1], s[2], b)
            else:
                raise ValueError(k)

    def try_interrupt(body, hs, b):
        gens = {}
        try:
            while True:
                sel = "body"
                for i in reversed(range(len(hs))):          # the clause latest in the source wins
                    if i in gens or cond(hs[i][0]):
                        sel = i
                        break
                g = gens.get(sel)
                if g is None:
                    g = block(body if sel == "body" else hs[sel][1], b)
                try:
                    act = next(g)
                except StopIteration:
                    if sel == "body":
                        return
                    gens.pop(sel, None)
                    continue
                except Abt:
                    return
                gens[sel] = g
                yield act
                # documented step 5a: a behaviour that resumes while it is not running a sub-behaviour has its invariants
                # checked -- also when the block that yielded is not the one that goes on (a handler of higher priority takes
                # over: the check after the `take`/`wait` in the suspended block would come too late or never)
                if LY[0] == b:
                    check_inv(b)
        finally:
            for g in gens.values():
                g.close()

    actions = []
    top = p["scenarios"][0]
    try:
        # the top-level scenario's guards are checked when the simulation starts (preconditions, then invariants) ...
        if not all(cond(c) for c in top["pre"]):
            raise Viol(True)
        if not all(cond(c) for c in top["inv"]):
            raise Viol(False)
        start(root)
        g = block(B[root]["body"], root)
        done = False
        for t in range(max_steps + 1):
            T[0] = t
            # ... and its invariants again in every later step, before the behaviors run (the step the step limit is
            # detected in included)
            if t > 0 and not all(cond(c) for c in top["inv"]):
                raise Viol(False)
            if t == max_steps:
                break
            if done:
                actions.append([])
                continue
            try:
                act = next(g)
            except (StopIteration, Ret):
                done = True
                act = []
            if act == END:
                return dict(kind="terminatedByBehavior", actions=actions)
            actions.append(act)
        return dict(kind="timeLimit", actions=actions)
    except Viol as v:
        return dict(kind="PreconditionViolation" if v.pre else "InvariantViolation", actions=actions)
    except Rej:
        return dict(kind="rejected", actions=actions)


# ------------------------------------------------------------------ generators
def gen_interrupt_program(rng):
    g = cp.Gen(rng, horizon=6, allow_try=True, try_depth=3)
    g.seconds = False
    nb = rng.randint(1, 3)
    p = cp.empty_program(1)
    for i in range(nb):
        subs = list(range(i + 1, nb))
        body = g.block("B", 3, subs, rng.randint(1, 3))
        if not any(s[0] == "TRY" for s in cp.walk(body)) and rng.random() < 0.8:
            pos = [i for i in range(len(body) + 1) if i == 0 or body[i - 1] not in (("MK", 90), ("MK", 91))]
            body.insert(rng.choice(pos), force_try(rng, g, subs)[0])
        body = g.ensure_yield("B", body)
        p["behaviors"].append(dict(pre=[g.cond(bias=0.95, const=0.6) for _ in range(rng.choice([0, 0, 0, 1]))],
                                   inv=[g.cond(bias=0.9, const=0.3) for _ in range(rng.choice([0, 0, 1]))], body=body))
    p["objects"] = [0]
    if rng.random() < 0.3:
        # guards of the top-level scenario (checked when each simulation starts: the truth tables of the runs of one
        # compiled program make them hold in some simulations and fail in others, in any order)
        p["scenarios"][0]["pre"] = [g.cond(bias=0.7, const=0)]
        if rng.random() < 0.3:
            p["scenarios"][0]["inv"] = [g.cond(bias=0.9, const=0)]
    return p, g


def force_try(rng, g, subs):
    """a try-interrupt statement, possibly inside a loop"""
    old = g.allow_try
    while True:
        s = g.stmt("B", 3, subs, False, False, 0)
        if s[0][0] == "TRY":
            return s
        if s[0][0] == "WH" and any(x[0] == "TRY" for x in cp.walk(s[0][2])):
            return s


def tables_for(rng, nconds, L, limit):
    bits = nconds * L
    if bits <= 8:
        for v in range(1 << bits):
            yield [[bool(v >> (c * L + i) & 1) for i in range(L)] for c in range(nconds)]
    else:
        for _ in range(limit):
            bias = rng.choice([0.2, 0.35, 0.5, 0.7])
            yield [[rng.random() < bias for _ in range(L)] for _ in range(nconds)]


# ------------------------------------------------------------------ directed family: loop control out of interrupt blocks
BLOCKS = {   # name -> statements (conditions: 2 = the `if` inside blocks)
    "A": [("TK", 2), ("TK", 3)],
    "Bk": [("TK", 4), ("BR",)], "Bk0": [("BR",)],
    "Co": [("TK", 5), ("CO",)], "Co0": [("CO",)],
    "IfBC": [("TK", 6), ("IF", 2, [("BR",)], [("CO",)])], "IfCB": [("TK", 6), ("IF", 2, [("CO",)], [("BR",)])],
    "BthenC": [("TK", 4), ("IF", 2, [("BR",)], []), ("TK", 5), ("CO",)],
    "CthenB": [("TK", 4), ("IF", 2, [("CO",)], []), ("TK", 5), ("BR",)],
    "Rt": [("TK", 6), ("RT",)], "Ab": [("TK", 6), ("AB",)],
}


def uses(block):
    ks = {x[0] for x in cp.walk(block)}
    return "BR" in ks, "CO" in ks


def loop_control_family(rng, quick):
    """`while True: take 1; try: <body> interrupt when c0: <h1> [interrupt when c1: <h2>]; take 7` then `take 8`:
    body and handlers use break and continue (both referring to the loop around the statement) in every lexical
    order -- different blocks, the same block, under an `if` -- with statements after the try-interrupt in the loop
    body, so that a conclusion that is not acted upon is visible.  Returns (name, program, nconds)."""
    bodies = ["A", "Bk", "Co", "IfBC", "IfCB"]
    handlers = ["A", "Bk0", "Co0", "Bk", "Co", "IfBC", "IfCB", "BthenC", "CthenB", "Rt", "Ab"]
    combos = []
    for b in bodies:
        for h1 in handlers:
            combos.append((b, h1, None))
    two = [(b, h1, h2) for b in bodies for h1 in handlers for h2 in handlers]
    two = [cb for cb in two if any(uses(BLOCKS[x])[0] for x in cb) and any(uses(BLOCKS[x])[1] for x in cb)]
    combos += (rng.sample(two, 60) if quick else two)
    out = []
    for b, h1, h2 in combos:
        hs = [(0, BLOCKS[h1])] + ([(1, BLOCKS[h2])] if h2 else [])
        body = [("WH", True, [("TK", 1), ("TRY", BLOCKS[b], hs), ("TK", 7)]), ("TK", 8), ("TK", 9)]
        p = cp.empty_program(1)
        p["behaviors"] = [dict(pre=[], inv=[], body=body)]
        p["objects"] = [0]
        out.append((f"loopctl-{b}-{h1}-{h2}", p, 3))
    return out


AFTER = {   # loop control FOLLOWING a nested try-interrupt statement in the body of an ordinary loop (condition 2 = the `if`)
    "none": [], "Bk": [("BR",)], "Co": [("CO",)], "IfB": [("IF", 2, [("BR",)], [])], "IfC": [("IF", 2, [("CO",)], [])],
    "IfCB": [("IF", 2, [("CO",)], [("BR",)])], "TkB": [("TK", 5), ("BR",)],
}


def nested_control_family(rng, quick):
    """try-interrupt statements nested to depth 2 and 3 with an ordinary `while` loop between the levels and loop control
    AFTER the nested statement in that loop's body (it refers to that loop, not to the enclosing interrupt block):
        while True: take 1; try: [while c3: take 2; try: .. interrupt when c0: ..; <after>; take 6]; take 7 interrupt when c1: ..; take 8
    with the loop in the body or in the handler of the outer statement.  Returns (name, program, nconds)."""
    def loop(depth, after):
        inner_body = [("TK", 3)] + ([loop(depth - 1, after)] if depth > 1 else [("TK", 4)])
        return ("WH", 3, [("TK", 2), ("TRY", inner_body, [(0, INNER_H[hin])])] + AFTER[after] + [("TK", 6)])
    out = []
    INNER_H = {"A": [("TK", 4)], "Ab": [("TK", 4), ("AB",)], "Bk0": [("BR",)], "Co": [("TK", 4), ("CO",)]}
    combos = [(place, depth, after, hin, hout) for place in ("body", "handler") for depth in (1, 2) for after in AFTER
              for hin in INNER_H for hout in ("A", "Bk", "Co", "Ab")]
    if quick:
        combos = [cb for cb in combos if cb[2] != "none" or cb[3] == "A"]
        combos = rng.sample(combos, 96)
    for place, depth, after, hin, hout in combos:
        lp = loop(depth, after)
        if place == "body":
            outer = ("TRY", [lp, ("TK", 7)], [(1, BLOCKS[hout])])
        else:
            outer = ("TRY", [("TK", 2), ("TK", 3)], [(1, [lp, ("TK", 7)])])
        p = cp.empty_program(1)
        p["behaviors"] = [dict(pre=[], inv=[], body=[("WH", True, [("TK", 1), outer, ("TK", 8)]), ("TK", 9)])]
        p["objects"] = [0]
        out.append((f"nestctl-{place}-d{depth}-{after}-{hin}-{hout}", p, 4))
    return out


PROBES = [
    ("nested-break", "a break in a handler of a try-interrupt nested in a block of another one (outside any loop of that block) does not compile",
     [("WH", True, [("TK", 1), ("TRY", [("TRY", [("TK", 2), ("TK", 3)], [(0, [("BR",)])])], [(False, [("TK", 9)])])]), ("TK", 7), ("TK", 8)]),
    ("break-ignored", "a break in a handler is ignored when a later handler of the same statement contains a try-interrupt",
     [("WH", True, [("TK", 1), ("TRY", [("TK", 2), ("TK", 3)], [(0, [("BR",)]), (False, [("TRY", [("TK", 5)], [(False, [("TK", 6)])])])])]), ("TK", 7), ("TK", 8)]),
    ("nested-more-handlers", "a try-interrupt nested in a block of another one does not compile when it has more handlers than every top-level try-interrupt of the behavior",
     [("TK", 1), ("TRY", [("TRY", [("TK", 2), ("TK", 3)], [(False, [("TK", 5)]), (0, [("TK", 6)])])], [(False, [("TK", 9)])]), ("TK", 7)]),
    ("nested-return", "a return in a handler of a nested try-interrupt only ends the statements, the behavior continues",
     [("TK", 1), ("TRY", [("TRY", [("TK", 2), ("TK", 3)], [(0, [("RT",)])]), ("TK", 4)], [(False, [("TK", 9)])]), ("TK", 7), ("TK", 8)]),
]


def main():
    c = Check(PID, "proof")
    quick = c.tier == "quick"
    c.cov["rule"] = ("single-agent programs of the interrupt fragment (try-interrupt nested <= 3, <= 3 handlers, handlers taking actions / "
                     "invoking sub-behaviours / abort / break / continue / return, loops, sub-behaviours with preconditions and invariants) from a "
                     "seeded grammar, each run under all truth tables of its conditions when conditions x 4 steps fit in 8 bits and a seeded sample "
                     "of tables otherwise, with raiseGuardViolations on and off.  A case is non-trivial when at least one interrupt handler ran "
                     "(the action sequence differs from the one under the all-false table).")
    c.proofs()
    common.ensure_parser()
    exe = common.build_ocaml("C12")
    rng = c.rng
    cases = []
    if c.replay:
        body = json.load(open(c.replay))
        cs = body["case"]["case"]
        for h in cs.get("history", []):          # the simulations made before it from the same compiled scenario
            cases.append((cs["name"] + "-history", cs["program"], cp.program_src(cs["program"]), h, None))
        cases.append((cs["name"], cs["program"], cp.program_src(cs["program"]), cs["run"], None))
    else:
        nprog = int(os.environ.get('VERIF_C13_N', 100 if quick else 700))      # thorough: ~50 000 simulations of ~700 programs (+ families)
        ntab = 24 if quick else 64
        made = 0
        attempts = 0
        while made < nprog and attempts < nprog * 20:
            attempts += 1
            p, g = gen_interrupt_program(random.Random(rng.getrandbits(64)))
            if not any(s[0] == "TRY" for b in p["behaviors"] for s in cp.walk(b["body"])):
                continue
            q = quirks(p)
            if q & {"a", "e"}:      # compile errors (F20, F24); lost flags (F21, quirk b) are modelled: compile_try
                c.hist("generator:avoided-" + "".join(sorted(q & {"a", "e"})))
                continue
            made += 1
            src = cp.program_src(p)
            L = 5
            n = len(g.tab_kinds)
            cap = 256 if (made % 6 == 0 or not quick) else ntab
            for ti, tab in enumerate(itertools.islice(tables_for(g.rng, n, 4 if (n * 4 <= 8 and cap == 256) else L, ntab), cap)):
                cases.append((f"interrupt-{made}-{ti}", p, src, dict(tab=tab, perms=[], max_steps=6, timestep=1, raise_gv=(ti % 3 != 2)), None))
        fam = loop_control_family(random.Random(rng.getrandbits(64)), quick)
        trng = random.Random(rng.getrandbits(64))
        for name, p, n in fam:
            src = cp.program_src(p)
            ntabs = 10 if quick else 16
            for ti in range(ntabs):
                bias = [0.25, 0.4, 0.6][ti % 3]
                tab = [[trng.random() < bias for _ in range(7)] for _ in range(n)]
                cases.append((f"{name}-{ti}", p, src, dict(tab=tab, perms=[], max_steps=7, timestep=1, raise_gv=True), None))
        nfam = nested_control_family(random.Random(rng.getrandbits(64)), quick)
        for name, p, n in nfam:
            if quirks(p) & {"a", "e"}:
                c.hist("generator:avoided-nestctl")
                continue
            src = cp.program_src(p)
            for ti in range(6 if quick else 16):
                bias = [0.25, 0.4, 0.6][ti % 3]
                tab = [[trng.random() < bias for _ in range(9)] for _ in range(3)] + [[trng.random() < 0.8 for _ in range(9)]]
                cases.append((f"{name}-{ti}", p, src, dict(tab=tab, perms=[], max_steps=9, timestep=1, raise_gv=True), None))
        for name, what, body in PROBES:
            p = cp.empty_program(1)
            p["behaviors"] = [dict(pre=[], inv=[], body=body)]
            p["objects"] = [0]
            cases.append(("probe-" + name, p, cp.program_src(p), dict(tab=[[False, False, True, False, False, False]], perms=[], max_steps=6, timestep=1, raise_gv=True), what))
        # F23: the caller's invariant (row 0) is false at step 1 only, while B1 runs under `do ... for`
        p = cp.empty_program(1)
        p["behaviors"] = [dict(pre=[], inv=[0], body=[("DOF", 1, 5, "steps")]), dict(pre=[], inv=[], body=[("WH", True, [("TK", 5)])])]
        p["objects"] = [0]
        cases.append(("probe-invariant-while-sub-runs", p, cp.program_src(p), dict(tab=[[True, False, True, True, True, True]], perms=[], max_steps=5, timestep=1, raise_gv=True),
                      "the caller's invariant is checked while its sub-behaviour runs under do ... for"))

    by_src = {}
    for idx, cs in enumerate(cases):
        by_src.setdefault(cs[2], []).append(idx)
    jobs = [dict(id=jid, src=src, runs=[cases[i][3] for i in idxs], _idxs=idxs) for jid, (src, idxs) in enumerate(by_src.items())]
    impl = c12.run_impl_jobs([{k: v for k, v in j.items() if k != "_idxs"} for j in jobs])
    models = c12.run_model(exe, [(cs[1], cs[3]) for cs in cases])
    nfail = 0
    for j in jobs:
        res = impl[j["id"]]
        base = None
        for ri, (i, obs) in enumerate(zip(j["_idxs"], res.get("runs", [None] * len(j["_idxs"])))):
            name, p, src, run, probe = cases[i]
            hist = [cases[x][3] for x in j["_idxs"][max(0, ri - 3):ri]]     # (the last three simulations before this one)
            q = sorted(quirks(p))
            case = dict(name=name, program=p, src=src, run=run, run_index=ri, history=hist)
            ref = reference(p, run["tab"], run["timestep"], run["max_steps"], 0)
            if "compile_error" in res:
                c.count((src, run), nontrivial=True)
                c.hist("kind:compile-error")
                c.violation("compile", f"program of the interrupt fragment does not compile: {res['compile_error'][:120]}",
                            dict(case=case, error=res["compile_error"], quirks=q, probe=probe, expected=ref))
                continue
            mod = models[i]
            want_kind = mod["kind"]
            if not run.get("raise_gv", True) and want_kind in ("PreconditionViolation", "InvariantViolation"):
                mod = dict(mod, kind="rejected")
            acts = [a[0][1] if a else None for a in obs.get("actions", [])]
            if base is None:
                base = acts
            c.count((src, run), nontrivial=(acts != base) or obs["kind"] not in ("timeLimit",))
            c.cov["traces_validated_against_impl"] += 1
            c.hist("kind:" + obs["kind"])
            c.hist("raise_gv:" + str(run.get("raise_gv", True)))
            for k in cp.kinds(p) & {"TRY", "AB", "BR", "CO", "RT", "DO", "DOF", "DOU", "WH"}:
                c.hist("stmt:" + k)
            modelled = (not probe) or name in ("probe-break-ignored", "probe-nested-return", "probe-invariant-while-sub-runs")
            ok = c12.compare(c, name, p, src, run, obs, mod, None, run_index=ri, history=hist) if modelled else True   # the other probes are outside the modelled fragment
            if obs["kind"] == "hang":
                # stopped by the per-simulation CPU / step guard of impl_c12: c12.compare has reported it (violation `hang` when
                # the model completes the simulation, a skipped case when the generated program itself never yields)
                if not modelled:
                    c.violation("hang", f"{name}: the implementation does not finish the simulation: {obs.get('msg')}", dict(case=case, probe=probe))
                    ok = False
                if not ok:
                    nfail += 1
                continue
            # oracle: the documented semantics
            rk = ref["kind"]
            if not run.get("raise_gv", True) and rk in ("PreconditionViolation", "InvariantViolation"):
                rk = "rejected"
            got_actions = acts if obs["kind"] in ("timeLimit", "terminatedByBehavior") else None
            want_actions = ref["actions"] if rk in ("timeLimit", "terminatedByBehavior") else None
            if obs["kind"] != rk or (want_actions is not None and got_actions[:len(want_actions)] != want_actions[:len(got_actions)]):
                ok = False
                c.violation("documented-semantics", f"{name}: documented {rk} {want_actions}, implementation {obs['kind']} {got_actions}",
                            dict(case=case, quirks=q, probe=probe, expected=dict(kind=rk, actions=want_actions),
                                 impl=dict(kind=obs["kind"], actions=got_actions, msg=obs.get("msg")),
                                 guard_kind_only=(obs["kind"] in ("InvariantViolation", "rejected") and rk not in ("InvariantViolation", "PreconditionViolation"))))
            if not ok:
                nfail += 1
            elif acts != base:
                c.sample(dict(name=name, src=src, table=run["tab"], actions=acts, kind=obs["kind"]), limit=4)
    c.cov["disagreements_checked"] = nfail
    c.cov["programs"] = len(by_src)
    c.assumptions += [
        "CPython generator protocol (resume at last yield; closing abandoned generators runs their finally blocks) is modelled by frame stacks, not verified",
        "the reference interpreter of the documented semantics (harness/c13.py: reference) is trusted as the reading of docs/reference/statements.rst",
        "extraction via ExtrOcamlBasic only; OCaml compiler; ocaml/c12/driver.ml",
        "model = hand-written Gallina (coq/C12/Dyn.v) tied to the code by this differential run only",
    ]
    c.finish()


if __name__ == "__main__":
    main()
