"""Shared plumbing of the /verif checks: environment, Coq/OCaml runners, evidence, violations,
known findings.  Runs under /venv/bin/python (the interpreter that has Scenic's dependencies)."""
import contextlib
import fcntl
import hashlib
import json
import os
import random
import re
import subprocess
import sys
import time

VERIF = os.path.dirname(os.path.dirname(os.path.abspath(__file__)))
REPO = os.environ.get("VERIF_REPO", "/repo")
PY = "/venv/bin/python"
COQ = os.path.join(VERIF, "coq")
OCAML = os.path.join(VERIF, "ocaml")
GEN = os.path.join(VERIF, "gen")
WORK = os.path.join(VERIF, "work")
EVID = os.path.join(VERIF, "evidence")
REPLAYS = os.path.join(VERIF, "replays")
NCPU = os.cpu_count() or 4

GATE_RE = r"Admitted|\badmit\b|^\s*Axiom\b|^\s*Parameter\b|^\s*Conjecture\b|Unset Guard|bypass_check|type-in-type|impredicative-set|Admit Obligations"


def impl_env(hashseed="0", extra=None):
    """Environment for running the implementation (Scenic from REPO's working tree)."""
    env = dict(os.environ)
    env["PYTHONPATH"] = f"{REPO}/src:{REPO}:{VERIF}/harness"
    env["PYTHONHASHSEED"] = str(hashseed)
    env["VERIF_REPO"] = REPO
    env.setdefault("OMP_NUM_THREADS", "1")
    env.setdefault("OPENBLAS_NUM_THREADS", "1")
    env["SCENIC_VERIF"] = "1"
    if extra:
        env.update(extra)
    return env


@contextlib.contextmanager
def locked(name):
    os.makedirs(WORK, exist_ok=True)
    path = os.path.join(WORK, name + ".lock")
    with open(path, "w") as f:
        fcntl.flock(f, fcntl.LOCK_EX)
        try:
            yield
        finally:
            fcntl.flock(f, fcntl.LOCK_UN)


def sha(b):
    if isinstance(b, str):
        b = b.encode()
    return hashlib.sha256(b).hexdigest()


def ensure_parser():
    """parser.py is a git-ignored build product of scenic.gram: regenerate it when the grammar
    in REPO's working tree changed (the test suite's own bootstrap does the same)."""
    gram = os.path.join(REPO, "src/scenic/syntax/scenic.gram")
    parser = os.path.join(REPO, "src/scenic/syntax/parser.py")
    os.makedirs(WORK, exist_ok=True)
    stamp = os.path.join(WORK, "parser-" + sha(REPO)[:8] + ".stamp")
    with locked("parser-" + sha(REPO)[:8]):
        want = sha(open(gram, "rb").read())
        have = None
        if os.path.exists(parser) and os.path.exists(stamp):
            have = open(stamp).read().strip()
        if have == want:
            return False
        r = subprocess.run(
            [PY, "-m", "pegen", gram, "-o", parser],
            cwd=REPO, env=impl_env(), capture_output=True, text=True, timeout=600,
        )
        if r.returncode != 0:
            raise RuntimeError("parser generation failed:\n" + r.stderr[-2000:])
        with open(stamp, "w") as f:
            f.write(want)
        return True


def repo_head():
    try:
        h = subprocess.run(["git", "-C", REPO, "rev-parse", "HEAD"], capture_output=True, text=True).stdout.strip()
        d = subprocess.run(["git", "-C", REPO, "status", "--porcelain"], capture_output=True, text=True).stdout.strip()
        return h + ("+dirty" if d else "")
    except Exception:
        return "unknown"


# ----------------------------------------------------------------------------- Coq / OCaml
def coq_project():
    """(Re)generate coq/_CoqProject from the .v files present, and the Makefile."""
    vs = []
    for root, _, files in os.walk(COQ):
        for f in sorted(files):
            if f.endswith(".v"):
                vs.append(os.path.relpath(os.path.join(root, f), COQ))
    vs.sort()
    text = "-Q . Scenic\n-arg -w -arg -notation-overridden,-deprecated-hint-without-locality,-deprecated-instance-without-locality\n" + "\n".join(vs) + "\n"
    p = os.path.join(COQ, "_CoqProject")
    old = open(p).read() if os.path.exists(p) else None
    if old != text or not os.path.exists(os.path.join(COQ, "Makefile")):
        with open(p, "w") as f:
            f.write(text)
        subprocess.run(["coq_makefile", "-f", "_CoqProject", "-o", "Makefile"], cwd=COQ, check=True,
                       capture_output=True)


def coq_closure(pid):
    """The .v files Properties/<pid>.v depends on inside the development (transitively)."""
    todo = [os.path.join(COQ, "Properties", pid + ".v")]
    seen = []
    while todo:
        p = todo.pop()
        if p in seen or not os.path.exists(p):
            continue
        seen.append(p)
        txt = open(p).read()
        for m in re.finditer(r"From\s+Scenic\s+Require\s+(?:Import\s+|Export\s+)?([\w.\s]+?)\.(?:\s|$)", txt):
            for mod in m.group(1).split():
                todo.append(os.path.join(COQ, *mod.split(".")) + ".v")
        for m in re.finditer(r"(?<!Scenic\s)Require\s+(?:Import\s+|Export\s+)?((?:Scenic\.[\w.]+\s*)+?)\.(?:\s|$)", txt):
            for mod in m.group(1).split():
                todo.append(os.path.join(COQ, *mod.split(".")[1:]) + ".v")
    return seen


def gate(pid=None):
    """The grep gate: no Admitted/admit/Axiom/Parameter/... in the development (restricted to the
    dependency closure of Properties/<pid>.v plus coq/<pid>/ when pid is given)."""
    bad = []
    only = None
    if pid:
        only = set(coq_closure(pid))
        for root, _, files in os.walk(os.path.join(COQ, pid)):
            only.update(os.path.join(root, f) for f in files if f.endswith(".v"))
    for root, _, files in os.walk(COQ):
        for f in files:
            if f.endswith(".v"):
                p = os.path.join(root, f)
                if only is not None and p not in only:
                    continue
                txt = open(p).read()
                # strip comments (non-nested is enough for the gate; nested handled by loop)
                prev = None
                while prev != txt:
                    prev = txt
                    txt = re.sub(r"\(\*(?:(?!\(\*|\*\)).)*\*\)", " ", txt, flags=re.S)
                for i, line in enumerate(txt.split("\n"), 1):
                    if re.search(GATE_RE, line):
                        bad.append(f"{os.path.relpath(p, VERIF)}:{i}: {line.strip()[:100]}")
    return bad


def build_coq(targets=None, timeout=3000, keep_going=False):
    """Full .vo build (never -vos) of the development, under a lock so that concurrent checks
    do not race.  Returns (ok, log)."""
    with locked("coq-build"):
        coq_project()
        cmd = ["make", "-j", str(NCPU)] + (["-k"] if keep_going else [])
        if targets:
            cmd += targets
        r = subprocess.run(["timeout", str(timeout)] + cmd, cwd=COQ, capture_output=True, text=True)
        return r.returncode == 0, (r.stdout + r.stderr)[-6000:]


def check_properties_file(pid, timeout=900):
    """Re-check coq/Properties/<pid>.v afresh with coqc; parse theorem count and assumptions.
    Returns dict(ok, obligations, discharged, assumptions(list), log)."""
    src = os.path.join(COQ, "Properties", pid + ".v")
    text = open(src).read()
    names = re.findall(r"^\s*(?:Theorem|Lemma|Corollary|Example)\s+([A-Za-z0-9_']+)", text, flags=re.M)
    with locked("coq-build"):
        r = subprocess.run(["timeout", str(timeout), "coqc", "-Q", ".", "Scenic", f"Properties/{pid}.v"],
                           cwd=COQ, capture_output=True, text=True)
    out = r.stdout + r.stderr
    ok = r.returncode == 0
    # Print Assumptions output: "Closed under the global context" or "Axioms:\n name : type"
    assumptions = set()
    closed = out.count("Closed under the global context")
    for m in re.finditer(r"^Axioms:\n((?:.+\n?)+?)(?=^\S|\Z)", out, flags=re.M):
        pass
    blocks = out.split("Axioms:")
    for b in blocks[1:]:
        for line in b.split("\n"):
            m = re.match(r"^([A-Za-z_][A-Za-z0-9_.']*)\s*:", line)
            if m:
                assumptions.add(m.group(1))
            elif line and not line.startswith(" ") and not m and line.strip() and not line.startswith("Closed"):
                # continuation lines of types are indented; an unindented non-matching line ends the block
                if re.match(r"^[A-Z]", line) and ":" not in line:
                    break
    return dict(ok=ok, obligations=len(names), discharged=len(names) if ok else 0, theorems=names,
                assumptions=sorted(assumptions), closed_count=closed, log=out[-4000:],
                checker_cmd=f"cd coq && coqc -Q . Scenic Properties/{pid}.v")


def build_ocaml(pid, timeout=600):
    """Extract coq/<pid>/Extract.v into ocaml/<pid>/ and build ocaml/<pid>/driver.
    Extract.v must `Cd`-lessly use `Separate Extraction`/`Extraction "model.ml"`; we run coqc
    with cwd=ocaml/<pid> so files land there."""
    d = os.path.join(OCAML, pid.lower())
    os.makedirs(d, exist_ok=True)
    with locked("ocaml-" + pid):
        ext = os.path.join(COQ, pid, "Extract.v")
        drv = os.path.join(d, "driver.ml")
        exe = os.path.join(d, "driver")
        srcs = [ext, drv, os.path.join(OCAML, "common", "zio.ml")]
        for root, _, files in os.walk(os.path.join(COQ, pid)):
            srcs += [os.path.join(root, f) for f in files if f.endswith(".v")]
        stamp = os.path.join(d, ".stamp")
        want = sha("".join(sha(open(s, "rb").read()) for s in sorted(set(srcs)) if os.path.exists(s)))
        if os.path.exists(exe) and os.path.exists(stamp) and open(stamp).read() == want:
            return exe
        r = subprocess.run(["timeout", str(timeout), "coqc", "-Q", COQ, "Scenic", ext, "-o", os.path.join(d, "Extract.vo")],
                           cwd=d, capture_output=True, text=True)
        if r.returncode != 0:
            raise RuntimeError("extraction failed:\n" + (r.stdout + r.stderr)[-3000:])
        import shutil
        shutil.copy(os.path.join(OCAML, "common", "zio.ml"), os.path.join(d, "zio.ml"))
        r = subprocess.run(["ocamlfind", "ocamlopt", "-w", "-a", "-inline", "50", "-package", "str", "-linkpkg",
                            "model.mli", "model.ml", "zio.ml", "driver.ml", "-o", "driver"],
                           cwd=d, capture_output=True, text=True)
        if r.returncode != 0:
            raise RuntimeError("ocaml build failed:\n" + (r.stdout + r.stderr)[-3000:])
        with open(stamp, "w") as f:
            f.write(want)
        return exe


def extraction_directives():
    out = []
    for root, _, files in os.walk(COQ):
        for f in files:
            if f.endswith(".v"):
                for line in open(os.path.join(root, f)):
                    if re.match(r"\s*(Extract |Extraction Language|Require Import Extr|From Coq Require Import Extr|Require Extraction)", line):
                        out.append(f"{f}: {line.strip()}")
    return sorted(set(out))


def run_driver(exe, lines, timeout=3000):
    """Feed newline-separated commands to an extracted-model driver; returns list of output lines."""
    inp = "\n".join(lines) + "\n"
    def _stack():
        import resource
        try:
            resource.setrlimit(resource.RLIMIT_STACK, (resource.RLIM_INFINITY, resource.RLIM_INFINITY))
        except Exception:
            pass
    r = subprocess.run([exe], input=inp, capture_output=True, text=True, timeout=timeout, preexec_fn=_stack)
    if r.returncode != 0:
        raise RuntimeError(f"driver failed rc={r.returncode}: {r.stderr[-2000:]}")
    out = r.stdout.split("\n")
    if out and out[-1] == "":
        out.pop()
    if len(out) != len(lines):
        raise RuntimeError(f"driver returned {len(out)} lines for {len(lines)} commands; stderr={r.stderr[-500:]}")
    return out


def run_coq_cases(name, text, timeout=900):
    """Kernel path: write gen/<name>.v, compile with coqc.  Returns (ok, output)."""
    os.makedirs(GEN, exist_ok=True)
    p = os.path.join(GEN, name + ".v")
    with open(p, "w") as f:
        f.write(text)
    r = subprocess.run(["timeout", str(timeout), "coqc", "-Q", COQ, "Scenic", "-Q", GEN, "Gen", p],
                       cwd=GEN, capture_output=True, text=True)
    return r.returncode == 0, r.stdout + r.stderr


def run_impl(script, payload, timeout=3000, hashseed="0", extra_env=None, args=()):
    """Run harness/<script> inside the venv interpreter with Scenic from REPO; JSON in, JSON out."""
    r = subprocess.run([PY, os.path.join(VERIF, "harness", script), *args], input=json.dumps(payload),
                       capture_output=True, text=True, timeout=timeout, env=impl_env(hashseed, extra_env),
                       cwd=WORK if os.path.isdir(WORK) else VERIF)
    if r.returncode != 0:
        raise RuntimeError(f"{script} failed rc={r.returncode}:\n{r.stderr[-4000:]}")
    # last line of stdout is the JSON result (Scenic may print warnings before it)
    lines = [l for l in r.stdout.split("\n") if l.strip()]
    return json.loads(lines[-1])


# ----------------------------------------------------------------------------- results
class Check:
    """Collects what a run covered and decides the exit status."""

    def __init__(self, pid, level, argv=None):
        import argparse
        ap = argparse.ArgumentParser()
        ap.add_argument("--tier", default=os.environ.get("VERIF_TIER", "quick"), choices=["quick", "thorough"])
        ap.add_argument("--replay", default=None)
        a = ap.parse_args(argv)
        self.pid, self.level, self.tier, self.replay = pid, level, a.tier, a.replay
        self.seed = int(os.environ.get("VERIF_SEED", "0"))
        self.rng = random.Random(f"{pid}-{self.seed}")
        self.t0 = time.time()
        self.cov = dict(evaluations=0, distinct_nontrivial=0, rule="", samples=[], obligations=0, discharged=0,
                        checker_cmd="", trusted_base=[], traces_validated_against_impl=0,
                        disagreements_checked=0, histogram={})
        self._distinct = set()
        self.violations = []   # (kind, what, replay-dict)
        self.known = []
        self.assumptions = []
        os.makedirs(EVID, exist_ok=True)
        os.makedirs(REPLAYS, exist_ok=True)
        os.makedirs(WORK, exist_ok=True)
        self.findings = load_known_findings().get(pid, [])

    # -- coverage bookkeeping
    def count(self, case_key=None, nontrivial=False, n=1):
        self.cov["evaluations"] += n
        if nontrivial and case_key is not None:
            self._distinct.add(sha(json.dumps(case_key, sort_keys=True, default=str))[:16])

    def hist(self, key, n=1):
        h = self.cov["histogram"]
        h[key] = h.get(key, 0) + n

    def sample(self, s, limit=6):
        if len(self.cov["samples"]) < limit:
            self.cov["samples"].append(s)

    # -- proof layer
    def proofs(self):
        """make the development, gate it, re-check Properties/<pid>.v."""
        ok, log = build_coq(targets=[f"Properties/{self.pid}.vo"])
        if not ok:
            self.violation("proof-build", "the Coq development (dependencies of this property) no longer builds", dict(log=log), no_input=True)
            return False
        bad = gate(self.pid)
        if bad:
            self.violation("gate", "forbidden construct in the development", dict(lines=bad), no_input=True)
            return False
        r = check_properties_file(self.pid)
        self.cov["obligations"] = r["obligations"]
        self.cov["discharged"] = r["discharged"]
        self.cov["checker_cmd"] = r["checker_cmd"]
        self.cov["theorems"] = r["theorems"]
        tb = ["Coq 8.16.1 kernel (coqc, vm_compute; no native_compute)"]
        if r["assumptions"]:
            tb += ["axiom: " + a for a in r["assumptions"]]
        else:
            tb.append("Print Assumptions: Closed under the global context (no axioms) for every property theorem")
        self.cov["trusted_base"] = tb
        if not r["ok"]:
            self.violation("proof", f"coqc Properties/{self.pid}.v fails: a proof obligation no longer checks",
                           dict(log=r["log"]), no_input=True)
            return False
        return True

    # -- verdicts
    def violation(self, kind, what, replay, no_input=False):
        """Record a violation unless a known finding explains it (matchers get the replay dict)."""
        for f in self.findings:
            if f.get("status") == "fixed":
                continue
            try:
                if match_finding(f, kind, replay):
                    if f["id"] not in [k["id"] for k in self.known]:
                        self.known.append(f)
                    return False
            except Exception:
                pass
        self.violations.append((kind, what, replay, no_input))
        return True

    def finish(self, explanation=None, extra=None):
        self.cov["distinct_nontrivial"] = len(self._distinct)
        if explanation:
            self.cov["explanation"] = explanation
        if extra:
            self.cov.update(extra)
        self.cov["repo"] = repo_head()
        self.cov["extraction_directives"] = extraction_directives()
        for f in self.known:
            print(f"KNOWN-FINDING: property={self.pid} {f['what']}")
        # group violations: one VIOLATION line per kind (first concrete input wins)
        printed = 0
        seen_kinds = set()
        for kind, what, replay, no_input in self.violations:
            if kind in seen_kinds:
                continue
            seen_kinds.add(kind)
            body = dict(property=self.pid, kind=kind, what=what, seed=self.seed, tier=self.tier, case=replay)
            name = f"{self.pid}-{kind}-{sha(json.dumps(body, sort_keys=True, default=str))[:10]}.json"
            path = os.path.join(REPLAYS, name)
            with open(path, "w") as f:
                json.dump(body, f, indent=1, default=str)
            line = f"VIOLATION property={self.pid} replay={path}"
            if no_input:
                line += " no-failing-input-found"
            print(line)
            print(f"  ({kind}: {what})")
            printed += 1
        ev = dict(property_id=self.pid, tier=self.tier, seed=self.seed, level=self.level, coverage=self.cov,
                  assumptions=self.assumptions, wall_s=round(time.time() - self.t0, 2),
                  violations=len(self.violations))
        with open(os.path.join(EVID, self.pid + os.environ.get("VERIF_EVID_SUFFIX", "") + ".json"), "w") as f:
            json.dump(ev, f, indent=1, default=str)
        print(f"{self.pid} {self.tier}: evaluations={self.cov['evaluations']} distinct_nontrivial={self.cov['distinct_nontrivial']} "
              f"obligations={self.cov['obligations']}/{self.cov['discharged']} known={len(self.known)} "
              f"violations={len(self.violations)} wall={ev['wall_s']}s")
        sys.exit(1 if self.violations else 0)


def load_known_findings():
    p = os.path.join(VERIF, "known_findings.json")
    if not os.path.exists(p):
        return {}
    data = json.load(open(p))
    out = {}
    for f in data.get("findings", []):
        out.setdefault(f["property"], []).append(f)
    return out


def match_finding(f, kind, replay):
    """A finding matches a failing case structurally: f['match'] is a dict of
    {"kind": <violation kind>, "all": [[path, op, value], ...]} evaluated on the replay dict.
    ops: eq, contains, in, regex, true."""
    m = f.get("match", {})
    if "kind" in m and m["kind"] != kind:
        return False
    for path, op, value in m.get("all", []):
        cur = replay
        for part in path.split("."):
            if isinstance(cur, dict):
                cur = cur.get(part)
            else:
                return False
        if op == "eq" and cur != value:
            return False
        if op == "contains" and (cur is None or value not in cur):
            return False
        if op == "in" and cur not in value:
            return False
        if op == "regex" and (cur is None or not re.search(value, str(cur))):
            return False
        if op == "true" and not cur:
            return False
    return True
