"""Runs inside /venv python with Scenic from $VERIF_REPO.  Reads {"programs": [{name, src, seed}]} on
stdin; compiles each program with the real front end, generates one scene and reports what the
implementation did: pose, dimensions and corners of every object (keyed by its `vid` property) and the
value of every global parameter.  One JSON result on stdout (last line)."""
import json
import random
import sys
import traceback
import warnings

warnings.filterwarnings("ignore")

import numpy

import scenic
from scenic.core.object_types import Object, OrientedPoint, Point
from scenic.core.vectors import Orientation, Vector


def fl(x):
    return float(x)


def vec(v):
    return [fl(c) for c in v]


def pose(p):
    d = dict(pos=vec(p.position))
    if isinstance(p, OrientedPoint):
        d.update(q=vec(p.orientation.q), pq=vec(p.parentOrientation.q),
                 ypr=[fl(p.yaw), fl(p.pitch), fl(p.roll)], heading=fl(p.heading))
    if isinstance(p, Object):
        d.update(dims=[fl(p.width), fl(p.length), fl(p.height)], ct=fl(p.contactTolerance), base=vec(p.baseOffset),
                 corners=[vec(c) for c in p.corners])
    return d


def conv(v):
    if isinstance(v, Point):
        return pose(v)
    if isinstance(v, Vector):
        return dict(v=vec(v))
    if isinstance(v, Orientation):
        return dict(q=vec(v.q))
    if isinstance(v, (bool, str)) or v is None:
        return v
    if isinstance(v, (int, float, numpy.generic)):
        return fl(v)
    if isinstance(v, (tuple, list)):
        return [conv(x) for x in v]
    return "<" + type(v).__name__ + ">"


def run(job):
    out = dict(name=job["name"])
    try:
        random.seed(job["seed"])
        numpy.random.seed(job["seed"])
        scenario = scenic.scenarioFromString(job["src"], mode2D=False)
        scene, _ = scenario.generate(maxIterations=job.get("maxIterations", 5), verbosity=0)
        objs = {}
        for o in scene.objects:
            vid = getattr(o, "vid", None)
            if vid is not None:
                objs[str(vid)] = pose(o)
        out["objects"] = objs
        out["params"] = {k: conv(v) for k, v in scene.params.items()}
    except Exception as e:
        out["error"] = type(e).__name__ + ": " + str(e)[:300]
        out["trace"] = traceback.format_exc()[-1500:]
    return out


def main():
    job = json.load(sys.stdin)
    res = [run(p) for p in job["programs"]]
    print(json.dumps(dict(results=res)))


if __name__ == "__main__":
    main()
