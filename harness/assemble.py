"""Assemble MANIFEST.json and known_findings.json from the per-property fragments
manifest.d/Cnn.json and known_findings.d/Cnn.json (so that properties can be worked on
independently).  Unclaimed properties are listed under not_applicable with their reason from
manifest.d/not_claimed.json."""
import fcntl
import json
import os

V = os.path.dirname(os.path.dirname(os.path.abspath(__file__)))


def main():
    os.makedirs(os.path.join(V, "work"), exist_ok=True)
    with open(os.path.join(V, "work", "assemble.lock"), "w") as lk:
        fcntl.flock(lk, fcntl.LOCK_EX)
        ids = ["C%02d" % i for i in range(1, 21)]
        checks = []
        for i in ids:
            p = os.path.join(V, "manifest.d", i + ".json")
            if os.path.exists(p):
                try:
                    frag = json.load(open(p))
                    assert frag["property_id"] == i
                    for k in ("quick_cmd", "evidence_file", "level_claimed", "level_note"):
                        assert k in frag, k
                    assert frag["level_claimed"]["category"] in ("exploration", "fault_enumeration", "model_checking", "proof", "translation_validation", "other"), "bad category " + str(frag["level_claimed"].get("category"))
                    assert "text" in frag["level_claimed"]
                    checks.append(frag)
                except Exception as e:  # an invalid fragment must never make MANIFEST.json invalid
                    print("SKIPPING invalid fragment", p, repr(e))
        claimed = [c["property_id"] for c in checks]
        reasons = {}
        p = os.path.join(V, "manifest.d", "not_claimed.json")
        if os.path.exists(p):
            reasons = json.load(open(p))
        na = [dict(property_id=i, reason=reasons.get(i, "no check registered yet: model and correspondence for this property are designed in DESIGN.md section 4 but not built")) for i in ids if i not in claimed]
        man = {
            "version": 1,
            "setup_cmd": "cd /verif && /venv/bin/python harness/setup.py",
            "hooks": {
                "guard": "SCENIC_VERIF",
                "enable": "no source hooks are needed: checks observe Scenic through public APIs, subclassing and monkey-patching from the harness process (the harness exports SCENIC_VERIF=1 for any future guarded hook)",
                "baseline_off_cmd": "cd /repo && /venv/bin/python -m pytest -ra -q -p no:cacheprovider --timeout=900 --continue-on-collection-errors",
                "source_commits": [],
                "add_only": True,
            },
            "engines": [
                {"name": "coq", "path": "coq/", "serves_properties": claimed, "kind_free_text": "Coq 8.16.1 development: executable Gallina models (coq/Cnn/), lemmas, property theorems in coq/Properties/Cnn.v re-checked by coqc on every run"},
                {"name": "extracted-models", "path": "ocaml/", "serves_properties": claimed, "kind_free_text": "models extracted with ExtrOcamlBasic and driven line by line, or evaluated by vm_compute in generated gen/*.v files, for the differential correspondence against /repo"},
                {"name": "harness", "path": "harness/", "serves_properties": claimed, "kind_free_text": "Python orchestration: generators, implementation drivers run with PYTHONPATH=/repo/src, diffing, property oracles, evidence"},
            ],
            "checks": checks,
            "not_applicable": na,
            "notes": "See DESIGN.md. Fragments in manifest.d/ and known_findings.d/ are assembled by harness/assemble.py.",
        }
        tmp = os.path.join(V, "MANIFEST.json.tmp")
        json.dump(man, open(tmp, "w"), indent=1)
        os.replace(tmp, os.path.join(V, "MANIFEST.json"))
        findings, fixed = [], []
        d = os.path.join(V, "known_findings.d")
        for f in sorted(os.listdir(d)):
            if f.endswith(".json"):
                k = json.load(open(os.path.join(d, f)))
                findings += k.get("findings", [])
                fixed += k.get("fixed", [])
        out = {"comment": "Genuine defects of BerkeleyLearnVerify/Scenic recorded (not repaired) or repaired by a fix: commit. Committed; never written at run time (assembled from known_findings.d/ by harness/assemble.py when a finding is added by hand). 'match' is a structural matcher over the failing case (harness/common.py match_finding); entries under 'fixed' suppress nothing.",
               "findings": findings, "fixed": fixed}
        tmp = os.path.join(V, "known_findings.json.tmp")
        json.dump(out, open(tmp, "w"), indent=1)
        os.replace(tmp, os.path.join(V, "known_findings.json"))
        print("claimed:", claimed)


if __name__ == "__main__":
    main()
