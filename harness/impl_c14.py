"""C14 implementation driver: runs generated dynamic programs on the real Scenic with a fault
injected at a chosen point, logs every write/override/scenario start/stop in execution order with a
snapshot of what the objects read, and snapshots the scene and the veneer's globals afterwards."""
import builtins
import json
import random
import sys
import traceback
import warnings

warnings.filterwarnings("ignore")
import numpy

import scenic
from scenic.core.simulators import DummySimulation, DummySimulator
from scenic.core.vectors import Vector
import scenic.syntax.veneer as veneer

PROPS = ["foo", "bar", "baz"]
LOG = []
builtins.VERIF_C14_LOG = LOG


def snap_objs(objs):
    return [[getattr(o, p) for p in PROPS] + [o.position.y] for o in objs]


class Injected(Exception):
    pass


class FaultySimulation(DummySimulation):
    fault = None  # (where, step)

    def __init__(self, scene, fault=None, **kw):
        self.fault = fault
        self._nstep = 0
        super().__init__(scene, **kw)

    def _maybe(self, where):
        if self.fault and self.fault[0] == where and self._nstep >= self.fault[1]:
            raise Injected(where)

    def createObjectInSimulator(self, obj):
        if self.fault and self.fault[0] == "create" and len(self.objects) - 1 == self.fault[1] % 2:
            # a simulator interface that has already written properties of the object when it fails
            obj.foo = 555
            obj.position = Vector(obj.position.x, 7, 0)
            raise Injected("create")
        return super().createObjectInSimulator(obj)

    def executeActions(self, allActions):
        self._maybe("actions")
        return super().executeActions(allActions)

    def step(self):
        self._maybe("step")
        cur = snap_objs(self.objects[:2])
        super().step()
        self._nstep += 1
        # the simulator's write of a dynamic property, as seen through the objects (one write per object)
        for i, o in enumerate(self.objects[:2]):
            cur[i][3] = o.position.y
            LOG.append(["W", i, 3, o.position.y, [list(r) for r in cur]])

    def getProperties(self, obj, properties):
        self._maybe("readback")
        return super().getProperties(obj, properties)


class FaultySimulator(DummySimulator):
    def __init__(self, fault=None, drift=1.0):
        super().__init__(drift=drift)
        self.fault = fault

    def createSimulation(self, scene, **kwargs):
        return FaultySimulation(scene, fault=self.fault, drift=self.drift, **kwargs)


def veneer_state():
    return dict(active=veneer.isActive(), sim=veneer.currentSimulation is None, scen=veneer.currentScenario is None,
                running=len(veneer.runningScenarios), beh=veneer.currentBehavior is None,
                params=len(veneer._globalParameters), evalreq=bool(veneer.evaluatingRequirement),
                stack=len(veneer.scenarioStack), inprogress=veneer.simulationInProgress())


def result_canon(sim):
    if sim is None:
        return None
    r = sim.result
    return dict(traj=[[list(map(float, p)) for p in st.positions] for st in r.trajectory],
                actions=[[[repr(a) for a in acts] for acts in step.values()] for step in r.actions],
                term=str(r.terminationType), records={k: repr(v) for k, v in r.records.items()})


def run_program(job):
    del LOG[:]
    out = dict(name=job["name"])
    random.seed(job["seed"])
    numpy.random.seed(job["seed"])
    try:
        scenario = scenic.scenarioFromString(job["src"], scenario="Main")
        scene, _ = scenario.generate(maxIterations=50)
    except BaseException as e:
        out["skip"] = "compile/generate: " + type(e).__name__ + ": " + str(e)[:300]
        out["veneer_after"] = veneer_state()
        return out
    before = snap_objs(scene.objects[:2])
    allprops_before = scene_props(scene)
    fault = job.get("sim_fault")
    simulator = FaultySimulator(fault=fault)
    random.seed(job["seed"] + 1)
    try:
        sim = simulator.simulate(scene, maxSteps=job.get("steps", 8), maxIterations=1,
                                 raiseGuardViolations=job.get("raise_guard", True))
        out["outcome"] = "rejected" if sim is None else "completed"
        out["result"] = result_canon(sim)
    except BaseException as e:
        out["outcome"] = "exception:" + type(e).__name__
        out["exc"] = str(e)[:200]
        sim = None
    out["log"] = list(LOG)
    out["before"] = before
    out["after"] = snap_objs(scene.objects[:2])
    out["allprops_equal"] = scene_props(scene) == allprops_before
    if not out["allprops_equal"]:
        a = scene_props(scene)
        out["allprops_diff"] = [[i, k, repr(allprops_before[i].get(k)), repr(a[i].get(k))] for i in range(len(a)) for k in a[i] if a[i].get(k) != allprops_before[i].get(k)][:10]
    out["veneer_after"] = veneer_state()
    # re-running with the same seed gives the same result
    if job.get("rerun", True):
        del LOG[:]
        random.seed(job["seed"] + 1)
        try:
            sim2 = FaultySimulator(fault=fault).simulate(scene, maxSteps=job.get("steps", 8), maxIterations=1,
                                                         raiseGuardViolations=job.get("raise_guard", True))
            out["rerun_outcome"] = "rejected" if sim2 is None else "completed"
            out["rerun_equal"] = result_canon(sim2) == out.get("result")
        except BaseException as e:
            out["rerun_outcome"] = "exception:" + type(e).__name__
            out["rerun_equal"] = True
        out["rerun_log_equal"] = [l[:4] for l in LOG] == [l[:4] for l in out["log"]]
        out["after2"] = snap_objs(scene.objects[:2])
    return out


def scene_props(scene):
    res = []
    for o in scene.objects:
        d = {}
        for p in sorted(o.properties):
            try:
                v = getattr(o, p)
                d[p] = repr(v) if not isinstance(v, (int, float, str, bool, type(None))) else v
            except Exception as e:
                d[p] = "<err>"
        res.append(d)
    return res


def run_probe(job):
    """A fixed probe program: compile, generate, simulate; canonical output."""
    random.seed(job["seed"])
    numpy.random.seed(job["seed"])
    del LOG[:]
    try:
        scenario = scenic.scenarioFromString(job["src"], scenario="Main")
        scene, its = scenario.generate(maxIterations=50)
        sim = DummySimulator(drift=1.0).simulate(scene, maxSteps=job.get("steps", 6), maxIterations=1)
        return dict(its=its, scene=snap_objs(scene.objects[:2]), result=result_canon(sim), log=[l[:4] for l in LOG])
    except BaseException as e:
        return dict(error=type(e).__name__ + ": " + str(e)[:200])


def main():
    job = json.load(sys.stdin)
    outs = []
    for p in job["programs"]:
        try:
            if p.get("probe"):
                outs.append(dict(name=p["name"], probe=run_probe(p), veneer_after=veneer_state()))
            else:
                outs.append(run_program(p))
        except BaseException:
            outs.append(dict(name=p["name"], crash=traceback.format_exc()[-1500:]))
    print(json.dumps(dict(results=outs)))


if __name__ == "__main__":
    main()
