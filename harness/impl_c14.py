"""C14 implementation driver: runs generated dynamic programs on the real Scenic with a fault
injected at a chosen point, logs every write/override/scenario start (with the identity of the
scenario that veneer.currentScenario designates) in execution order together with the set of running
scenarios and a snapshot of what the objects and the behaviours' globals read, and snapshots the
scene and the interpreter's global state afterwards."""
import builtins
import hashlib
import importlib
import json
import os
import random
import re
import signal
import sys
import traceback
import types
import warnings

warnings.filterwarnings("ignore")
import numpy

import scenic
from scenic.core.simulators import Action, DummySimulation, DummySimulator, Simulation
from scenic.core.vectors import Vector
import scenic.core.object_types as object_types
import scenic.syntax.veneer as veneer

PROPS = ["foo", "bar", "baz"]
NP = 5  # foo, bar, baz, position.y, behaviour id
NOBJ = 3  # two scene objects + the first object created during the run
BEH_ID = {"B": 1, "B2": 2}


def intval(v):
    if isinstance(v, bool) or not isinstance(v, (int, float)):
        return -1
    return v


def obj_row(o):
    b = o.behavior
    return [intval(getattr(o, p)) for p in PROPS] + [o.position.y, 0 if b is None else BEH_ID.get(type(b).__name__, 9)]


class Abort(BaseException):
    """a KeyboardInterrupt-like exception"""


class API:
    """What the generated programs call (exposed through builtins.VERIF_C14)."""

    Abort = Abort

    def __init__(self):
        self.reset(None, 0)

    flag = 0

    def FLAG_(self):
        return self.flag

    def reset(self, scene, run):
        self.log = []
        self.run = run
        self.scene = scene
        self.sids = {}
        self.keep = []
        self.dyn = []
        if scene is not None:
            self.sid(scene.dynamicScenario)

    def RUN_(self):
        return self.run

    def sid(self, sc):
        if id(sc) not in self.sids:
            self.sids[id(sc)] = len(self.sids)
            self.keep.append(sc)
        return self.sids[id(sc)]

    def cur_(self):
        return self.sid(veneer.currentScenario)

    def objs_(self):
        return veneer.currentSimulation.objects

    def idx_(self, o):
        for i, x in enumerate(veneer.currentSimulation.objects):
            if x is o or object.__getattribute__(x, "_dynamicProxy") is o:
                return i
        raise ValueError("object not in simulation")

    def snapshot(self, ns):
        objs = veneer.currentSimulation.objects[:NOBJ]
        rows = [obj_row(o) for o in objs]
        while len(rows) < NOBJ:
            rows.append([0] * NP)
        rows.append(ns_row(ns))
        return rows

    def rec_(self, ns, kind, *args, snap=None):
        if veneer.currentSimulation is None:
            return 0
        alive = [self.sid(s) for s in veneer.runningScenarios]
        self.log.append([kind, *args, alive, snap if snap is not None else self.snapshot(ns)])
        return 0

    def now(self):
        return veneer.currentSimulation.currentTime if veneer.currentSimulation else -1

    def boom_(self, t):
        if veneer.currentSimulation is not None and veneer.currentSimulation.currentTime >= t:
            raise RuntimeError("injected in expression")
        return 0

    def boomc_(self):
        raise RuntimeError("injected at compile time")

    def rej_(self, t):
        from scenic.core.dynamics.utils import RejectSimulationException

        if veneer.currentSimulation is not None and veneer.currentSimulation.currentTime >= t:
            raise RejectSimulationException("injected rejection")
        return 0


class SetAct(Action):
    """an action writing a property of the agent through Action.applyTo"""

    def __init__(self, ns, p, x, fail=False):
        self.ns, self.p, self.x, self.fail = ns, p, x, fail

    def applyTo(self, agent, sim):
        if self.fail:
            raise RuntimeError("injected in applyTo")
        setattr(agent, PROPS[self.p], self.x)
        A.rec_(self.ns, "W", A.idx_(agent), self.p, self.x)

    def __repr__(self):
        return f"SetAct({self.p}, {self.x})"


A = API()
A.SetAct = SetAct
builtins.VERIF_C14 = A


def ns_row(ns):
    return [intval(ns.get("G0")), intval(ns.get("G1"))] + [0] * (NP - 2)


class Injected(Exception):
    pass


class FaultySimulation(DummySimulation):
    fault = None  # (where, step)

    def __init__(self, scene, fault=None, ns=None, **kw):
        self.fault = fault
        self._nstep = 0
        self._ns = ns or {}
        super().__init__(scene, **kw)

    def _maybe(self, where):
        if self.fault and self.fault[0] == where and self._nstep >= self.fault[1]:
            raise Injected(where)

    def createObjectInSimulator(self, obj):
        self._ncreate = getattr(self, "_ncreate", 0) + 1
        if self.fault and self.fault[0] == "create" and self._ncreate - 1 == self.fault[1] % 3:
            # a simulator interface that has already written properties of the object when it fails
            obj.foo = 555
            obj.position = Vector(obj.position.x, 7, 0)
            raise Injected("create")
        return super().createObjectInSimulator(obj)

    def executeActions(self, allActions):
        self._maybe("actions")
        for agent, actions in allActions.items():
            for action in actions:
                if isinstance(action, Action):
                    action.applyTo(agent, self)

    def step(self):
        self._maybe("step")
        cur = A.snapshot(self._ns)
        super().step()
        self._nstep += 1
        # the simulator's write of a dynamic property, as seen through the objects (one write per object)
        for i, o in enumerate(self.objects[:NOBJ]):
            cur[i][3] = o.position.y
            A.rec_(self._ns, "W", i, 3, o.position.y, snap=[list(r) for r in cur])

    def getProperties(self, obj, properties):
        self._maybe("readback")
        return super().getProperties(obj, properties)


class FaultySimulator(DummySimulator):
    def __init__(self, fault=None, drift=1.0, ns=None):
        super().__init__(drift=drift)
        self.fault = fault
        self.ns = ns

    def createSimulation(self, scene, **kwargs):
        return FaultySimulation(scene, fault=self.fault, ns=self.ns, drift=self.drift, **kwargs)


def canon(v, depth=0):
    """process-independent description of a module-level value"""
    if v is None or isinstance(v, (bool, int, float, str)):
        return v
    if isinstance(v, type):
        return "class " + v.__module__ + "." + v.__qualname__
    if isinstance(v, (list, tuple)):
        return [type(v).__name__, len(v)] + ([canon(x, depth + 1) for x in v] if depth < 2 and len(v) <= 8 else [])
    if isinstance(v, (set, frozenset)):
        return [type(v).__name__, len(v), sorted(repr(canon(x, 2)) for x in v)[:8]]
    if isinstance(v, dict):
        return ["dict", len(v), sorted(str(k) for k in v)[:8]]
    return "<" + type(v).__module__ + "." + type(v).__name__ + ">"


SKIP_TYPES = (types.FunctionType, types.BuiltinFunctionType, types.ModuleType, types.MethodType)


def module_state(mod, classes=False):
    d = {}
    for k, v in vars(mod).items():
        if k.startswith("__") or isinstance(v, SKIP_TYPES):
            continue
        if isinstance(v, type) and not classes:
            continue
        d[k] = canon(v)
    return d


def veneer_state():
    """EVERY module-level name of scenic.syntax.veneer that is not a function/module (classes are
    recorded by qualified name: Point/OrientedPoint/Object are swapped in 2D mode), plus the other
    places where the interpreter keeps global state."""
    import scenic.core.dynamics as dynamics
    import scenic.core.errors as errors
    import scenic.syntax.translator as translator

    st = dict(veneer=module_state(veneer, classes=True))
    st["object_types"] = {k: canon(getattr(object_types, k)) for k in ("Point", "OrientedPoint", "Object")}
    st["dynamics"] = module_state(dynamics)
    st["errors"] = {k: v for k, v in module_state(errors).items() if isinstance(v, (bool, int, type(None)))}
    st["translator"] = {k: v for k, v in module_state(translator).items() if isinstance(v, (bool, int, type(None), list))}
    st["scenic_modules"] = sorted(n for n, m in sys.modules.items() if isinstance(m, translator.ScenicModule))
    st["verif_modules"] = sorted(n for n in sys.modules if n.startswith("verif_c14"))
    st["sigalrm"] = repr(signal.getsignal(signal.SIGALRM))
    st["sys_path_len"] = len(sys.path)
    st["meta_path"] = [type(f).__name__ if not isinstance(f, type) else f.__name__ for f in sys.meta_path]
    st["inprogress"] = veneer.simulationInProgress()
    st["active"] = veneer.isActive()
    return st


def result_canon(sim):
    if sim is None:
        return None
    r = sim.result
    return dict(traj=[[list(map(float, p)) for p in st.positions] for st in r.trajectory],
                actions=[[[repr(a) for a in acts] for acts in step.values()] for step in r.actions],
                term=str(r.terminationType), records={k: repr(v) for k, v in r.records.items()})


def find_ns(scene):
    for modName, (namespace, sampledNS, originalNS) in scene.behaviorNamespaces.items():
        if "G0" in namespace:
            return namespace, sampledNS
    return {}, {}


def scene_snapshot(scene, ns):
    rows = [obj_row(o) for o in scene.objects[:2]]
    rows.append(obj_row(A.dyn[0]) if A.dyn else [0] * NP)
    rows.append(ns_row(ns))
    return rows


def one_run(scene, job, run, ns, fault, seed, flag=0, timestep=None, steps=None):
    A.reset(scene, run)
    A.flag = flag
    random.seed(seed)
    numpy.random.seed(seed)
    out = {}
    out["before"] = scene_snapshot(scene, ns)
    kw = {} if timestep is None else dict(timestep=timestep)
    try:
        sim = FaultySimulator(fault=fault, ns=ns).simulate(scene, maxSteps=steps if steps is not None else job.get("steps", 8), maxIterations=1,
                                                          raiseGuardViolations=job.get("raise_guard", True), **kw)
        out["outcome"] = "rejected" if sim is None else "completed"
        out["result"] = result_canon(sim)
        if sim is not None:
            out["time"] = sim.currentTime
    except BaseException as e:
        out["outcome"] = "exception:" + type(e).__name__
        out["exc"] = str(e)[:200]
    out["log"] = list(A.log)
    out["after"] = scene_snapshot(scene, ns)
    A.flag = 0
    return out


def summary(r):
    """(the raw module namespace between simulations - last row of before/after - is left out: requirement closures bind the
    globals they mention to the sample of the scene generated LAST, restored only for the duration of a simulation)
    what a run shows to its user, for the later-use oracle (k-th run of a history == the same run after a fresh
    compilation in a fresh process): outcome class, termination, final time, records, digest of result and log"""
    res = r.get("result") or {}
    blob = json.dumps([r["outcome"], re.sub(r"0x[0-9a-f]+", "0x", r.get("exc", "")), res, r.get("time"), r["log"], r["before"][:-1], r["after"][:-1]], sort_keys=True)
    out = dict(outcome=r["outcome"], term=res.get("term"), time=r.get("time"), records=res.get("records"), nlog=len(r["log"]),
               digest=hashlib.sha1(blob.encode()).hexdigest()[:16])
    if os.environ.get("VERIF_C14_DEBUG"):
        out["blob"] = blob
    return out


RUNS_DEFAULT = [dict(scene=0, run=0, seed_off=1), dict(scene=0, run=0, seed_off=1), dict(scene=0, run=1, seed_off=2)]


class Compiled:
    """one compilation of a job's program and the scenes generated from it (by scene index, lazily, each with its own seed)"""

    def __init__(self, job):
        self.job = job
        random.seed(job["seed"])
        numpy.random.seed(job["seed"])
        self.scenario = compile_job(job)
        self.scenes = {}

    def scene(self, k):
        if k not in self.scenes:
            random.seed(self.job["seed"] + 7919 * k)
            numpy.random.seed(self.job["seed"] + 7919 * k)
            scene, _ = self.scenario.generate(maxIterations=50)
            self.scenes[k] = (scene,) + tuple(find_ns(scene))
        return self.scenes[k]

    def simulate(self, spec):
        scene, ns, sampled = self.scene(spec.get("scene", 0))
        return one_run(scene, self.job, spec.get("run", 0), ns, self.job.get("sim_fault"), self.job["seed"] + spec.get("seed_off", 1),
                       flag=spec.get("flag", 0), timestep=spec.get("ts"), steps=spec.get("steps"))


def start_guard_violation(spec, r):
    return bool(spec.get("flag")) and not r["log"] and r["outcome"] in ("rejected", "exception:PreconditionViolation", "exception:InvariantViolation")


def run_reference(job):
    """reference for the later-use oracle over histories: `ref_plan` = list of run-index lists; each list is made from a NEW
    compilation, its first run is therefore the run as a fresh compilation makes it (`fresh`), the following ones have a
    history different from the one under test (`other`)"""
    out = dict(name=job["name"], ref={})
    specs = job.get("runs", RUNS_DEFAULT)
    for order in job.get("ref_plan", [[k] for k in range(len(specs))]):
        A.reset(None, 0)
        comp = None
        for pos, k in enumerate(order):
            key = json.dumps(specs[k], sort_keys=True)
            try:
                if comp is None:
                    comp = Compiled(job)
                res = summary(comp.simulate(specs[k]))
            except BaseException as e:
                res = dict(error=type(e).__name__ + ": " + str(e)[:200])
            out["ref"].setdefault(key, []).append(dict(res=res, fresh=pos == 0))
    return out


def compile_job(job):
    kw = {}
    if job.get("mode2D"):
        kw["mode2D"] = True
    if job.get("params"):
        kw["params"] = job["params"]
    if job.get("file"):
        d = os.path.join(os.environ.get("VERIF_C14_TMP", "/tmp"), f"verif_c14_{os.getpid()}")
        os.makedirs(d, exist_ok=True)
        for name, text in job["file"].items():
            with open(os.path.join(d, name), "w") as f:
                f.write(text)
        importlib.invalidate_caches()
        return scenic.scenarioFromFile(os.path.join(d, job["main"]), scenario=job.get("scenario", "Main"), **kw)
    return scenic.scenarioFromString(job["src"], scenario=job.get("scenario", "Main"), **kw)


def run_program(job):
    out = dict(name=job["name"])
    A.reset(None, 0)
    try:
        comp = Compiled(job)
        scene, ns, sampled = comp.scene(0)
    except BaseException as e:
        out["skip"] = "compile/generate: " + type(e).__name__ + ": " + str(e)[:300]
        out["veneer_after"] = veneer_state()
        return out
    out["gs"] = ns_row(sampled)
    allprops_before = scene_props(scene)
    specs = job.get("runs", RUNS_DEFAULT)
    hist = []
    out["hist"] = hist
    # run 1; run 2 = the same scene with the same seed and options (re-run equality); run 3 = the same scene taking a
    # different course (the program reads RUN()), other timestep / maxSteps
    r1 = comp.simulate(specs[0])
    hist.append(summary(r1))
    out.update(r1)
    out["allprops_equal"] = scene_props(scene) == allprops_before
    if not out["allprops_equal"]:
        a = scene_props(scene)
        out["allprops_diff"] = [[i, k, repr(allprops_before[i].get(k)), repr(a[i].get(k))] for i in range(len(a)) for k in a[i] if a[i].get(k) != allprops_before[i].get(k)][:10]
    out["veneer_after"] = veneer_state()
    r2 = comp.simulate(specs[1])
    hist.append(summary(r2))
    out["rerun_outcome"] = r2["outcome"]
    out["rerun_equal"] = r2.get("result") == r1.get("result")
    out["rerun_log_equal"] = r2["log"] == r1["log"]
    out["after2"] = r2["after"]
    r3 = comp.simulate(specs[2])
    hist.append(summary(r3))
    out["run3"] = dict(log=r3["log"], before=r3["before"], after=r3["after"], outcome=r3["outcome"])
    out["allprops_equal3"] = scene_props(scene) == allprops_before
    out["veneer_after3"] = veneer_state()
    # the rest of the history: fresh scenes of the SAME compiled scenario and the first scene again, with other
    # timesteps / maxSteps / guard outcomes; every run is compared (by the orchestrator) with the same run made from
    # a fresh compilation in another process
    prev_spec, prev = specs[2], r3
    props = {0: allprops_before}
    for spec in specs[3:]:
        k = spec.get("scene", 0)
        try:
            sc_k = comp.scene(k)[0]
        except BaseException as e:
            hist.append(dict(error="generate: " + type(e).__name__ + ": " + str(e)[:200]))
            continue
        props.setdefault(k, scene_props(sc_k))
        r = comp.simulate(spec)
        h = summary(r)
        if r["outcome"] == "exception:AssertionError" and start_guard_violation(prev_spec, prev):
            # known defect: the top-level scenario object was left `running` by the failed delayed guard check; the
            # compiled scenario is unusable from here on: note it, compile again, repeat the run
            h["after_start_guard_violation"] = True
            try:
                comp = Compiled(job)
                props = {}
                r = comp.simulate(spec)
                h["redo"] = summary(r)
            except BaseException as e:
                h["redo"] = dict(error=type(e).__name__ + ": " + str(e)[:200])
        elif scene_props(sc_k) != props[k]:
            h["scene_changed"] = True
        hist.append(h)
        prev_spec, prev = spec, r
    out["veneer_after_hist"] = veneer_state()
    return out


def scene_props(scene):
    res = []
    for o in scene.objects:
        d = {}
        for p in sorted(o.properties):
            try:
                v = getattr(o, p)
                d[p] = repr(v) if not isinstance(v, (int, float, str, bool, type(None))) else v
            except Exception as e:
                d[p] = "<err>"
        res.append(d)
    return res


def run_probe(job):
    """A probe program: compile, generate, simulate; canonical output."""
    random.seed(job["seed"])
    numpy.random.seed(job["seed"])
    A.reset(None, 0)
    try:
        scenario = compile_job(job)
        scene, its = scenario.generate(maxIterations=50)
        ns, sampled = find_ns(scene)
        A.reset(scene, 0)
        sim = FaultySimulator(ns=ns).simulate(scene, maxSteps=job.get("steps", 6), maxIterations=1)
        return dict(its=its, scene=json.loads(re.sub(r"0x[0-9a-f]+", "0x", json.dumps(scene_props(scene)))), params={k: repr(v) for k, v in scene.params.items()},
                    result=result_canon(sim), log=list(A.log))
    except BaseException as e:
        return dict(error=type(e).__name__ + ": " + str(e)[:200])


def run_chist(job):
    """a compile history: every operation compiles a program importing a helper .scenic module (some fail after the
    import succeeded); per operation: error class or what the compiled scenario contains and does, and the interpreter state"""
    out = dict(name=job["name"], ops=[])
    for op in job["ops"]:
        j = dict(file=op["files"], main=op["main"], params=op.get("params"), scenario=op.get("scenario"), mode2D=op.get("mode2D"), seed=op["seed"])
        A.reset(None, 0)
        random.seed(op["seed"])
        numpy.random.seed(op["seed"])
        try:
            scenario = compile_job(j)
            scene, its = scenario.generate(maxIterations=50)
            sim = DummySimulator().simulate(scene, maxSteps=5, maxIterations=1)
            res = dict(nobjects=len(scene.objects), its=its,
                       objects=[[intval(getattr(o, p, None)) for p in PROPS] + [float(o.position.x), float(o.position.y), type(o.behavior).__name__] for o in scene.objects],
                       params={k: repr(v) for k, v in sorted(scene.params.items())}, result=result_canon(sim))
        except BaseException as e:
            res = dict(error=type(e).__name__)
        out["ops"].append(dict(what=op["what"], res=res, state=veneer_state()))
    return out


def main():
    job = json.load(sys.stdin)
    outs = []
    for p in job["programs"]:
        try:
            if p.get("state"):
                outs.append(dict(name=p["name"], state=veneer_state()))
            elif p.get("probe"):
                outs.append(dict(name=p["name"], probe=run_probe(p), veneer_after=veneer_state()))
            elif p.get("chist"):
                outs.append(run_chist(p))
            elif p.get("ref"):
                outs.append(run_reference(p))
            else:
                outs.append(run_program(p))
        except BaseException:
            outs.append(dict(name=p["name"], crash=traceback.format_exc()[-1500:]))
    import shutil

    shutil.rmtree(os.path.join(os.environ.get("VERIF_C14_TMP", "/tmp"), f"verif_c14_{os.getpid()}"), ignore_errors=True)
    print(json.dumps(dict(results=outs)))


if __name__ == "__main__":
    main()
