#!/bin/sh
# run every registered quick (or thorough) check sequentially; summary in work/runall.txt
TIER="${1:-quick}"
cd /verif
: > work/runall.txt
for id in $(python3 -c "import json;print(' '.join(c['property_id'] for c in json.load(open('MANIFEST.json'))['checks']))"); do
  s=$(date +%s)
  ./check $id --tier $TIER > work/runall_$id.log 2>&1; rc=$?
  e=$(date +%s)
  echo "$id rc=$rc wall=$((e-s))s $(grep -c '^VIOLATION' work/runall_$id.log) violations, $(grep -c '^KNOWN-FINDING' work/runall_$id.log) known" >> work/runall.txt
done
echo done >> work/runall.txt
