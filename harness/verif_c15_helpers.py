"""Helpers importable from generated Scenic programs of the C15 check (harness/ is on PYTHONPATH)."""
import os
import random

_inst = random._inst           # the hidden global generator: consuming it is not logged by the wrappers
_calls = [0]


def burn(x):
    """Returns x unchanged, but consumes some of the GLOBAL random stream (Python's and NumPy's)
    on every call – stands for randomness used internally while checking.  How often it is called
    during scene generation depends on the order in which the checker visits the requirements
    (timing), and HOW MUCH it consumes per call during scene generation is set per process by
    VERIF_C15_BURN (0 = nothing): with the save/restore around checking neither may show in the
    user-visible stream.  At compile time (pruning evaluates requirement expressions symbolically)
    it consumes nothing; during a simulation (requirements are re-evaluated there, outside the
    save/restore) it consumes a fixed, process-independent amount."""
    import numpy
    from scenic.core.distributions import needsSampling
    from scenic.core.lazy_eval import needsLazyEvaluation
    import scenic.syntax.veneer as veneer
    if needsSampling(x) or needsLazyEvaluation(x):
        return x          # compile time: do nothing
    _calls[0] += 1
    amount = 1 if veneer.currentSimulation is not None else int(os.environ.get("VERIF_C15_BURN", "1"))
    for _ in range(3 * amount):
        _inst.random()
    if amount:
        numpy.random.random(2 * amount)
    return x
