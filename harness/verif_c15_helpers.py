"""Helpers importable from generated Scenic programs of the C15 check (harness/ is on PYTHONPATH)."""
import os
import random

_inst = random._inst           # the hidden global generator: consuming it is not logged by the wrappers
_VARIANT = int(os.environ.get("VERIF_VARIANT", "0"))
_calls = [0]


def burn(x):
    """Returns x unchanged, but consumes some of the GLOBAL random stream (Python's and NumPy's)
    on every call – stands for randomness used internally while checking.  How often it is called
    during scene generation depends on the order in which the checker visits the requirements
    (timing), so without the save/restore around checking the user-visible stream would differ
    between processes."""
    import numpy
    from scenic.core.distributions import needsSampling
    from scenic.core.lazy_eval import needsLazyEvaluation
    if needsSampling(x) or needsLazyEvaluation(x):
        return x          # compile time (pruning evaluates the expression symbolically): do nothing
    _calls[0] += 1
    for _ in range(3):
        _inst.random()
    numpy.random.random(2)
    return x
