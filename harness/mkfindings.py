"""Print a consolidated markdown table of findings (open + fixed) from known_findings.json and the fix: commits of /repo."""
import json, subprocess
k = json.load(open('/verif/known_findings.json'))
log = subprocess.run(['git', '-C', '/repo', 'log', '--format=%h %s', 'b143da08..HEAD'], capture_output=True, text=True).stdout.strip().split('\n')
fixes = [l for l in log if ' fix: ' in ' ' + l or l.split(' ', 1)[1].startswith('fix:')]
print("#### Repairs committed to /repo (`fix:` commits, oldest first)\n")
for l in reversed(fixes):
    h, s = l.split(' ', 1)
    print(f"* `{h}` {s}")
print("\n#### Fixed entries (suppress nothing)\n")
for f in k['fixed']:
    print("* " + f)
print("\n#### Open known findings (structural matchers in known_findings.json)\n")
print("| property | id | what fails |\n|---|---|---|")
for f in k['findings']:
    if f.get('status') != 'fixed':
        print(f"| {f['property']} | {f['id']} | {f['what'].replace('|', '/')} |")
