"""C12 — simulation steps run in the documented order and stop at the documented step.
Proof layer: coq/Properties/C12.v (theorems about DynCore, coq/C12/Dyn.v).
Correspondence: generated DynCore programs printed as Scenic source and run on the real code with a
logging Simulator/Simulation (harness/impl_c12.py); event log, trajectory length, action log and
termination type vs the extracted model (ocaml/c12).  Oracle: the documented step procedure as a
shape over the implementation's own event log, plus exact step counts of the duration constructs."""
import concurrent.futures as cf
import json
import math
import os
import random
import sys

sys.path.insert(0, os.path.dirname(os.path.abspath(__file__)))
import common
import c12_prog as cp
from common import Check

PID = "C12"
WORKERS = int(os.environ.get("VERIF_WORKERS", "8"))
IMPL_TIMEOUT = int(os.environ.get("VERIF_IMPL_TIMEOUT", "2400"))   # per worker process; every simulation has its own CPU / step guard


# ------------------------------------------------------------------ running both sides
def run_impl_jobs(jobs, script="impl_c12.py"):
    # more chunks than workers (each worker process pays ~5-10 s of imports): the pool hands them out as workers become
    # free, so one chunk of expensive programs no longer decides the wall time
    nch = WORKERS * (4 if len(jobs) >= 64 * WORKERS else 1)
    chunks = [jobs[i::nch] for i in range(nch)]
    chunks = [ch for ch in chunks if ch]
    out = {}
    with cf.ThreadPoolExecutor(min(WORKERS, len(chunks)) or 1) as ex:
        for r in ex.map(lambda ch: common.run_impl(script, dict(jobs=ch), timeout=IMPL_TIMEOUT), chunks):
            for x in r["results"]:
                out[x["id"]] = x
    return out


def run_model(exe, cases, qsub=True):
    """cases: list of (program, run) -> list of dict"""
    lines = [cp.sim_line(p, r["tab"], r["perms"], r["max_steps"], r["timestep"], qsub=qsub) for p, r in cases]
    if not lines:
        return []
    return [json.loads(x) for x in common.run_driver(exe, lines)]


# ------------------------------------------------------------------ the specification as an oracle
RANK = {"S": 0, "TW": 0, "Q": 0, "R": 1, "M": 2, "TC": 3, "B": 4}


def fltl(f, rows, i=0):
    """finite-trace LTL, strong next / strong until; f = c11_formulas AST, atom k reads rows[k]"""
    n = len(rows[0]) if rows else 0
    k = f[0]
    if k == "a":
        return bool(rows[f[1]][i])
    if k == "!":
        return not fltl(f[1], rows, i)
    if k == "&":
        return fltl(f[1], rows, i) and fltl(f[2], rows, i)
    if k == "|":
        return fltl(f[1], rows, i) or fltl(f[2], rows, i)
    if k == ">":
        return (not fltl(f[1], rows, i)) or fltl(f[2], rows, i)
    if k == "X":
        return i + 1 < n and fltl(f[1], rows, i + 1)
    if k == "F":
        return any(fltl(f[1], rows, j) for j in range(i, n))
    if k == "G":
        return all(fltl(f[1], rows, j) for j in range(i, n))
    if k == "U":
        return any(fltl(f[2], rows, j) and all(fltl(f[1], rows, m) for m in range(i, j)) for j in range(i, n))
    raise ValueError(k)


def req_rows(tab, cs, n):
    return [[tab_at(tab, c, t) for t in range(n)] for c in cs]


def tab_at(tab, c, t):
    if c is True or c is False:
        return c
    row = tab[c] if c < len(tab) else []
    return bool(row[t]) if t < len(row) else False


def limit_steps(lim, timestep):
    if lim is None:
        return None
    n, unit = lim
    return n / float(timestep) if unit == "seconds" else n


def oracle(p, run, obs):
    """Check the documented step procedure on what the implementation did.  Returns a list of
    (kind, message, extra) problems."""
    bad = []
    ev = obs["events"]
    nobj = len(p["objects"])
    agents = [i for i, b in enumerate(p["objects"]) if b is not None]
    kind = obs["kind"]
    done = kind in ("scenarioComplete", "terminatedByMonitor", "simulationTerminationCondition", "timeLimit", "terminatedByBehavior")
    top_mons = set(p["scenarios"][0]["monitors"])
    sub_tc = {idx: cnd for sc in p["scenarios"][1:] for idx, cnd in sc.get("termsim", [])}
    top0 = p["scenarios"][0]
    # documented: the guards of the top-level scenario are checked when the simulation starts (preconditions first)
    if not all(tab_at(run["tab"], x, 0) for x in top0["pre"] + top0["inv"]):
        pre_bad = not all(tab_at(run["tab"], x, 0) for x in top0["pre"])
        want = ("PreconditionViolation" if pre_bad else "InvariantViolation") if run.get("raise_gv", True) else "rejected"
        if kind not in (want, "sceneRejected"):
            bad.append(("guard-at-start", f"a guard of the top-level scenario is false when the simulation starts: documented {want}, got {kind}",
                        dict(expected=want)))
        return bad
    i = 0
    # initial updateObjects
    init = ev[:nobj]
    if ev and kind not in ("PreconditionViolation", "InvariantViolation") and init != [["U", j] for j in range(nobj)]:
        bad.append(("order", "initial updateObjects missing or out of order", dict(got=init)))
    i = nobj if init == [["U", j] for j in range(nobj)] else 0
    t = 0
    ended = None          # reason why nothing more may run
    while i < len(ev):
        # one step: events up to and including the U block after an A, or the rest
        j = i
        while j < len(ev) and ev[j][0] != "A":
            j += 1
        pre = ev[i:j]
        rank = 0
        seen_agents = []
        perm = run["perms"][t % len(run["perms"])] if run["perms"] else agents
        last_step = j >= len(ev)
        for k, e in enumerate(pre):
            tag = e[0]
            if tag == "R" and last_step and done and e[1] in p["rec_final"] and all(x[0] == "R" and x[1] in p["rec_final"] for x in pre[k:]):
                break   # final records after termination
            if tag not in RANK:
                bad.append(("order", f"unexpected event {e} before the actions of step {t}", dict(step=t)))
                continue
            if ended and RANK[tag] > ended[0]:
                bad.append(("after-termination", f"{e} ran after {ended[1]} in step {t}", dict(step=t)))
            if RANK[tag] < rank:
                bad.append(("order", f"{e} out of documented order in step {t}", dict(step=t, step_events=pre)))
            if tag == "Q" and e[1] == 0 and any(x[0] in ("S", "TW") and x[1] == 0 for x in pre[:k]):   # (sub-scenario ids may have several instances)
                # documented step 1: (a) temporal requirements, (b) time limit, (d) compose block, then termination conditions
                bad.append(("order", f"requirement {e[2]} of scenario {e[1]} updated after its compose block / terminate-when in step {t}",
                            dict(step=t, step_events=pre)))
            rank = max(rank, RANK[tag])
            if tag == "B":
                if not seen_agents or seen_agents[-1] != e[1]:
                    if e[1] in seen_agents:
                        bad.append(("order", f"behavior of agent {e[1]} ran twice in step {t}", dict(step=t)))
                    seen_agents.append(e[1])
                if e[2] in (90, 91):
                    ended = (4, "terminate in a behavior") if True else None
                    ended = (-1, "a behavior's terminate [simulation]")
                    # nothing at all may follow (checked below)
                    if pre[k + 1:] and not all(x[0] == "R" and x[1] in p["rec_final"] for x in pre[k + 1:]):
                        bad.append(("after-termination", f"events after terminate in behavior at step {t}", dict(step=t, step_events=pre[k:])))
                    if done and kind != "terminatedByBehavior":
                        bad.append(("termination-type", f"behavior terminated at step {t} but type is {kind}", dict(step=t)))
            if tag == "S" and e[2] == 91:
                ended = (1, "terminate simulation in a compose block")
            if tag == "S" and e[2] == 90 and e[1] == 0:
                ended = (1, "terminate in the top-level compose block")
            if tag == "M" and e[2] == 91:
                ended = (2, "terminate simulation in a monitor")
            if tag == "M" and e[2] == 90 and e[1] in top_mons:
                ended = (2, "terminate in a top-level monitor")
            if tag == "TW" and e[1] == 0 and tab_at(run["tab"], p["scenarios"][0]["termwhen"][e[2]], t):
                ended = (1, "a true terminate-when condition")
            if tag == "TC" and tab_at(run["tab"], sub_tc[e[1]] if e[1] >= 100 else p["termsim"][e[1]], t):
                ended = (3, "a true terminate-simulation-when condition")
                if pre[k + 1:] and not all(x[0] == "R" and x[1] in p["rec_final"] for x in pre[k + 1:]):
                    bad.append(("after-termination", f"events after a true `terminate simulation when` at step {t}", dict(step=t)))
                if done and kind != "simulationTerminationCondition":
                    bad.append(("termination-type", f"terminate simulation when true at {t} but type is {kind}", dict(step=t)))
        # the sequence of behaviours that logged must follow the schedule
        it = iter(perm)
        if not all(a in it for a in seen_agents):
            bad.append(("order", f"behaviors ran in order {seen_agents}, schedule was {perm} (step {t})", dict(step=t)))
        if last_step:
            break
        if ended:
            bad.append(("after-termination", f"actions executed after {ended[1]} in step {t}", dict(step=t)))
        a = ev[j]
        if [x[0] for x in a[1]] != list(perm):
            bad.append(("order", f"executeActions got agents {[x[0] for x in a[1]]}, schedule was {perm} (step {t})", dict(step=t)))
        want = [["X", t], ["K", t + 1]] + [["U", o] for o in range(nobj)]
        got = ev[j + 1:j + 1 + len(want)]
        if got != want:
            bad.append(("order", f"after the actions of step {t}: expected step, clock, updates; got {got}", dict(step=t)))
        # per-step records
        recs = [e[1] for e in pre if e[0] == "R" and e[1] < 100]
        wantr = (p["rec_init"] if t == 0 else []) + p["records"]
        if recs != wantr:
            bad.append(("records", f"records evaluated at step {t}: {recs}, expected {wantr}", dict(step=t)))
        i = j + 1 + len(want)
        t += 1
    if done:
        # an accepted simulation satisfies every temporal requirement of the top-level scenario on the trace of the
        # steps 0..currentTime (the top-level scenario executes in every step, the last one included)
        import c11_formulas as F
        for rid in p["scenarios"][0].get("reqs", []):
            toks, cs = p["reqs"][rid]
            rows = req_rows(run["tab"], cs, obs["time"] + 1)
            if not fltl(F.parse_tokens(toks.split()), rows):
                bad.append(("requirement-accept", f"simulation accepted ({kind} at step {obs['time']}) although the top-level requirement "
                            f"`{toks}` is violated by the trace of its atoms {rows}", dict(requirement=toks, atom_rows=rows)))
        if obs["time"] != t:
            bad.append(("counts", f"currentTime {obs['time']} but {t} complete steps were logged", {}))
        if obs["traj"] != obs["time"] + 1:
            bad.append(("counts", f"trajectory has {obs['traj']} states after {obs['time']} steps", {}))
        if len(obs["actions"]) != obs["time"]:
            bad.append(("counts", f"action log has {len(obs['actions'])} entries after {obs['time']} steps", {}))
        fin = [e[1] for e in ev[len(ev) - len(p["rec_final"]):]] if p["rec_final"] else []
        if fin != p["rec_final"] or (p["rec_final"] and any(e[0] != "R" for e in ev[len(ev) - len(p["rec_final"]):])):
            bad.append(("records", "final records not evaluated last", {}))
        for r in p["records"]:
            if obs["records"].get(f"r{r}") != [[s, s] for s in range(obs["time"] + 1)]:
                bad.append(("records", f"time series r{r} = {obs['records'].get(f'r{r}')}", {}))
        ms = run["max_steps"]
        if ms:
            if obs["time"] > ms or (kind == "timeLimit" and obs["time"] != ms):
                bad.append(("step-limit", f"step limit {ms}, stopped at {obs['time']} ({kind})", {}))
        L = limit_steps(p["scenarios"][0]["limit"], run["timestep"])
        if L is not None:
            if obs["time"] > math.ceil(L) or (obs.get("reason") == "reached time limit" and obs["time"] != math.ceil(L)):
                bad.append(("terminate-after", f"terminate after {L} steps, stopped at {obs['time']} ({obs.get('reason')})", {}))
        if kind == "terminatedByMonitor":
            # documented: only terminate simulation, or terminate in a monitor of the top-level scenario
            last = ev[i:]
            trig = [e for e in last if e[0] == "M" and (e[2] == 91 or (e[2] == 90 and e[1] in top_mons))]
            sub = [e for e in last if e[0] == "M" and e[2] == 90 and e[1] not in top_mons]
            if not trig:
                bad.append(("sub-monitor-terminate" if sub else "termination-type",
                            "simulation terminated by a monitor although no top-level monitor terminated"
                            + (" (`terminate` in a monitor of a sub-scenario ended the whole simulation)" if sub else ""),
                            dict(sub_scenario_monitor_terminated=bool(sub))))
    return bad


# ------------------------------------------------------------------ systematic families (exact step counts)
def fam_programs():
    """(name, program, timestep, max_steps, expected ego action sequence per the documentation)"""
    out = []
    loop5 = dict(pre=[], inv=[], body=[("WH", True, [("TK", 5)])])
    two = dict(pre=[], inv=[], body=[("TK", 6), ("TK", 7)])
    for ts in (1, 0.5, 0.1):
        durs = [(n, "steps") for n in (0, 1, 2, 3, 1.5, 2.0)] + [(n, "seconds") for n in (0, 0.1, 0.3, 0.5, 0.7, 1, 1.25)]
        for n, unit in durs:
            steps = n / float(ts) if unit == "seconds" else n
            k = math.ceil(steps)
            if k > 12:
                continue
            H = k + 4
            # do B for n
            p = cp.empty_program(1)
            p["behaviors"] = [dict(pre=[], inv=[], body=[("TK", 1), ("DOF", 1, n, unit), ("TK", 2), ("TK", 3)]), loop5]
            p["objects"] = [0]
            exp = ([1] + [5] * k + [2, 3])
            out.append((f"do-for {n} {unit} ts={ts}", p, ts, H, [[x] for x in exp] + [[]] * 20, None))
            # sub-behaviour ends first
            p = cp.empty_program(1)
            p["behaviors"] = [dict(pre=[], inv=[], body=[("TK", 1), ("DOF", 1, n, unit), ("TK", 2), ("TK", 3)]), two]
            p["objects"] = [0]
            exp = [1] + [6, 7][:k] + [2, 3]
            out.append((f"do-for-short {n} {unit} ts={ts}", p, ts, H, [[x] for x in exp] + [[]] * 20, None))
            # wait for n
            p = cp.empty_program(1)
            p["behaviors"] = [dict(pre=[], inv=[], body=[("TK", 1), ("WF", n, unit), ("TK", 2)])]
            p["objects"] = [0]
            out.append((f"wait-for {n} {unit} ts={ts}", p, ts, H, [[1]] + [[]] * k + [[2]] + [[]] * 20, None))
            # terminate after n
            p = cp.empty_program(1)
            p["behaviors"] = [loop5]
            p["objects"] = [0]
            p["scenarios"][0]["limit"] = (n, unit)
            out.append((f"terminate-after {n} {unit} ts={ts}", p, ts, H, [[5]] * k, ("scenarioComplete", k)))
            # sub-scenario with a limit, then the parent goes on for one step
            p = cp.empty_program(1)
            p["behaviors"] = [loop5]
            p["objects"] = [0]
            p["scenarios"][0]["compose"] = [("DS", [1]), ("MK", 1), ("WT",)]
            p["scenarios"].append(dict(pre=[], inv=[], limit=(n, unit), termwhen=[], monitors=[], compose=[("WH", True, [("WT",)])]))
            out.append((f"sub-terminate-after {n} {unit} ts={ts}", p, ts, H, [[5]] * (k + 1), ("scenarioComplete", k + 1)))
            # do S for n in a compose block
            p = cp.empty_program(1)
            p["behaviors"] = [loop5]
            p["objects"] = [0]
            p["scenarios"][0]["compose"] = [("DSF", [1], n, unit), ("MK", 1), ("WT",)]
            p["scenarios"].append(dict(pre=[], inv=[], limit=None, termwhen=[], monitors=[], compose=[("WH", True, [("WT",)])]))
            out.append((f"do-scenario-for {n} {unit} ts={ts}", p, ts, H, [[5]] * (k + 1), ("scenarioComplete", k + 1)))
    return out


def fam_until():
    """do/wait until c, terminate [simulation] when c: every table of c up to length 5"""
    out = []
    loop5 = dict(pre=[], inv=[], body=[("WH", True, [("TK", 5)])])
    for bits in range(32):
        row = [bool(bits >> i & 1) for i in range(5)]
        first = next((i for i, b in enumerate(row) if b), None)
        for start in (0, 1, 2):
            f = next((i for i in range(start, 5) if row[i]), None)
            k = (f - start) if f is not None else None      # steps the statement lasts
            if k is None:
                continue
            p = cp.empty_program(1)
            p["behaviors"] = [dict(pre=[], inv=[], body=[("TK", 1)] * start + [("DOU", 1, 0), ("TK", 2)]), loop5]
            p["objects"] = [0]
            out.append((f"do-until start={start} row={row}", p, [row], 1, 7, [[1]] * start + [[5]] * k + [[2]] + [[]] * 20, None))
            p = cp.empty_program(1)
            p["behaviors"] = [dict(pre=[], inv=[], body=[("TK", 1)] * start + [("WU", 0), ("TK", 2)])]
            p["objects"] = [0]
            out.append((f"wait-until start={start} row={row}", p, [row], 1, 7, [[1]] * start + [[]] * k + [[2]] + [[]] * 20, None))
        if first is not None:
            p = cp.empty_program(1)
            p["behaviors"] = [loop5]
            p["objects"] = [0]
            p["scenarios"][0]["termwhen"] = [0]
            out.append((f"terminate-when row={row}", p, [row], 1, 7, [[5]] * first, ("scenarioComplete", first)))
            p = cp.empty_program(1)
            p["behaviors"] = [loop5]
            p["objects"] = [0]
            p["termsim"] = [0]
            out.append((f"terminate-simulation-when row={row}", p, [row], 1, 7, [[5]] * first, ("simulationTerminationCondition", first)))
    return out


def fam_requirements(quick):
    """a temporal requirement x every way its scenario can end x ALL truth tables of its atoms over the window:
    (name, program, table, timestep, max_steps, ("outcome", (kind, time)))"""
    import itertools
    import c11_formulas as F
    out = []
    loop5 = dict(pre=[], inv=[], body=[("WH", True, [("TK", 5)])])
    forever = [("WH", True, [("WT",)])]
    shapes = ["G a0", "F a0", "X a0", "! X a0", "U a0 a1", "G F a0", "G > a0 X a1"]
    for toks in shapes:
        f = F.parse_tokens(toks.split())
        na = len(F.atoms(f))
        for L in (1, 2, 3):                     # window = steps 0..L-1 of the scenario owning the requirement
            for bits in itertools.product([False, True], repeat=na * L):
                rows = [list(bits[a * L:(a + 1) * L]) for a in range(na)]
                sat = fltl(f, rows)
                for mode in ("top-after", "top-after-s", "top-when", "top-compose", "top-max", "sub-after", "sub-after-s", "sub-for", "sub-until", "sub-compose"):
                    hsh = int(common.sha(json.dumps([toks, rows, mode]))[:6], 16)
                    if quick and ((na > 1 and L == 3) or (L == 3 and hsh % 2) or (mode.endswith("-s") and hsh % 3)):
                        continue
                    ts = 0.5 if mode.endswith("-s") else 1
                    p = cp.empty_program(1)
                    p["behaviors"] = [loop5]
                    p["objects"] = [0]
                    tab = [r + [False] * 4 for r in rows]
                    cs = list(range(na))
                    p["reqs"] = [(toks, cs)]
                    H = None
                    if mode.startswith("top"):
                        sc = p["scenarios"][0]
                        sc["reqs"] = [0]
                        end = L - 1                 # the scenario (and the simulation) ends in step L-1
                        if mode == "top-after":
                            sc["limit"] = (L - 1, "steps")
                        elif mode == "top-after-s":
                            sc["limit"] = ((L - 1) * 0.5, "seconds")
                        elif mode == "top-when":
                            tab.append([t >= L - 1 for t in range(L + 4)])
                            sc["termwhen"] = [na]
                        elif mode == "top-compose":
                            if L == 1:
                                continue            # a compose block must contain a wait or do
                            sc["compose"] = [("WT",)] * (L - 1) + [("MK", 1)]
                        else:
                            if L == 1:
                                continue            # maxSteps=0 means no limit
                            H = L - 1
                        exp_kind = "timeLimit" if mode == "top-max" else "scenarioComplete"
                        # the scene is also checked when sampled: verdict FALSE on the first valuation discards it
                    else:
                        # Main: do S1 [for/until]; mark; wait  -- S1 executes steps 0..L-1, Main ends one step after S1 has gone
                        sub = dict(pre=[], inv=[], limit=None, termwhen=[], monitors=[], compose=list(forever), reqs=[0])
                        p["scenarios"].append(sub)
                        inv = ("DS", [1])
                        end = L                      # S1 stops in step L-1 (own limit / compose) -> Main: mark, wait -> ends at L
                        if mode == "sub-after":
                            sub["limit"] = (L - 1, "steps")
                        elif mode == "sub-after-s":
                            sub["limit"] = ((L - 1) * 0.5, "seconds")
                        elif mode == "sub-compose":
                            if L == 1:
                                continue
                            sub["compose"] = [("WT",)] * (L - 1) + [("MK", 2)]
                        elif mode == "sub-for":
                            inv = ("DSF", [1], L, "steps")
                            end = L + 1              # S1 is stopped from outside in step L
                        else:
                            tab.append([t >= L for t in range(L + 4)])
                            inv = ("DSU", [1], na)
                            end = L + 1
                        p["scenarios"][0]["compose"] = [inv, ("MK", 1), ("WT",)]
                        exp_kind = "scenarioComplete"
                    expect = (exp_kind, end) if sat else ("rejected", None)
                    out.append((f"req {toks} {mode} rows={rows}", p, tab, ts, H, ("outcome", expect)))
    return out


def fam_silent(quick):
    """a sub-scenario stating `record` and `terminate simulation when` ends (own limit in steps / seconds, terminate when,
    compose block finishing, terminate, `do ... for`, `do ... until`) while the scenario that invoked it goes on WITHOUT
    another `do` (wait / wait for / wait until); the condition becomes true never / while it runs / in the step it
    stopped / later.  Documented: samples exactly for the steps the sub-scenario executed, the condition only counts
    while it runs.  (name, program, table, timestep, max_steps, ("silent", (kind, time), {record: sample times}))"""
    out = []
    forever = [("WH", True, [("WT",)])]
    for level in ("main", "sub"):
        for end in ("limit", "limit-s", "when", "compose", "terminate", "for", "until"):
            for n in (1, 2):
                for s0 in (0, 1):
                    for tau_k in ("never", "running", "stop-step", "later"):
                        hsh = int(common.sha(json.dumps([level, end, n, s0, tau_k]))[:6], 16)
                        if quick and end in ("limit-s", "terminate", "until") and hsh % 2:
                            continue
                        m = 2 + hsh % 2
                        cont_k = ("wait", "waitfor", "waituntil")[(hsh >> 3) % 3]
                        ts = 0.5 if end == "limit-s" else 1
                        tau = dict(never=None, running=s0 + n - 1, later=s0 + n + 1)[tau_k] if tau_k != "stop-step" else s0 + n
                        H = 12
                        row_end = [t >= s0 + n for t in range(H + 2)]           # row 0: ends the sub-scenario (when / until)
                        row_tc = [tau is not None and t >= tau for t in range(H + 2)]   # row 1
                        row_cont = [t >= s0 + n + m for t in range(H + 2)]      # row 2: wait until
                        tab = [row_end, row_tc, row_cont]
                        p = cp.empty_program(1)
                        k = 1 if level == "main" else 2                  # class of the recorded sub-scenario
                        rec = dict(pre=[], inv=[], limit=None, termwhen=[], monitors=[], compose=list(forever), reqs=[],
                                   records=[100 * k], termsim=[(100 * k, 1)])
                        inv = ("DS", [k])
                        if end == "limit":
                            rec["limit"] = (n, "steps")
                        elif end == "limit-s":
                            rec["limit"] = (n * 0.5, "seconds")
                        elif end == "when":
                            rec["termwhen"] = [0]
                        elif end == "compose":
                            rec["compose"] = [("WT",)] * n
                        elif end == "terminate":
                            rec["compose"] = [("WT",)] * n + [("MK", 90), ("TE",)]
                        elif end == "for":
                            inv = ("DSF", [k], n, "steps")
                        else:
                            inv = ("DSU", [k], 0)
                        cont = {"wait": [("WT",)] * m, "waitfor": [("WF", m, "steps")], "waituntil": [("WU", 2)]}[cont_k]
                        parent = [("WT",)] * s0 + [inv, ("MK", 1)] + cont
                        if level == "main":
                            p["scenarios"][0]["compose"] = parent
                            p["scenarios"].append(rec)
                        else:
                            p["scenarios"][0]["compose"] = [("DS", [1])]
                            p["scenarios"].append(dict(pre=[], inv=[], limit=None, termwhen=[], monitors=[], compose=parent, reqs=[],
                                                       records=[], termsim=[]))
                            p["scenarios"].append(rec)
                        if tau is not None and tau <= s0 + n - 1:
                            want = ("simulationTerminationCondition", max(tau, s0))
                            times = list(range(s0, max(tau, s0) + 1))
                        else:
                            want = ("scenarioComplete", s0 + n + m)
                            times = list(range(s0, s0 + n))
                        out.append((f"silent {level} {end} n={n} s0={s0} tc={tau_k} {cont_k}", p, tab, ts, H, ("silent", want, {f"r{100 * k}": times})))
    # residual shapes (finding F29): the recorded sub-scenario stops on its own and its parent's `_invokeInner` loop never
    # gets to filter its list: (c) a later sibling executes `terminate simulation` in the same step; (d) it is stopped by
    # `terminate` in its monitor and the top-level scenario reaches its time limit in the next step (directly above it or
    # one level up).  Documented: samples exactly for the steps it executed.
    H = 12
    tab = [[False] * (H + 2)] * 3
    sib = dict(pre=[], inv=[], limit=None, termwhen=[], monitors=[], reqs=[], records=[], termsim=[])
    for n in (1, 2):
        for end in ("limit", "compose", "terminate"):
            for order in ("before", "after"):
                p = cp.empty_program(1)
                rec = dict(pre=[], inv=[], limit=None, termwhen=[], monitors=[], compose=list(forever), reqs=[], records=[100], termsim=[])
                if end == "limit":
                    rec["limit"] = (n, "steps")
                elif end == "compose":
                    rec["compose"] = [("WT",)] * n
                else:
                    rec["compose"] = [("WT",)] * n + [("MK", 90), ("TE",)]
                ender = dict(sib, compose=[("WT",)] * n + [("MK", 91), ("TS",)])
                p["scenarios"][0]["compose"] = [("DS", [1, 2])]
                p["scenarios"] += [rec, ender] if order == "before" else [ender, dict(rec, records=[200])]
                # the recorded scenario executed steps 0..n-1; stepped before the sibling that ends the simulation at step n it
                # has stopped in that step (no sample at n); listed after it, it is still running when Main stops (sample at n)
                key = "r100" if order == "before" else "r200"
                times = list(range(0, n)) if order == "before" else list(range(0, n + 1))
                out.append((f"silent sibling-terminate-simulation {end} n={n} {order}", p, tab, 1, H, ("silent", ("scenarioComplete", n), {key: times})))
        for depth in (1, 2):
            p = cp.empty_program(1)
            p["monitors"] = [[("WT",)] * (n - 1) + [("MK", 90), ("TE",)]]
            k = depth
            rec = dict(pre=[], inv=[], limit=None, termwhen=[], monitors=[0], compose=list(forever), reqs=[], records=[100 * k], termsim=[])
            p["scenarios"][0]["limit"] = (n, "steps")
            p["scenarios"][0]["compose"] = [("DS", [1]), ("WT",), ("WT",)]
            if depth == 2:
                p["scenarios"].append(dict(sib, compose=[("DS", [2]), ("WH", True, [("WT",)])]))
            p["scenarios"].append(rec)
            out.append((f"silent monitor-terminate-then-parent-limit n={n} depth={depth}", p, tab, 1, H,
                        ("silent", ("scenarioComplete", n), {f"r{100 * k}": list(range(0, n))})))
    return out


# ------------------------------------------------------------------ main
def compare(c, name, p, src, run, obs, mod, fam_expect=None, run_index=0, history=None):
    """correspondence + oracle for one run; returns True when everything agrees.  run_index / history: position of the
    run among the simulations made from the same compiled Scenario object, and the runs before it."""
    ok = True
    case = dict(name=name, program=p, src=src, run=run, run_index=run_index, history=history or [])
    if obs.get("first_attempt"):
        prev = (history or [None])[-1] or {}
        ptab = prev.get("tab", [])
        top0 = p["scenarios"][0]
        prev_guard_failed = bool(history) and not all(tab_at(ptab, x, 0) for x in top0["pre"] + top0["inv"])
        c.violation("history-dead-scenario", f"simulation {run_index} of one compiled scenario failed with {obs['first_attempt']} although a fresh "
                    "compilation runs it: an earlier simulation left the scenario object unusable",
                    dict(case=case, first_attempt=obs["first_attempt"], previous_run_top_level_guard_failed=prev_guard_failed))
        ok = False
    shape27 = cp.f27_shape(p, run_index)
    if obs["kind"] == "hang" and mod["kind"] == "stuck":
        # the GENERATED program spins without yielding (e.g. an interrupt handler whose condition stays true and that takes
        # no action): the model runs out of fuel, the implementation was stopped by the per-simulation CPU / step guard.
        # Nothing to compare: skipped, with the reason in the evidence.
        c.hist("skipped:generated-program-spins(model=fuel-exhausted,impl=cpu-guard)")
        skipped = c.cov.setdefault("skipped_cases", [])
        if len(skipped) < 5:
            skipped.append(dict(name=name, reason="program never yields under this table: model out of fuel, implementation stopped by the guard", src=src, tab=run.get("tab")))
        return True
    if obs["kind"] == "hang":
        # the model completes this simulation: the implementation is spinning (or needs > 3 CPU seconds / > 64 steps for it)
        c.violation("hang", f"the implementation does not finish a simulation the DynCore model completes ({mod['kind']} at {mod.get('time')}): {obs.get('msg')}",
                    dict(case=case, impl={k: obs.get(k) for k in ("kind", "msg")}, model={k: mod.get(k) for k in ("kind", "time", "traj", "actions")},
                         impl_events=obs["events"][:200], model_events=mod.get("events", [])[:200]))
        return False
    if mod["kind"] in ("stuck", "error", "driver-error"):
        c.violation("harness", f"case outside the fragment: impl={obs['kind']} model={mod['kind']}", dict(case=case, impl=obs, model=mod))
        return False
    keys = ["kind", "events"]
    if mod["kind"] not in ("rejected", "PreconditionViolation", "InvariantViolation", "sceneRejected"):
        keys += ["time", "traj", "actions"]
    diff = [k for k in keys if obs.get(k) != mod.get(k)]
    if diff:
        ok = False
        first = None
        if "events" in diff:
            a, b = obs["events"], mod["events"]
            n = next((i for i in range(min(len(a), len(b))) if a[i] != b[i]), min(len(a), len(b)))
            first = dict(index=n, impl=a[n:n + 3], model=b[n:n + 3])
        extra = bool(first and first["impl"] and first["impl"][0][0] in ("R", "TC") and first["impl"][0][1] >= 100)
        shape29 = cp.f29_shape(p, obs["events"], first["index"]) if extra else None
        if shape29:
            # residual of F27 (finding F29): a sub-scenario that stopped on its own is still listed by its parent
            c.violation("stale-subscenario", f"a record / `terminate simulation when` of a sub-scenario that is no longer running was evaluated "
                        f"({first['impl'][0]} at event {first['index']}; shape {shape29})",
                        dict(case=case, f29_shape=shape29, impl_extra_sub_event=True, first_event_difference=first,
                             impl={k: obs.get(k) for k in ("kind", "reason", "time", "records")}, model={k: mod.get(k) for k in ("kind", "time")},
                             impl_events=obs["events"], model_events=mod["events"]))
            return False
        if shape27 and extra:
            # a stopped sub-scenario's record / condition evaluated: finding F27 (the other oracles would only repeat it)
            c.violation("stale-subscenario", f"a record / `terminate simulation when` of a sub-scenario that is no longer running was evaluated "
                        f"({first['impl'][0]} at event {first['index']}; shape {shape27})",
                        dict(case=case, f27_shape=shape27, impl_extra_sub_event=True, first_event_difference=first,
                             impl={k: obs.get(k) for k in ("kind", "reason", "time", "records")}, model={k: mod.get(k) for k in ("kind", "time")},
                             impl_events=obs["events"], model_events=mod["events"]))
            return False
        c.violation("correspondence", f"implementation and DynCore model differ on {diff}",
                    dict(case=case, differs=diff, first_event_difference=first,
                         impl={k: obs.get(k) for k in ("kind", "reason", "time", "traj", "actions", "msg")},
                         model={k: mod.get(k) for k in ("kind", "time", "traj", "actions")},
                         impl_events=obs["events"], model_events=mod["events"]))
    if obs.get("stale_behavior_after_gc"):
        c.violation("stale-veneer-after-gc", "after this simulation, collecting its abandoned generators set veneer.currentBehavior to a stale behavior "
                    "(Behavior._invokeInner holds `with veneer.executeInBehavior(sub)` across yields; its exit runs when the generator is finalized)",
                    dict(case=case, stale_behavior_after_gc=True, impl_kind=obs["kind"]))
    for kind, msg, extra in oracle(p, run, obs):
        ok = False
        c.violation(kind, msg, dict(case=case, impl={k: obs.get(k) for k in ("kind", "reason", "time", "traj", "actions")},
                                    events=obs["events"], **extra))
    if fam_expect is not None and fam_expect[0] == "silent":
        _, want, wrec = fam_expect
        got = (obs["kind"], obs.get("time"))
        grec = {k: [x[0] for x in v] for k, v in (obs.get("records") or {}).items() if isinstance(v, list)}
        grec = {k: grec.get(k, []) for k in wrec}
        if got != tuple(want) or grec != wrec:
            ok = False
            c.violation("stopped-scenario-silent", f"{name}: documented end {tuple(want)} with samples {wrec}; got {got} with samples {grec} "
                        "(a scenario that has stopped contributes no record and no condition)",
                        dict(case=case, expected=want, expected_samples=wrec, impl_kind=obs["kind"], impl_time=obs.get("time"), impl_samples=grec,
                             events=obs["events"]))
    elif fam_expect is not None and fam_expect[0] == "outcome":
        want = tuple(fam_expect[1])
        got = (obs["kind"], obs.get("time")) if want[1] is not None else (obs["kind"], None)
        if got == ("sceneRejected", None):      # rejected while sampling the scene or during the simulation: the model pins which
            got = ("rejected", None)
        if got != want:
            ok = False
            c.violation("requirement-end", f"{name}: documented outcome {want}, got {(obs['kind'], obs.get('time'))}",
                        dict(case=case, expected=want, impl_kind=obs["kind"], impl_time=obs.get("time"), events=obs["events"]))
    elif fam_expect is not None:
        exp_actions, exp_end = fam_expect
        got = [a[0][1] if a else None for a in obs.get("actions", [])]
        want = exp_actions[:len(got)]
        if obs["kind"] in ("rejected", "PreconditionViolation", "InvariantViolation") or got != want or (exp_end and (obs["kind"], obs["time"]) != tuple(exp_end)):
            ok = False
            c.violation("step-count", f"{name}: documented action sequence {want} / end {exp_end}, got {got} / {(obs['kind'], obs.get('time'))}",
                        dict(case=case, expected=want, expected_end=exp_end, got=got, impl_kind=obs["kind"], impl_time=obs.get("time")))
    return ok


def main():
    c = Check(PID, "proof")
    quick = c.tier == "quick"
    c.cov["rule"] = ("DynCore programs (behaviors with guards and sub-behaviours, monitors, nested scenarios with compose blocks, "
                     "records, every termination construct, durations in steps/seconds with time steps 1/0.5/0.25/0.1/2) from (a) systematic "
                     "families over all durations / all truth tables up to length 5 and (b) a seeded random grammar; each printed as Scenic "
                     "source and run on the real Simulation with a logging simulator under several truth tables and agent schedules (all "
                     "permutations for <=3 agents on a subset).  A case is non-trivial when the simulation executes at least one complete step "
                     "and its log contains events of at least three different classes.")
    import time as _t
    _t0 = _t.time()
    c.proofs()
    c.cov['t_proofs'] = round(_t.time() - _t0, 1)
    common.ensure_parser()
    exe = common.build_ocaml(PID)
    rng = c.rng
    import itertools

    cases = []     # (name, program, src, run, fam_expect)
    if c.replay:
        body = json.load(open(c.replay))
        cs = body["case"]["case"]
        for h in cs.get("history", []):          # the simulations made before it from the same compiled scenario
            cases.append((cs["name"] + "-history", cs["program"], cp.program_src(cs["program"]), h, None))
        cases.append((cs["name"], cs["program"], cp.program_src(cs["program"]), cs["run"], None))
    else:
        for name, p, ts, H, exp, end in fam_programs():
            cases.append((name, p, cp.program_src(p), dict(tab=[], perms=[], max_steps=H, timestep=ts), (exp, end)))
        for name, p, tab, ts, H, exp, end in fam_until():
            cases.append((name, p, cp.program_src(p), dict(tab=tab, perms=[], max_steps=H, timestep=ts), (exp, end)))
        for name, p, tab, ts, H, expect in fam_requirements(quick):
            cases.append((name, p, cp.program_src(p), dict(tab=tab, perms=[], max_steps=H, timestep=ts), expect))
        for name, p, tab, ts, H, expect in fam_silent(quick):
            # a history of three simulations from one compiled scenario: the scene again, then a fresh scene
            for scene in ("new", "same", "new"):
                cases.append((name, p, cp.program_src(p), dict(tab=tab, perms=[], max_steps=H, timestep=ts, scene=scene), expect))
        nprog = int(os.environ.get('VERIF_C12_N', 160 if quick else 3000))     # compiling (parsing) a program costs ~100x one simulation
        for n in range(nprog):
            g = cp.Gen(random.Random(rng.getrandbits(64)))
            p, ts = g.program()
            src = cp.program_src(p)
            agents = [i for i, b in enumerate(p["objects"]) if b is not None]
            allp = [list(x) for x in itertools.permutations(agents)]
            nruns = 4 if quick else 6
            for r in range(nruns):
                tab = g.table()
                if n % 4 == 0 and len(allp) > 1:
                    perms = [allp[r % len(allp)]]           # every constant permutation in turn
                else:
                    perms = [g.rng.choice(allp) for _ in range(g.rng.randint(1, 3))] if agents else []
                ms = g.rng.choice([None, 3, 5, 6, 8]) if r else 8
                if ms is None and not p["scenarios"][0]["limit"]:
                    ms = 7
                # history dimension: the runs of a program are successive simulations from ONE compiled scenario, on the
                # same scene or a fresh one, with their own time step (when durations are in seconds), step limit,
                # table (guard outcomes) and raiseGuardViolations
                rts = ts if (r == 0 or not g.seconds) else g.rng.choice([0.5, 0.1, 0.25, 2, 1])
                cases.append((f"random-{n}-{r}", p, src, dict(tab=tab, perms=perms, max_steps=ms, timestep=rts, scene=("same" if r % 4 == 1 else "new"),
                                                               raise_gv=(r % 4 != 3)), None))

    # which behaviour does the tree have for `terminate` in a monitor of a sub-scenario?  (quirk switch
    # of the model; the oracle reports the undocumented behaviour whenever a generated case meets it)
    pp = cp.probe_submonitor_program()
    cases.append(("probe-sub-monitor-terminate", pp, cp.program_src(pp), dict(tab=[], perms=[], max_steps=6, timestep=1), None))
    probe_idx = len(cases) - 1

    # fixed probe outside the modelled fragment: `terminate when` / `record` executed by the setup block of a
    # sub-scenario at run time (documented: like in the top-level scenario)
    sub_probe_src = """import verif_c12_log as L
scenario S1():
    setup:
        terminate when L.c(0)
        record L.r(5) as r5
    compose:
        while True:
            wait
scenario Main():
    setup:
        ego = new Object at (0, 0), with vid 0
    compose:
        do S1()
        L.ev("S", 0, 1)
        wait
"""
    cases.append(("probe-sub-scenario-setup", cp.empty_program(1), sub_probe_src,
                  dict(tab=[[False, False, True, True, True, True, True]], perms=[], max_steps=6, timestep=1), "subprobe"))
    sub_probe_idx = len(cases) - 1

    # group runs by source so that each program is compiled once
    by_src = {}
    for idx, (name, p, src, run, fe) in enumerate(cases):
        by_src.setdefault(src, []).append(idx)
    jobs = []
    for jid, (src, idxs) in enumerate(by_src.items()):
        jobs.append(dict(id=jid, src=src, runs=[cases[i][3] for i in idxs], _idxs=idxs,
                         regen=bool(cases[idxs[0]][1]["scenarios"][0].get("reqs"))))
    _t1 = _t.time()
    impl = run_impl_jobs([{k: v for k, v in j.items() if k != "_idxs"} for j in jobs])
    c.cov['t_impl'] = round(_t.time() - _t1, 1)
    pres = impl[[j for j in jobs if probe_idx in j["_idxs"]][0]["id"]]
    qsub = not ("runs" in pres and pres["runs"][-1]["kind"] == "scenarioComplete")
    c.cov["quirk_sub_monitor_terminate_ends_simulation"] = qsub
    _t2 = _t.time()
    models = run_model(exe, [(cs[1], cs[3]) for cs in cases], qsub=qsub)   # (the sub-scenario-setup probe's model line is unused)
    c.cov['t_model'] = round(_t.time() - _t2, 1)
    nfail = 0
    for j in jobs:
        res = impl[j["id"]]
        if "compile_error" in res:
            c.violation("harness", "generated program does not compile", dict(src=j["src"], error=res["compile_error"]))
            continue
        for ri, (i, obs) in enumerate(zip(j["_idxs"], res["runs"])):
            name, p, src, run, fe = cases[i]
            hist = [cases[x][3] for x in j["_idxs"][:ri]]
            if i == sub_probe_idx:
                # documented: S1 runs steps 0,1, stops at step 2 (condition true), Main logs its mark and ends at step 3
                good = obs["kind"] == "scenarioComplete" and obs.get("time") == 3 and ["S", 0, 1] in obs["events"]
                c.count(("subprobe",), nontrivial=True)
                if not good:
                    c.violation("sub-scenario-setup", "`terminate when` / `record` in the setup block of a sub-scenario do not work as in the top-level scenario: "
                                f"documented end at step 3 (scenarioComplete), got {obs['kind']} at {obs.get('time')}",
                                dict(src=src, run=run, impl={k: obs.get(k) for k in ("kind", "reason", "time", "records")}, events=obs["events"],
                                     statements_in_sub_scenario_setup=True))
                continue
            mod = models[i]
            if not run.get("raise_gv", True) and mod["kind"] in ("PreconditionViolation", "InvariantViolation"):
                mod = dict(mod, kind="rejected")
            classes = {e[0] for e in obs["events"]}
            nontrivial = obs.get("time", 0) >= 1 and len(classes) >= 3
            c.count((src, run), nontrivial=nontrivial)
            c.cov["traces_validated_against_impl"] += 1
            c.hist("kind:" + obs["kind"])
            c.hist("family" if fe else "random")
            for k in cp.kinds(p):
                c.hist("stmt:" + k)
            c.hist(f"agents:{sum(b is not None for b in p['objects'])}")
            c.hist(f"scenarios:{len(p['scenarios'])}")
            c.hist(f"timestep:{run['timestep']}")
            if not obs.get("veneer_clean", True):
                c.violation("harness", "veneer state not clean after a simulation", dict(case=dict(name=name, program=p, src=src, run=run)))
            c.hist(f"history:run{min(ri, 3)}{'+' if ri >= 3 else ''}:{run.get('scene', 'same')}")
            if not compare(c, name, p, src, run, obs, mod, fe, run_index=ri, history=hist):
                nfail += 1
            elif nontrivial:
                c.sample(dict(name=name, src=src, kind=obs["kind"], steps=obs.get("time"), events=len(obs["events"])), limit=4)
    c.cov["disagreements_checked"] = nfail
    c.cov["programs"] = len(by_src)
    c.assumptions += [
        "CPython generator protocol (a generator resumes at its last yield; abandoned generators are closed) is modelled by frame stacks, not verified",
        "durations in seconds: the quotient n/timestep is computed in binary64 by the harness exactly as the implementation does and passed to the model as an exact rational",
        "extraction via ExtrOcamlBasic only; OCaml compiler; ocaml/c12/driver.ml",
        "model = hand-written Gallina (coq/C12/Dyn.v) tied to the code by this differential run only",
    ]
    c.finish()


if __name__ == "__main__":
    main()
