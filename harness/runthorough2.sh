#!/bin/sh
cd /verif
lane() {
  for id in "$@"; do
    s=$(date +%s)
    VERIF_EVID_SUFFIX=.thorough nice -n 5 ./check $id --tier thorough > work/thorough_$id.log 2>&1; rc=$?
    e=$(date +%s)
    echo "$id rc=$rc wall=$((e-s))s $(grep -c '^VIOLATION' work/thorough_$id.log) violations, $(grep -c '^KNOWN-FINDING' work/thorough_$id.log) known" >> work/thorough.txt
  done
}
lane C06 C18 C10 &
lane C20 C09 &
wait
echo done2 >> work/thorough.txt
