"""Helper imported by the generated C19 programs in compose-block form: sub-scenarios have no agent
whose actions could be observed, so `take a` is written `H.log(simulation().currentTime, a); wait`."""
LOG = []


def log(t, a):
    LOG.append((int(t), int(a)))
