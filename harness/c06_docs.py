"""C06: fail-closed parser of the Specifies/Dependencies bullets of docs/reference/specifiers.rst."""
import re


class DocError(Exception):
    pass


BULLET_RES = [
    (re.compile(r"^:prop:`(\w+)` with priority (\d+)$"), lambda m: dict(prop=m.group(1), prio=int(m.group(2)))),
    (re.compile(r"^:prop:`(\w+)` with priority (\d+); \*\*modifies\*\* existing value, if any$"),
     lambda m: dict(prop=m.group(1), prio=int(m.group(2)), modifies=True)),
    (re.compile(r"^:prop:`(\w+)` with priority (\d+) \(if the region has a :term:`preferred orientation`\)$"),
     lambda m: dict(prop=m.group(1), prio=int(m.group(2)), cond="oriented")),
    (re.compile(r"^the given property, with priority (\d+)$"), lambda m: dict(prop="<given>", prio=int(m.group(1)))),
    (re.compile(r"^also adds a requirement \(see below\)$"), lambda m: dict(prop="<requirement>", prio=0)),
]


def parse(text):
    """-> {section title: dict(bullets=[...], deps=[...])} for every section between 'General Specifiers'
    and 'Specifier Resolution'.  Raises DocError on anything it does not recognise."""
    lines = text.split("\n")
    try:
        start = next(i for i, l in enumerate(lines) if l.strip() == "General Specifiers")
        end = next(i for i, l in enumerate(lines) if l.strip() == "Specifier Resolution")
    except StopIteration:
        raise DocError("landmarks 'General Specifiers' / 'Specifier Resolution' not found")
    secs, cur = {}, None
    i = start
    while i < end:
        l = lines[i]
        nxt = lines[i + 1] if i + 1 < len(lines) else ""
        if l.strip() and re.fullmatch(r"-{4,}", nxt.strip()) and not l.startswith((" ", "\t", "..")):
            cur = l.strip()
            if cur in secs:
                raise DocError(f"duplicate section {cur!r}")
            secs[cur] = dict(bullets=None, deps=None)
            i += 2
            continue
        if l.strip().startswith("**Specifies**"):
            if cur is None or secs[cur]["bullets"] is not None:
                raise DocError(f"unexpected **Specifies** at line {i + 1}")
            if l.strip() != "**Specifies**:":
                raise DocError(f"unrecognised Specifies line {l!r}")
            bl = []
            i += 1
            while i < end and (not lines[i].strip() or re.match(r"^\s+\* ", lines[i])):
                if lines[i].strip():
                    item = re.sub(r"^\s+\* ", "", lines[i]).strip()
                    for rx, mk in BULLET_RES:
                        m = rx.match(item)
                        if m:
                            bl.append(mk(m))
                            break
                    else:
                        raise DocError(f"unrecognised bullet in section {cur!r}: {item!r}")
                i += 1
            if not bl:
                raise DocError(f"no bullets in section {cur!r}")
            secs[cur]["bullets"] = bl
            continue
        if l.strip().startswith("**Dependencies**"):
            if cur is None or secs[cur]["deps"] is not None:
                raise DocError(f"unexpected **Dependencies** at line {i + 1}")
            m = re.fullmatch(r"\*\*Dependencies\*\*: (.*)", l.strip())
            if not m:
                raise DocError(f"unrecognised Dependencies line {l!r}")
            body = m.group(1).strip()
            if body == "None":
                deps = []
            else:
                deps = []
                for part in body.split("•"):
                    mm = re.fullmatch(r":prop:`(\w+)`", part.strip())
                    if not mm:
                        raise DocError(f"unrecognised dependency {part!r} in section {cur!r}")
                    deps.append(mm.group(1))
            secs[cur]["deps"] = sorted(deps)
        i += 1
    for k, v in secs.items():
        if v["bullets"] is None or v["deps"] is None:
            raise DocError(f"section {k!r} lacks Specifies or Dependencies")
    if not secs:
        raise DocError("no specifier sections found")
    return secs


def expected_row(sec, inst):
    """The documented (prios, deps, modifying, modifiable) of one catalogue instance."""
    pr = []
    modifiable = []
    for b in sec["bullets"]:
        if b.get("cond") == "oriented" and not inst.get("oriented"):
            continue
        prop = inst["given"] if b["prop"] == "<given>" else b["prop"]
        if prop is None:
            raise DocError(f"instance {inst['id']} needs 'given'")
        pr.append([prop, b["prio"]])
        if b.get("modifies"):
            modifiable.append(prop)
    return dict(prios=sorted(pr), deps=sorted(sec["deps"]), mod=bool(modifiable), modifiable=sorted(modifiable))


def code_view(row):
    """The implementation's specifier seen at the level of the reference: internal (underscore) properties
    are how `visible`/`not visible` "also add a requirement"; their priority is not documented."""
    pr = [["<requirement>", 0] if p.startswith("_") else [p, k] for p, k in row["prios"]]
    return dict(prios=sorted(pr), deps=sorted(row["deps"]), mod=bool(row["mod"]), modifiable=sorted(row["modifiable"]))
