#!/bin/sh
# usage: harness/seedtest.sh <PROPERTY> <patch.diff> [tier]   -- run a check against a scratch worktree of /repo with the patch applied
set -e
P="$1"; PATCH="$2"; TIER="${3:-quick}"
WT="/tmp/vt-$P-$$"
git -C /repo worktree add -q --detach "$WT" HEAD
trap 'git -C /repo worktree remove --force "$WT" >/dev/null 2>&1 || true' EXIT
git -C "$WT" apply "$PATCH"
if git -C "$WT" diff --name-only | grep -q scenic.gram; then
  (cd "$WT" && /venv/bin/python -m pegen src/scenic/syntax/scenic.gram -o src/scenic/syntax/parser.py >/dev/null)
else
  cp /repo/src/scenic/syntax/parser.py "$WT/src/scenic/syntax/parser.py"
fi
cd /verif
set +e
VERIF_REPO="$WT" VERIF_EVID_SUFFIX=".seedtest" ./check "$P" --tier "$TIER" 2>&1 | grep -E "VIOLATION|KNOWN-FINDING|^\s+\(|violations=" | head -12
echo "exit=$?"
