"""DynCore programs on the Python side: representation, token stream for the extracted model,
Scenic source printer, generators.  Shared by c12.py and c13.py.

cond  : True | False | int (truth-table row)
stmt  : ("MK",n) ("TK",a) ("WT",) ("DO",b) ("DOF",b,n,unit) ("DOU",b,c) ("WF",n,unit) ("WU",c)
        ("DS",[s..]) ("DSF",[s..],n,unit) ("DSU",[s..],c) ("TRY",body,[(c,stmts)..]) ("AB",) ("BR",)
        ("CO",) ("RT",) ("WH",c,body) ("IF",c,a,b) ("TE",) ("TS",) ("RQ",c)
program: dict(behaviors=[dict(pre,inv,body)], monitors=[body], scenarios=[dict(pre,inv,limit,termwhen,
        monitors,compose,reqs=[rid..])], objects=[b|None], rec_init, records, rec_final, termsim,
        reqs=[(formula tokens "G > a0 X a1", [cond per atom])])   temporal requirements; atoms are numbered
        in the order of their occurrence (= PropositionNode.atomics()), scenario["reqs"] lists the ids its
        setup block states
        limit = None | (n, unit);  unit in "steps"|"seconds"
"""
from fractions import Fraction

import c11_formulas as F


# ------------------------------------------------------------------ tokens for ocaml/c12/driver
def q_tokens(n, unit, timestep):
    if unit == "seconds":
        v = n / float(timestep)          # exactly what the implementation computes (float division)
    else:
        v = n
    f = Fraction(v)
    return [str(f.numerator), str(f.denominator)]


def cond_tokens(c):
    if c is True:
        return ["T"]
    if c is False:
        return ["F"]
    return ["C", str(c)]


def stmts_tokens(ss, ts):
    out = [str(len(ss))]
    for s in ss:
        out += stmt_tokens(s, ts)
    return out


def natlist(l):
    return [str(len(l))] + [str(x) for x in l]


def stmt_tokens(s, ts):
    k = s[0]
    if k in ("MK", "TK", "DO"):
        return [k, str(s[1])]
    if k in ("WT", "AB", "BR", "CO", "RT", "TE", "TS"):
        return [k]
    if k == "DOF":
        return [k, str(s[1])] + q_tokens(s[2], s[3], ts)
    if k == "DOU":
        return [k, str(s[1])] + cond_tokens(s[2])
    if k == "WF":
        return [k] + q_tokens(s[1], s[2], ts)
    if k in ("WU", "RQ"):
        return [k] + cond_tokens(s[1])
    if k == "DS":
        return [k] + natlist(s[1])
    if k == "DSF":
        return [k] + natlist(s[1]) + q_tokens(s[2], s[3], ts)
    if k == "DSU":
        return [k] + natlist(s[1]) + cond_tokens(s[2])
    if k == "TRY":
        out = [k] + stmts_tokens(s[1], ts) + [str(len(s[2]))]
        for c, b in s[2]:
            out += cond_tokens(c) + stmts_tokens(b, ts)
        return out
    if k == "WH":
        return [k] + cond_tokens(s[1]) + stmts_tokens(s[2], ts)
    if k == "IF":
        return [k] + cond_tokens(s[1]) + stmts_tokens(s[2], ts) + stmts_tokens(s[3], ts)
    raise ValueError(k)


def conds_tokens(cs):
    out = [str(len(cs))]
    for c in cs:
        out += cond_tokens(c)
    return out


def program_tokens(p, ts):
    out = [str(len(p["behaviors"]))]
    for b in p["behaviors"]:
        out += conds_tokens(b["pre"]) + conds_tokens(b["inv"]) + stmts_tokens(b["body"], ts)
    out += [str(len(p["monitors"]))]
    for m in p["monitors"]:
        out += stmts_tokens(m, ts)
    out += [str(len(p["scenarios"]))]
    for s in p["scenarios"]:
        out += conds_tokens(s["pre"]) + conds_tokens(s["inv"])
        out += ["N"] if s["limit"] is None else ["Q"] + q_tokens(s["limit"][0], s["limit"][1], ts)
        out += conds_tokens(s["termwhen"]) + natlist(s["monitors"]) + natlist(s.get("reqs", []))
        out += ["N"] if s["compose"] is None else ["Y"] + stmts_tokens(s["compose"], ts)
        out += natlist(s.get("records", []))
        out += [str(len(s.get("termsim", [])))]
        for i, c in s.get("termsim", []):
            out += [str(i)] + cond_tokens(c)
    out += [str(len(p["objects"]))] + [str(-1 if b is None else b) for b in p["objects"]]
    out += natlist(p["rec_init"]) + natlist(p["records"]) + natlist(p["rec_final"])
    out += conds_tokens(p["termsim"])
    out += [str(len(p.get("reqs", [])))]
    for toks, cs in p.get("reqs", []):
        out += toks.split() + conds_tokens(cs)
    return out


def sim_line(p, tab, perms, max_steps, timestep, n=200, fuel=4000, qsub=True):
    out = ["SIM", "1" if qsub else "0", str(n), str(fuel), str(-1 if max_steps is None else max_steps)]
    out += program_tokens(p, timestep)
    out += [str(len(tab))]
    for row in tab:
        out += [str(len(row))] + ["1" if x else "0" for x in row]
    out += [str(len(perms))]
    for pm in perms:
        out += natlist(pm)
    return " ".join(out)


# ------------------------------------------------------------------ Scenic source
def cond_src(c):
    return f"L.c({c})"


def num_src(n):
    return repr(n)


def stmts_src(ss, ind, ctx):
    """ctx = ('B',) | ('M', mid) | ('S', sid)"""
    pad = "    " * ind
    if not ss:
        return [pad + "pass"]
    out = []
    for s in ss:
        k = s[0]
        if k == "MK":
            if ctx[0] == "B":
                out.append(f'{pad}L.ev("B", self.vid, {s[1]})')
            else:
                out.append(f'{pad}L.ev("{ctx[0]}", {ctx[1]}, {s[1]})')
        elif k == "TK":
            out.append(f"{pad}take {s[1]}")
        elif k == "WT":
            out.append(f"{pad}wait")
        elif k == "DO":
            out.append(f"{pad}do B{s[1]}()")
        elif k == "DOF":
            out.append(f"{pad}do B{s[1]}() for {num_src(s[2])} {s[3]}")
        elif k == "DOU":
            out.append(f"{pad}do B{s[1]}() until {cond_src(s[2])}")
        elif k == "WF":
            out.append(f"{pad}wait for {num_src(s[1])} {s[2]}")
        elif k == "WU":
            out.append(f"{pad}wait until {cond_src(s[1])}")
        elif k == "DS":
            out.append(f"{pad}do " + ", ".join(f"S{i}()" for i in s[1]))
        elif k == "DSF":
            out.append(f"{pad}do " + ", ".join(f"S{i}()" for i in s[1]) + f" for {num_src(s[2])} {s[3]}")
        elif k == "DSU":
            out.append(f"{pad}do " + ", ".join(f"S{i}()" for i in s[1]) + f" until {cond_src(s[2])}")
        elif k == "TRY":
            out.append(f"{pad}try:")
            out += stmts_src(s[1], ind + 1, ctx)
            for c, b in s[2]:
                out.append(f"{pad}interrupt when {cond_src(c)}:")
                out += stmts_src(b, ind + 1, ctx)
        elif k == "AB":
            out.append(f"{pad}abort")
        elif k == "BR":
            out.append(f"{pad}break")
        elif k == "CO":
            out.append(f"{pad}continue")
        elif k == "RT":
            out.append(f"{pad}return")
        elif k == "WH":
            out.append(f"{pad}while {cond_src(s[1])}:")
            out += stmts_src(s[2], ind + 1, ctx)
        elif k == "IF":
            out.append(f"{pad}if {cond_src(s[1])}:")
            out += stmts_src(s[2], ind + 1, ctx)
            if s[3]:
                out.append(f"{pad}else:")
                out += stmts_src(s[3], ind + 1, ctx)
        elif k == "TE":
            out.append(f"{pad}terminate")
        elif k == "TS":
            out.append(f"{pad}terminate simulation")
        elif k == "RQ":
            out.append(f"{pad}require {cond_src(s[1])}")
        else:
            raise ValueError(k)
    return out


def guards_src(pre, inv, ind):
    pad = "    " * ind
    return [f"{pad}precondition: {cond_src(c)}" for c in pre] + [f"{pad}invariant: {cond_src(c)}" for c in inv]


def program_src(p):
    L = ["import verif_c12_log as L"]
    for i, b in enumerate(p["behaviors"]):
        L.append(f"behavior B{i}():")
        L += guards_src(b["pre"], b["inv"], 1)
        L += stmts_src(b["body"], 1, ("B",))
    for i, m in enumerate(p["monitors"]):
        L.append(f"monitor M{i}():")
        L += stmts_src(m, 1, ("M", i))
    for i, s in reversed(list(enumerate(p["scenarios"]))):
        L.append(f"scenario {'Main' if i == 0 else 'S' + str(i)}():")
        L += guards_src(s["pre"], s["inv"], 1)
        L.append("    setup:")
        n0 = len(L)
        if i == 0:
            for j, b in enumerate(p["objects"]):
                name = "ego" if j == 0 else f"o{j}"
                L.append(f"        {name} = new Object at ({10 * j}, 0), with vid {j}" + ("" if b is None else f", with behavior B{b}()"))
            for r in p["rec_init"]:
                L.append(f"        record initial L.r({r}) as ri{r}")
            for r in p["records"]:
                L.append(f"        record L.r({r}) as r{r}")
            for r in p["rec_final"]:
                L.append(f"        record final L.r({r}) as rf{r}")
            for idx, c in enumerate(p["termsim"]):
                L.append(f"        terminate simulation when L.tc({idx}, {c})")
        for idx, c in enumerate(s["termwhen"]):
            L.append(f"        terminate when L.tw({i}, {idx}, {c})")
        if i > 0:
            for r in s.get("records", []):
                L.append(f"        record L.r({r}) as r{r}")
            for idx, c in s.get("termsim", []):
                L.append(f"        terminate simulation when L.tc({idx}, {c})")
        if s["limit"] is not None:
            L.append(f"        terminate after {num_src(s['limit'][0])} {s['limit'][1]}")
        for rid in s.get("reqs", []):
            toks, cs = p["reqs"][rid]
            text = F.render(F.parse_tokens(toks.split()), "min", atom=lambda k, i=i, rid=rid, cs=cs: f"L.q({i}, {rid}, {k}, {cs[k]})")
            L.append(f"        require {text}")
        for m in s["monitors"]:
            L.append(f"        require monitor M{m}()")
        if len(L) == n0:
            L.append("        pass")
        if s["compose"] is not None:
            L.append("    compose:")
            L += stmts_src(s["compose"], 2, ("S", i))
    return "\n".join(L) + "\n"


# ------------------------------------------------------------------ small helpers
def walk(ss):
    for s in ss:
        yield s
        k = s[0]
        if k == "TRY":
            yield from walk(s[1])
            for _, b in s[2]:
                yield from walk(b)
        elif k == "WH":
            yield from walk(s[2])
        elif k == "IF":
            yield from walk(s[2])
            yield from walk(s[3])


def all_bodies(p):
    for b in p["behaviors"]:
        yield b["body"]
    for m in p["monitors"]:
        yield m
    for s in p["scenarios"]:
        if s["compose"] is not None:
            yield s["compose"]


def kinds(p):
    out = set()
    for body in all_bodies(p):
        for s in walk(body):
            out.add(s[0])
    return out


def empty_program(nobj=1):
    return dict(behaviors=[], monitors=[], scenarios=[dict(pre=[], inv=[], limit=None, termwhen=[], monitors=[], compose=None, reqs=[],
                                                           records=[], termsim=[])],
                objects=[None] * nobj, rec_init=[], records=[], rec_final=[], termsim=[], reqs=[])


# ------------------------------------------------------------------ random generator
class Gen:
    """Seeded generator of DynCore programs.  Loop bodies always start with take/wait (so no loop
    spins without yielding), behaviours/scenarios only invoke higher-numbered ones (no recursion)."""

    def __init__(self, rng, horizon=8, allow_try=False, try_depth=2):
        self.rng = rng
        self.T = horizon
        self.tab_kinds = []          # per row: bias used to draw it
        self.allow_try = allow_try
        self.try_depth = try_depth
        self.top_guards = 1          # share knob: guards on the top-level scenario
        self.sub_statements = True   # record / terminate simulation when in sub-scenario setups

    def cond(self, bias=0.35, const=0.15):
        r = self.rng.random()
        if r < const:
            return self.rng.random() < 0.5
        self.tab_kinds.append(bias)
        return len(self.tab_kinds) - 1

    def table(self):
        rows = []
        for bias in self.tab_kinds:
            rows.append([self.rng.random() < bias for _ in range(self.T)])
        return rows

    def dur(self, seconds_ok):
        unit = "seconds" if (seconds_ok and self.rng.random() < 0.4) else "steps"
        if unit == "steps":
            n = self.rng.choice([0, 1, 1, 2, 2, 3, 4, 1.5, 2.0, 0.5])
        else:
            n = self.rng.choice([0, 0.1, 0.2, 0.3, 0.5, 0.6, 0.7, 1, 1.5, 2, 0.25, 0.9])
        return n, unit

    def block(self, ctx, depth, subs, n, in_block=False, in_loop=False, tdepth=0):
        out = []
        for _ in range(n):
            out += self.stmt(ctx, depth, subs, in_block, in_loop, tdepth)
        return out

    def first_yield(self, ctx):
        if ctx == "B" and self.rng.random() < 0.7:
            return ("TK", self.rng.randint(1, 9))
        return ("WT",)

    def stmt(self, ctx, depth, subs, in_block, in_loop, tdepth):
        rng = self.rng
        ch = [("MK", 3), ("WT", 2), ("WF", 1), ("WU", 1), ("RQ", 0.25), ("TE", 0.25), ("TS", 0.2)]
        if ctx == "B":
            ch += [("TK", 5)]
            if subs:
                ch += [("DO", 2), ("DOF", 2), ("DOU", 2)]
        if ctx == "S" and subs:
            ch += [("DS", 3), ("DSF", 2), ("DSU", 2)]
        if depth > 0:
            ch += [("WH", 1.2), ("IF", 1.2)]
            if self.allow_try and ctx == "B" and tdepth < self.try_depth:
                ch += [("TRY", 4)]
        if in_block:
            ch += [("AB", 0.8), ("RT", 0.5)]
            ch += [("BR", 0.6), ("CO", 0.4)] if in_loop else []
        elif in_loop:
            ch += [("BR", 0.4), ("CO", 0.3)]
        elif self.allow_try and ctx == "B":
            ch += [("RT", 0.15)]
        k = rng.choices([c[0] for c in ch], [c[1] for c in ch])[0]
        self.mk = getattr(self, "mk", 0) + 1
        if k == "MK":
            return [("MK", self.mk % 80)]
        if k == "TK":
            return [("TK", rng.randint(1, 9))]
        if k == "WT":
            return [("WT",)]
        if k == "WF":
            return [("WF",) + self.dur(self.seconds)]
        if k == "WU":
            return [("WU", self.cond())]
        if k == "RQ":
            return [("RQ", self.cond(bias=0.9, const=0.3))]
        if k == "TE":
            return [("MK", 90), ("TE",)]
        if k == "TS":
            return [("MK", 91), ("TS",)]
        if k == "DO":
            return [("DO", rng.choice(subs))]
        if k == "DOF":
            return [("DOF", rng.choice(subs)) + self.dur(self.seconds)]
        if k == "DOU":
            return [("DOU", rng.choice(subs), self.cond())]
        if k in ("DS", "DSF", "DSU"):
            ids = [rng.choice(subs) for _ in range(rng.choice([1, 1, 2]))]
            if k == "DS":
                return [("DS", ids)]
            if k == "DSF":
                return [("DSF", ids) + self.dur(self.seconds)]
            return [("DSU", ids, self.cond())]
        if k == "WH":
            c = True if rng.random() < 0.4 else self.cond(bias=0.6, const=0)
            body = [self.first_yield(ctx)] + self.block(ctx, depth - 1, subs, rng.randint(0, 2), in_block, True, tdepth)
            return [("WH", c, body)]
        if k == "IF":
            return [("IF", self.cond(bias=0.5, const=0.1), self.block(ctx, depth - 1, subs, rng.randint(1, 2), in_block, in_loop, tdepth),
                     self.block(ctx, depth - 1, subs, rng.randint(0, 1), in_block, in_loop, tdepth))]
        if k == "TRY":
            body = self.block(ctx, depth - 1, subs, rng.randint(1, 3), True, in_loop, tdepth + 1)
            hs = []
            for _ in range(rng.randint(1, 3)):
                # a handler that finishes without yielding while its condition stays true would spin for ever:
                # handlers start with take/wait, or consist of one concluding statement
                if rng.random() < 0.25:
                    hb = [(rng.choice(["AB", "AB", "RT"] + (["BR", "CO"] if in_loop else [])),)]
                else:
                    hb = [self.first_yield(ctx)] + self.block(ctx, depth - 1, subs, rng.randint(0, 2), True, in_loop, tdepth + 1)
                hs.append((self.cond(bias=0.3, const=0.05), hb))
            return [("TRY", body, hs)]
        if k in ("AB", "BR", "CO", "RT"):
            return [(k,)]
        raise ValueError(k)

    REQ_SHAPES = ["G a0", "F a0", "X a0", "! X a0", "X X a0", "U a0 a1", "G F a0", "F G a0", "G > a0 X a1", "& a0 F a1",
                  "| G a0 F a1", "G | a0 a1", "> a0 F a1", "F & a0 X a1", "! F a0", "& G a0 F a1"]
    req_rate = 0.45

    def requirement(self):
        """a temporal requirement whose verdict is likely to be undecided until late (biased rows)"""
        toks = self.rng.choice(self.REQ_SHAPES)
        n = len(F.atoms(F.parse_tokens(toks.split())))
        hi = toks[0] in "G" or toks.startswith("| G") or toks.startswith("& G")
        return toks, [self.cond(bias=(0.85 if (hi and k == 0) else 0.3), const=0) for k in range(n)]

    def ensure_yield(self, ctx, body):
        ys = {"TK", "WT", "WF", "WU", "DO", "DOF", "DOU", "DS", "DSF", "DSU", "TE", "TS"}
        if not any(s[0] in ys for s in walk(body)):
            body.append(self.first_yield(ctx))
        return body

    def program(self):
        rng = self.rng
        self.seconds = rng.random() < 0.35
        timestep = rng.choice([0.5, 0.1, 0.25, 2]) if self.seconds else 1
        nb = rng.randint(1, 4)
        nobj = rng.randint(1, 3)
        ns = rng.choice([1, 1, 2, 3])
        nm = rng.randint(0, 2)
        p = empty_program(nobj)
        for i in range(nb):
            subs = list(range(i + 1, nb))
            body = self.ensure_yield("B", self.block("B", 2, subs, rng.randint(1, 5)))
            p["behaviors"].append(dict(pre=[self.cond(bias=0.95, const=0.5) for _ in range(rng.choice([0, 0, 0, 1]))],
                                       inv=[self.cond(bias=0.93, const=0.3) for _ in range(rng.choice([0, 0, 1]))], body=body))
        p["objects"] = [rng.choice([None, 0, 0, 0, 1 if nb > 1 else 0]) for _ in range(nobj)]
        for i in range(nm):
            p["monitors"].append(self.ensure_yield("M", self.block("M", 2, [], rng.randint(1, 3))))
        p["scenarios"] = []
        for i in range(ns):
            subs = list(range(i + 1, ns))
            comp = None
            if rng.random() < (0.7 if i == 0 else 0.85):
                comp = self.ensure_yield("S", self.block("S", 2, subs, rng.randint(1, 4)))
                if subs and not any(x[0] in ("DS", "DSF", "DSU") for x in walk(comp)):
                    comp.insert(0, rng.choice([("DS", [subs[0]]), ("DS", [subs[0]]), ("DSF", [subs[0]]) + self.dur(self.seconds),
                                                                      ("DSU", [subs[0]], self.cond())]))
            guards = rng.random() < (0.3 if i > 0 else 0.3 * self.top_guards)
            # guards of the top-level scenario are checked when a simulation starts (delayed check): their rows are
            # balanced so that successive simulations of one compiled scenario differ in the outcome
            gb = (0.95, 0.93) if i > 0 else (0.7, 0.8)
            sc = dict(
                pre=[self.cond(bias=gb[0], const=0.5 if i > 0 else 0.1)] if guards and rng.random() < 0.5 else [],
                inv=[self.cond(bias=gb[1], const=0.3 if i > 0 else 0.1)] if guards else [],
                limit=self.dur(self.seconds) if rng.random() < 0.35 else None,
                termwhen=[self.cond(bias=0.15, const=0.05) for _ in range(rng.choice([0, 0, 1, 2] if i == 0 else [0, 0, 0, 1]))],
                monitors=[], compose=comp, records=[], termsim=[])
            if i > 0 and self.sub_statements:
                # `record` / `terminate simulation when` stated by the setup block of a sub-scenario: evaluated while
                # an instance of it is running (ids 100*class + j)
                sc["records"] = [100 * i + j for j in range(rng.choice([0, 1, 1, 2]))]
                sc["termsim"] = [(100 * i + j, self.cond(bias=0.1, const=0.05)) for j in range(rng.choice([0, 0, 1]))]
            p["scenarios"].append(sc)
        for m in range(nm):
            p["scenarios"][rng.randrange(ns)]["monitors"].append(m)
        p["reqs"] = []
        for i in range(ns):
            p["scenarios"][i]["reqs"] = []
            if rng.random() < self.req_rate:
                for _ in range(rng.choice([1, 1, 2])):
                    p["scenarios"][i]["reqs"].append(len(p["reqs"]))
                    p["reqs"].append(self.requirement())
        nrec = rng.randint(0, 2)
        p["records"] = list(range(nrec))
        p["rec_init"] = [10] if rng.random() < 0.3 else []
        p["rec_final"] = [20] if rng.random() < 0.3 else []
        p["termsim"] = [self.cond(bias=0.12, const=0.05) for _ in range(rng.choice([0, 0, 1, 2]))]
        return p, timestep


def probe_submonitor_program():
    """tiny witness: a monitor of a sub-scenario executes `terminate`; documented: only the
    sub-scenario stops and Main goes on (3 more steps)"""
    p = empty_program(1)
    p["monitors"] = [[("WT",), ("MK", 90), ("TE",)]]
    p["scenarios"][0]["compose"] = [("DS", [1]), ("MK", 1), ("WT",), ("WT",)]
    p["scenarios"].append(dict(pre=[], inv=[], limit=None, termwhen=[], monitors=[0], compose=[("WH", True, [("WT",)])]))
    return p


# ------------------------------------------------------------------ structural shapes of finding F27
def sub_classes_with_statements(p):
    return {i for i, s in enumerate(p["scenarios"]) if i > 0 and (s.get("records") or s.get("termsim"))}


def reach(p, ids):
    """scenario classes reachable from the given ones through `do` statements of their compose blocks"""
    seen = set()
    todo = list(ids)
    while todo:
        i = todo.pop()
        if i in seen or i >= len(p["scenarios"]):
            continue
        seen.add(i)
        for s in walk(p["scenarios"][i]["compose"] or []):
            if s[0] in ("DS", "DSF", "DSU"):
                todo += list(s[1])
    return seen


def f27_shape(p, run_index):
    """(a) a `do S for/until` in a compose block whose sub-scenarios (transitively) state records / simulation
    termination conditions: they stay in the parent's _subScenarios after the handler stopped them;
    (b) a later simulation of the same compiled scenario whose top-level compose block does not start with a `do`:
    the top-level scenario object still lists the previous simulation's sub-scenarios."""
    marked = sub_classes_with_statements(p)
    if not marked:
        return None
    for sc in p["scenarios"]:
        for s in walk(sc["compose"] or []):
            if s[0] in ("DSF", "DSU") and reach(p, s[1]) & marked:
                return "a"
    if run_index > 0:
        comp = [s for s in (p["scenarios"][0]["compose"] or []) if s[0] != "MK"]
        if not comp or comp[0][0] not in ("DS", "DSF", "DSU"):
            return "b"
    return None


def f29_shape(p, impl_events, first_index):
    """residual shapes of finding F27 (F29): a sub-scenario that stopped ON ITS OWN stays in its parent's _subScenarios
    when the parent's `_invokeInner` loop does not get to the point where it filters the list:
    (c) `do A, B` where a later sibling executes `terminate simulation` in the very step an earlier sibling stopped
        (`yield terminationReason` inside the loop, before `self._subScenarios = newSubs`);
    (d) a sub-scenario stopped by `terminate` in one of its monitors (after the compose phase of that step) whose
        ancestors never resume the compose block that runs it (time limit reached in the next step, or the simulation
        ends in the next step through another sub-scenario).
    Evidence is taken from the implementation's own log before the first difference: (c) a compose block of a scenario
    reachable from a later sibling logged mark 91 (= the statement before `terminate simulation`) in the current step;
    (d) a monitor instantiated by a sub-scenario class logged mark 90 (= the statement before `terminate`)."""
    marked = sub_classes_with_statements(p)
    if not marked:
        return None
    ev = impl_events[:first_index]
    last_k = max((i for i, e in enumerate(ev) if e and e[0] == "K"), default=-1)
    step_ev = ev[last_k + 1:]
    for sc in p["scenarios"]:
        for s in walk(sc["compose"] or []):
            if s[0] in ("DS", "DSF", "DSU") and len(s[1]) >= 2:
                for j in range(1, len(s[1])):
                    later = reach(p, [s[1][j]])
                    if reach(p, s[1][:j]) & marked and any(e[0] == "S" and len(e) == 3 and e[2] == 91 and e[1] in later for e in step_ev):
                        return "c"
    for i, sc in enumerate(p["scenarios"]):
        if i > 0 and reach(p, [i]) & marked:
            for m in sc.get("monitors", []):
                if any(e[0] == "M" and len(e) == 3 and e[1] == m and e[2] == 90 for e in ev):
                    return "d"
    return None
