"""DynCore programs on the Python side: representation, token stream for the extracted model,
Scenic source printer, generators.  Shared by c12.py and c13.py.

cond  : True | False | int (truth-table row)
stmt  : ("MK",n) ("TK",a) ("WT",) ("DO",b) ("DOF",b,n,unit) ("DOU",b,c) ("WF",n,unit) ("WU",c)
        ("DS",[s..]) ("DSF",[s..],n,unit) ("DSU",[s..],c) ("TRY",body,[(c,stmts)..]) ("AB",) ("BR",)
        ("CO",) ("RT",) ("WH",c,body) ("IF",c,a,b) ("TE",) ("TS",) ("RQ",c)
program: dict(behaviors=[dict(pre,inv,body)], monitors=[body], scenarios=[dict(pre,inv,limit,termwhen,
        monitors,compose)], objects=[b|None], rec_init, records, rec_final, termsim)
        limit = None | (n, unit);  unit in "steps"|"seconds"
"""
from fractions import Fraction


# ------------------------------------------------------------------ tokens for ocaml/c12/driver
def q_tokens(n, unit, timestep):
    if unit == "seconds":
        v = n / float(timestep)          # exactly what the implementation computes (float division)
    else:
        v = n
    f = Fraction(v)
    return [str(f.numerator), str(f.denominator)]


def cond_tokens(c):
    if c is True:
        return ["T"]
    if c is False:
        return ["F"]
    return ["C", str(c)]


def stmts_tokens(ss, ts):
    out = [str(len(ss))]
    for s in ss:
        out += stmt_tokens(s, ts)
    return out


def natlist(l):
    return [str(len(l))] + [str(x) for x in l]


def stmt_tokens(s, ts):
    k = s[0]
    if k in ("MK", "TK", "DO"):
        return [k, str(s[1])]
    if k in ("WT", "AB", "BR", "CO", "RT", "TE", "TS"):
        return [k]
    if k == "DOF":
        return [k, str(s[1])] + q_tokens(s[2], s[3], ts)
    if k == "DOU":
        return [k, str(s[1])] + cond_tokens(s[2])
    if k == "WF":
        return [k] + q_tokens(s[1], s[2], ts)
    if k in ("WU", "RQ"):
        return [k] + cond_tokens(s[1])
    if k == "DS":
        return [k] + natlist(s[1])
    if k == "DSF":
        return [k] + natlist(s[1]) + q_tokens(s[2], s[3], ts)
    if k == "DSU":
        return [k] + natlist(s[1]) + cond_tokens(s[2])
    if k == "TRY":
        out = [k] + stmts_tokens(s[1], ts) + [str(len(s[2]))]
        for c, b in s[2]:
            out += cond_tokens(c) + stmts_tokens(b, ts)
        return out
    if k == "WH":
        return [k] + cond_tokens(s[1]) + stmts_tokens(s[2], ts)
    if k == "IF":
        return [k] + cond_tokens(s[1]) + stmts_tokens(s[2], ts) + stmts_tokens(s[3], ts)
    raise ValueError(k)


def conds_tokens(cs):
    out = [str(len(cs))]
    for c in cs:
        out += cond_tokens(c)
    return out


def program_tokens(p, ts):
    out = [str(len(p["behaviors"]))]
    for b in p["behaviors"]:
        out += conds_tokens(b["pre"]) + conds_tokens(b["inv"]) + stmts_tokens(b["body"], ts)
    out += [str(len(p["monitors"]))]
    for m in p["monitors"]:
        out += stmts_tokens(m, ts)
    out += [str(len(p["scenarios"]))]
    for s in p["scenarios"]:
        out += conds_tokens(s["pre"]) + conds_tokens(s["inv"])
        out += ["N"] if s["limit"] is None else ["Q"] + q_tokens(s["limit"][0], s["limit"][1], ts)
        out += conds_tokens(s["termwhen"]) + natlist(s["monitors"])
        out += ["N"] if s["compose"] is None else ["Y"] + stmts_tokens(s["compose"], ts)
    out += [str(len(p["objects"]))] + [str(-1 if b is None else b) for b in p["objects"]]
    out += natlist(p["rec_init"]) + natlist(p["records"]) + natlist(p["rec_final"])
    out += conds_tokens(p["termsim"])
    return out


def sim_line(p, tab, perms, max_steps, timestep, n=200, fuel=4000):
    out = ["SIM", str(n), str(fuel), str(-1 if max_steps is None else max_steps)]
    out += program_tokens(p, timestep)
    out += [str(len(tab))]
    for row in tab:
        out += [str(len(row))] + ["1" if x else "0" for x in row]
    out += [str(len(perms))]
    for pm in perms:
        out += natlist(pm)
    return " ".join(out)


# ------------------------------------------------------------------ Scenic source
def cond_src(c):
    return f"L.c({c})"


def num_src(n):
    return repr(n)


def stmts_src(ss, ind, ctx):
    """ctx = ('B',) | ('M', mid) | ('S', sid)"""
    pad = "    " * ind
    if not ss:
        return [pad + "pass"]
    out = []
    for s in ss:
        k = s[0]
        if k == "MK":
            if ctx[0] == "B":
                out.append(f'{pad}L.ev("B", self.vid, {s[1]})')
            else:
                out.append(f'{pad}L.ev("{ctx[0]}", {ctx[1]}, {s[1]})')
        elif k == "TK":
            out.append(f"{pad}take {s[1]}")
        elif k == "WT":
            out.append(f"{pad}wait")
        elif k == "DO":
            out.append(f"{pad}do B{s[1]}()")
        elif k == "DOF":
            out.append(f"{pad}do B{s[1]}() for {num_src(s[2])} {s[3]}")
        elif k == "DOU":
            out.append(f"{pad}do B{s[1]}() until {cond_src(s[2])}")
        elif k == "WF":
            out.append(f"{pad}wait for {num_src(s[1])} {s[2]}")
        elif k == "WU":
            out.append(f"{pad}wait until {cond_src(s[1])}")
        elif k == "DS":
            out.append(f"{pad}do " + ", ".join(f"S{i}()" for i in s[1]))
        elif k == "DSF":
            out.append(f"{pad}do " + ", ".join(f"S{i}()" for i in s[1]) + f" for {num_src(s[2])} {s[3]}")
        elif k == "DSU":
            out.append(f"{pad}do " + ", ".join(f"S{i}()" for i in s[1]) + f" until {cond_src(s[2])}")
        elif k == "TRY":
            out.append(f"{pad}try:")
            out += stmts_src(s[1], ind + 1, ctx)
            for c, b in s[2]:
                out.append(f"{pad}interrupt when {cond_src(c)}:")
                out += stmts_src(b, ind + 1, ctx)
        elif k == "AB":
            out.append(f"{pad}abort")
        elif k == "BR":
            out.append(f"{pad}break")
        elif k == "CO":
            out.append(f"{pad}continue")
        elif k == "RT":
            out.append(f"{pad}return")
        elif k == "WH":
            out.append(f"{pad}while {cond_src(s[1])}:")
            out += stmts_src(s[2], ind + 1, ctx)
        elif k == "IF":
            out.append(f"{pad}if {cond_src(s[1])}:")
            out += stmts_src(s[2], ind + 1, ctx)
            if s[3]:
                out.append(f"{pad}else:")
                out += stmts_src(s[3], ind + 1, ctx)
        elif k == "TE":
            out.append(f"{pad}terminate")
        elif k == "TS":
            out.append(f"{pad}terminate simulation")
        elif k == "RQ":
            out.append(f"{pad}require {cond_src(s[1])}")
        else:
            raise ValueError(k)
    return out


def guards_src(pre, inv, ind):
    pad = "    " * ind
    return [f"{pad}precondition: {cond_src(c)}" for c in pre] + [f"{pad}invariant: {cond_src(c)}" for c in inv]


def program_src(p):
    L = ["import verif_c12_log as L"]
    for i, b in enumerate(p["behaviors"]):
        L.append(f"behavior B{i}():")
        L += guards_src(b["pre"], b["inv"], 1)
        L += stmts_src(b["body"], 1, ("B",))
    for i, m in enumerate(p["monitors"]):
        L.append(f"monitor M{i}():")
        L += stmts_src(m, 1, ("M", i))
    for i, s in reversed(list(enumerate(p["scenarios"]))):
        L.append(f"scenario {'Main' if i == 0 else 'S' + str(i)}():")
        L += guards_src(s["pre"], s["inv"], 1)
        L.append("    setup:")
        n0 = len(L)
        if i == 0:
            for j, b in enumerate(p["objects"]):
                name = "ego" if j == 0 else f"o{j}"
                L.append(f"        {name} = new Object at ({10 * j}, 0), with vid {j}" + ("" if b is None else f", with behavior B{b}()"))
            for r in p["rec_init"]:
                L.append(f"        record initial L.r({r}) as ri{r}")
            for r in p["records"]:
                L.append(f"        record L.r({r}) as r{r}")
            for r in p["rec_final"]:
                L.append(f"        record final L.r({r}) as rf{r}")
            for idx, c in enumerate(p["termsim"]):
                L.append(f"        terminate simulation when L.tc({idx}, {c})")
        for idx, c in enumerate(s["termwhen"]):
            L.append(f"        terminate when L.tw({i}, {idx}, {c})")
        if s["limit"] is not None:
            L.append(f"        terminate after {num_src(s['limit'][0])} {s['limit'][1]}")
        for m in s["monitors"]:
            L.append(f"        require monitor M{m}()")
        if len(L) == n0:
            L.append("        pass")
        if s["compose"] is not None:
            L.append("    compose:")
            L += stmts_src(s["compose"], 2, ("S", i))
    return "\n".join(L) + "\n"


# ------------------------------------------------------------------ small helpers
def walk(ss):
    for s in ss:
        yield s
        k = s[0]
        if k == "TRY":
            yield from walk(s[1])
            for _, b in s[2]:
                yield from walk(b)
        elif k == "WH":
            yield from walk(s[2])
        elif k == "IF":
            yield from walk(s[2])
            yield from walk(s[3])


def all_bodies(p):
    for b in p["behaviors"]:
        yield b["body"]
    for m in p["monitors"]:
        yield m
    for s in p["scenarios"]:
        if s["compose"] is not None:
            yield s["compose"]


def kinds(p):
    out = set()
    for body in all_bodies(p):
        for s in walk(body):
            out.add(s[0])
    return out


def empty_program(nobj=1):
    return dict(behaviors=[], monitors=[], scenarios=[dict(pre=[], inv=[], limit=None, termwhen=[], monitors=[], compose=None)],
                objects=[None] * nobj, rec_init=[], records=[], rec_final=[], termsim=[])
