"""C20 implementation driver: runs inside /venv/bin/python with Scenic from $VERIF_REPO.
JSON job on stdin, JSON result on the last stdout line.

kinds of job
  export : build the network of one (map, options) through Network.fromFile – once by parsing (cache
           written to a scratch copy), once through the cache – and export BOTH as plain data
           (fail-closed over the element classes); sample points and record every lookup together with
           the elements' own containsPoint/distanceTo answers; probe the cache protocol.
  hash   : deterministicHash of option maps.
"""
import hashlib
import json
import math
import os
import random
import shutil
import struct
import sys
import time
import warnings

warnings.filterwarnings("ignore")


class ExportError(Exception):
    pass


# ----------------------------------------------------------------------------- exporter
# Attribute tables: for every element class, every attrs field must be listed with its kind.
#   ref:<Cls,...>  optional link to one element       refs:<Cls>  tuple/list of elements
#   mans           tuple of Maneuver                     byid        dict int -> LaneSection
#   geo            geometry / scalar data, goes into the element's digest
#   skip           (network back-pointer, derived regions)
COMMON = {"polygon": "geo", "orientation": "orient", "name": "geo", "uid": "uid", "id": "geo", "network": "skip",
          "vehicleTypes": "geo", "speedLimit": "geo", "tags": "geo"}
LINEAR = dict(COMMON, centerline="geo", leftEdge="geo", rightEdge="geo")
TABLE = {
    "Road": dict(LINEAR, _successor="ref:Road,Intersection", _predecessor="ref:Road,Intersection",
                 lanes="refs:Lane", forwardLanes="ref:LaneGroup", backwardLanes="ref:LaneGroup",
                 laneGroups="refs:LaneGroup", sections="refs:RoadSection", signals="geo",
                 crossings="refs:PedestrianCrossing", sidewalks="refs:Sidewalk", sidewalkRegion="skip"),
    "LaneGroup": dict(LINEAR, _successor="ref:LaneGroup,Intersection", _predecessor="ref:LaneGroup,Intersection",
                      road="ref:Road", lanes="refs:Lane", curb="geo", _sidewalk="ref:Sidewalk",
                      _bikeLane="ref:Lane", _shoulder="ref:Shoulder", _opposite="ref:LaneGroup"),
    "Lane": dict(LINEAR, _successor="ref:Lane", _predecessor="ref:Lane", group="ref:LaneGroup", road="ref:Road",
                 sections="refs:LaneSection", adjacentLanes="refs:Lane", maneuvers="mans"),
    "RoadSection": dict(LINEAR, _successor="ref:RoadSection,Intersection", _predecessor="ref:RoadSection,Intersection",
                        road="ref:Road", lanes="refs:LaneSection", forwardLanes="refs:LaneSection",
                        backwardLanes="refs:LaneSection", lanesByOpenDriveID="byid"),
    "LaneSection": dict(LINEAR, _successor="ref:LaneSection", _predecessor="ref:LaneSection", lane="ref:Lane",
                        group="ref:LaneGroup", road="ref:Road", openDriveID="int", isForward="bool",
                        adjacentLanes="refs:LaneSection", _laneToLeft="ref:LaneSection", _laneToRight="ref:LaneSection",
                        _fasterLane="ref:LaneSection", _slowerLane="ref:LaneSection"),
    "Sidewalk": dict(LINEAR, _successor="ref:Sidewalk", _predecessor="ref:Sidewalk", road="ref:Road",
                     crossings="refs:PedestrianCrossing"),
    "PedestrianCrossing": dict(LINEAR, _successor="ref:PedestrianCrossing", _predecessor="ref:PedestrianCrossing",
                               parent="ref:Road,Intersection", startSidewalk="ref:Sidewalk", endSidewalk="ref:Sidewalk"),
    "Shoulder": dict(LINEAR, _successor="ref:Shoulder", _predecessor="ref:Shoulder", road="ref:Road"),
    "Intersection": dict(COMMON, roads="refs:Road", incomingLanes="refs:Lane", outgoingLanes="refs:Lane",
                         maneuvers="mans", signals="geo", crossings="refs:PedestrianCrossing"),
}
# non-attrs instance attributes holding links (set dynamically by the parser)
DYNAMIC = {"Shoulder": {"group": "ref:LaneGroup"}}
MANEUVER = {"type": "mtype", "startLane": "ref:Lane", "endLane": "ref:Lane", "connectingLane": "ref:Lane",
            "intersection": "ref:Intersection"}
NETWORK = {"elements": "elements", "roads": "refs:Road", "connectingRoads": "refs:Road", "allRoads": "refs:Road",
           "laneGroups": "refs:LaneGroup", "lanes": "refs:Lane", "intersections": "refs:Intersection",
           "crossings": "refs:PedestrianCrossing", "sidewalks": "refs:Sidewalk", "shoulders": "refs:Shoulder",
           "roadSections": "refs:RoadSection", "laneSections": "refs:LaneSection", "driveOnLeft": "bool",
           "tolerance": "float", "drivableRegion": "skip", "walkableRegion": "skip", "roadRegion": "skip",
           "laneRegion": "skip", "intersectionRegion": "skip", "crossingRegion": "skip", "sidewalkRegion": "skip",
           "curbRegion": "skip", "shoulderRegion": "skip", "roadDirection": "skip"}


def _geo_bytes(v):
    """Canonical bytes of a geometric / scalar attribute (fail-closed)."""
    import shapely
    from scenic.core.regions import PolygonalRegion, PolylineRegion
    from scenic.domains.driving.roads import Signal
    if v is None:
        return b"N"
    if isinstance(v, (bool, int, float, str)):
        return repr(v).encode()
    if isinstance(v, frozenset):
        return b"{" + b",".join(sorted(_geo_bytes(getattr(x, "name", x)) for x in v)) + b"}"
    if isinstance(v, (tuple, list)):
        return b"(" + b",".join(_geo_bytes(x) for x in v) + b")"
    if isinstance(v, Signal):
        return _geo_bytes((v.uid, v.openDriveID, v.country, v.type))
    if isinstance(v, shapely.geometry.base.BaseGeometry):
        return shapely.to_wkb(v)
    if isinstance(v, PolylineRegion):
        return shapely.to_wkb(v.lineString)
    if isinstance(v, PolygonalRegion):
        return shapely.to_wkb(v.polygons)
    raise ExportError(f"unknown geometric attribute kind {type(v).__name__}")


def export_network(net):
    """Plain-data image of a Network (every link by uid; maneuvers numbered in traversal order)."""
    import attr
    from scenic.core.vectors import VectorField
    from scenic.domains.driving import roads as R

    def cls_of(e):
        n = type(e).__name__
        if n not in TABLE or type(e) is not getattr(R, n):
            raise ExportError(f"unknown element class {type(e).__module__}.{n}")
        return n

    def ref(v, kind, where):
        if v is None:
            return None
        if isinstance(v, int) and not isinstance(v, bool):
            raw_links.append([where, v])   # a raw OpenDRIVE lane id left in a link: exported as a dangling link
            return "<raw>"
        if not isinstance(v, R.NetworkElement):
            raise ExportError(f"{where}: link holds a {type(v).__name__} ({v!r:.60}) instead of a network element")
        allowed = kind.split(":", 1)[1].split(",")
        if cls_of(v) not in allowed:
            raise ExportError(f"{where}: link to a {cls_of(v)} where {allowed} expected")
        return v.uid

    def refs(v, kind, where):
        if not isinstance(v, (tuple, list)):
            raise ExportError(f"{where}: expected a tuple of elements, got {type(v).__name__}")
        out = []
        for x in v:
            if x is None:
                raise ExportError(f"{where}: None inside a tuple of elements")
            out.append(ref(x, "ref:" + kind.split(":", 1)[1], where))
        return out

    man_ids = {}
    mans = []
    raw_links = []

    def man_id(m, where):
        if not isinstance(m, R.Maneuver):
            raise ExportError(f"{where}: {type(m).__name__} in a maneuver tuple")
        if id(m) not in man_ids:
            man_ids[id(m)] = len(mans) + 1
            names = {a.name for a in attr.fields(type(m))}
            if names != set(MANEUVER):
                raise ExportError(f"Maneuver attributes changed: {sorted(names ^ set(MANEUVER))}")
            d = {}
            for k, kind in MANEUVER.items():
                v = getattr(m, k)
                if kind == "mtype":
                    if not isinstance(v, R.ManeuverType):
                        raise ExportError(f"maneuver type {v!r}")
                    d[k] = v.name
                else:
                    d[k] = ref(v, kind, f"{where}.{k}")
            mans.append(d)
            d["_obj"] = m
        return man_ids[id(m)]

    elems = []
    if not isinstance(net.elements, dict):
        raise ExportError("Network.elements is not a dict")
    for key, e in net.elements.items():
        c = cls_of(e)
        table = dict(TABLE[c])
        names = [a.name for a in attr.fields(type(e))]
        unknown = [n for n in names if n not in table]
        missing = [n for n in table if n not in names]
        if unknown or missing:
            raise ExportError(f"{c}: attribute set changed (unknown {unknown}, missing {missing})")
        table.update(DYNAMIC.get(c, {}))
        # any other instance attribute holding elements/maneuvers is an unknown link kind
        for k, v in e.__dict__.items():
            if k in table or k.lstrip("_") in table or ("_" + k) in table or v is e:
                continue  # (`_conditioned` of a Samplable is the element itself)
            vs = v if isinstance(v, (tuple, list)) else (list(v.values()) if isinstance(v, dict) else [v])
            if any(isinstance(x, (R.NetworkElement, R.Maneuver, R._ElementPlaceholder)) for x in vs):
                raise ExportError(f"{c}.{k}: unknown attribute holding network elements")
        d = {"key": key, "cls": c, "uid": e.uid}
        h = hashlib.blake2b(digest_size=8)
        for k in sorted(table):
            kind = table[k]
            if k in DYNAMIC.get(c, {}) and k not in e.__dict__:
                d[k] = None
                continue
            v = getattr(e, k)
            where = f"{e.uid}.{k}"
            if kind == "geo":
                h.update(k.encode() + b"=" + _geo_bytes(v) + b";")
            elif kind == "orient":
                if not isinstance(v, VectorField):
                    raise ExportError(f"{where}: orientation is {type(v).__name__}")
            elif kind in ("skip", "uid"):
                pass
            elif kind.startswith("ref:"):
                d[k] = ref(v, kind, where)
            elif kind.startswith("refs:"):
                d[k] = refs(v, kind, where)
            elif kind == "mans":
                if not isinstance(v, (tuple, list)):
                    raise ExportError(f"{where}: maneuvers is {type(v).__name__}")
                d[k] = [man_id(m, where) for m in v]
            elif kind == "byid":
                if not isinstance(v, dict):
                    raise ExportError(f"{where}: not a dict")
                d[k] = sorted([int(i), ref(x, "ref:LaneSection", where)] for i, x in v.items())
            elif kind == "int":
                if not isinstance(v, int) or isinstance(v, bool):
                    raise ExportError(f"{where}: not an int")
                d[k] = v
            elif kind == "bool":
                if not isinstance(v, bool):
                    raise ExportError(f"{where}: not a bool")
                d[k] = v
            else:
                raise ExportError(f"unhandled kind {kind}")
        d["geo"] = int.from_bytes(h.digest(), "big") >> 34   # 30 bits: cheap for coqc to parse
        elems.append(d)
    names = {a.name for a in attr.fields(type(net))}
    if names != set(NETWORK):
        raise ExportError(f"Network attributes changed: {sorted(names ^ set(NETWORK))}")
    n = {}
    for k, kind in NETWORK.items():
        v = getattr(net, k)
        if kind.startswith("refs:"):
            n[k] = refs(v, kind, "Network." + k)
        elif kind == "bool":
            n[k] = bool(v)
        elif kind == "float":
            n[k] = float(v)
    n["elements"] = [d["key"] for d in elems]
    # lookup orders used by elementAt / nominalDirectionsAt (observable only through their results; recorded
    # here from the documented priority order so that the model's find_point_in has its element lists)
    for m in mans:
        del m["_obj"]
    return {"elems": elems, "mans": mans, "net": n, "raw_links": raw_links}


# ----------------------------------------------------------------------------- geometry probes
def _pt_in(region, rng):
    import shapely
    poly = region.polygons
    minx, miny, maxx, maxy = poly.bounds
    for _ in range(2000):
        x, y = rng.uniform(minx, maxx), rng.uniform(miny, maxy)
        if poly.intersects(shapely.geometry.Point(x, y)):
            return (x, y)
    return None


def sample_points(net, npts, rng):
    """Points: uniform in drivable / shoulder / sidewalk regions, in a band just outside, on element
    boundaries pushed outward by fractions of the tolerance, and inside randomly chosen small elements."""
    import shapely
    from scenic.core.regions import PolygonalRegion
    pts = []
    tol = net.tolerance
    regions = [("drivable", net.drivableRegion), ("shoulder", net.shoulderRegion), ("sidewalk", net.sidewalkRegion)]
    regions = [(k, r) for k, r in regions if isinstance(r, PolygonalRegion) and not r.polygons.is_empty]
    top = shapely.union_all([r.polygons for _, r in regions])
    band_w = max(3 * tol, 0.3)
    band = top.buffer(band_w).difference(top)
    if not band.is_empty:
        regions.append(("band", PolygonalRegion(polygon=band)))
    sections = list(net.laneSections)
    inters = list(net.intersections)
    for i in range(npts):
        r = i % 8
        p = None
        if r in (0, 1) or not sections:
            kind, reg = regions[0]
            p = _pt_in(reg, rng)
        elif r == 2:
            kind, reg = regions[rng.randrange(len(regions))]
            p = _pt_in(reg, rng)
        elif r == 3 and regions[-1][0] == "band":
            kind, reg = regions[-1]
            p = _pt_in(reg, rng)
        elif r == 4 and inters:
            kind = "intersection"
            p = _pt_in(rng.choice(inters), rng)
        elif r == 5:
            kind = "lanesection"
            p = _pt_in(rng.choice(sections), rng)
        else:
            # near an element boundary: a boundary point pushed outward by f * tolerance
            kind = "edge"
            e = rng.choice(sections if r == 6 or not inters else inters + list(net.shoulders) + list(net.sidewalks))
            ring = e.polygons.geoms[0].exterior
            q = ring.interpolate(rng.uniform(0, ring.length))
            f = rng.choice([-0.5, 0.25, 0.5, 0.9, 1.5, 3.0]) * (tol if tol > 0 else 0.05)
            ang = rng.uniform(0, 2 * math.pi)
            p = (q.x + f * math.cos(ang), q.y + f * math.sin(ang))
        if p is None:
            kind, reg = regions[0]
            p = _pt_in(reg, rng)
        if p is not None:
            pts.append((kind, float(p[0]), float(p[1])))
    return pts


def angle_diff(a, b):
    d = (a - b) % (2 * math.pi)
    return min(d, 2 * math.pi - d)


def tangent_error(elem, p):
    """Smallest angle between `heading` candidates and the centreline segments nearest to p, plus the
    distance margin telling whether p is away from a vertex bisector (ambiguous nearest segment)."""
    import shapely
    pts = list(elem.centerline.points)
    P = shapely.geometry.Point(p)
    best = []
    for a, b in zip(pts, pts[1:]):
        if a[:2] == b[:2]:
            continue
        seg = shapely.geometry.LineString([a[:2], b[:2]])
        best.append((seg.distance(P), math.atan2(b[1] - a[1], b[0] - a[0]) - math.pi / 2))
    best.sort()
    return best


def probe_points(net, pts):
    """For every point: what the lookups return, and the raw containsPoint / distanceTo answers of the
    candidate elements (the model's find_point_in is fed with these)."""
    from scenic.core.vectors import Vector
    from scenic.core.distributions import RejectionException
    out = []
    tol = net.tolerance
    lists = {"element": list(net.intersections) + list(net.roads) + list(net.shoulders) + list(net.sidewalks),
             "road": list(net.allRoads), "lane": list(net.lanes), "intersection": list(net.intersections),
             "sidewalk": list(net.sidewalks), "shoulder": list(net.shoulders)}
    allel = list(net.elements.values())
    import shapely
    tree = shapely.STRtree([e.polygons for e in allel])
    for kind, x, y in pts:
        v = Vector(x, y)
        P = shapely.geometry.Point(x, y)
        near = [allel[i] for i in tree.query(P.buffer(max(tol, 0) * 1.5 + 1e-6), predicate="intersects")]
        ans = {}
        for e in near:
            ans[e.uid] = [bool(e.containsPoint(v)), float(e.distanceTo(v))]
        rec = {"kind": kind, "p": [x, y], "ans": ans, "look": {}}

        def uid(e):
            return None if e is None else e.uid
        L = rec["look"]
        L["element"] = uid(net.elementAt(v))
        L["road"] = uid(net.roadAt(v))
        L["lane"] = uid(net.laneAt(v))
        L["laneSection"] = uid(net.laneSectionAt(v))
        L["laneGroup"] = uid(net.laneGroupAt(v))
        L["intersection"] = uid(net.intersectionAt(v))
        L["sidewalk"] = uid(net.sidewalkAt(v))
        L["shoulder"] = uid(net.shoulderAt(v))
        # reject=True must raise exactly when the plain lookup returns None
        rej = {}
        for name, fn in (("element", net.elementAt), ("road", net.roadAt), ("lane", net.laneAt)):
            try:
                r = fn(v, reject=True)
                rej[name] = uid(r)
            except RejectionException:
                rej[name] = "REJECT"
        rec["reject"] = rej
        # nested lookups (road.laneAt, group.laneAt, lane.sectionAt, road.sectionAt) – the candidate lists
        road = net.roadAt(v)
        if road is not None:
            L["road.lane"] = uid(road.laneAt(v))
            L["road.section"] = uid(road.sectionAt(v))
            L["road.laneGroup"] = uid(road.laneGroupAt(v))
            L["road.laneSection"] = uid(road.laneSectionAt(v))
            rec["road_lists"] = {"lanes": [l.uid for l in road.lanes], "sections": [s.uid for s in road.sections],
                                 "laneGroups": [g.uid for g in road.laneGroups]}
        lane = net.laneAt(v)
        if lane is not None:
            L["lane.section"] = uid(lane.sectionAt(v))
            L["group.lane"] = uid(lane.group.laneAt(v))
        # directions
        dirs = net.nominalDirectionsAt(v)
        rec["dirs"] = [float(d.yaw) for d in dirs]
        rd = net.roadDirection[v]
        rec["roadDirection"] = float(rd.yaw)
        el = net.findPointIn(v, list(net.intersections) + list(net.roads) + list(net.shoulders), False)
        rec["direl"] = uid(el)
        # tangent candidates: nearest centreline segments of the lane (or connecting lanes / shoulder)
        tang = []
        if el is not None:
            from scenic.domains.driving.roads import Intersection, Road, Shoulder
            if isinstance(el, Intersection):
                cont = [m.connectingLane for m in el.maneuvers if m.connectingLane.containsPoint(v)]
                if not cont and tol > 0:
                    cont = [m.connectingLane for m in el.maneuvers if m.connectingLane.distanceTo(v) <= tol]
                rec["conn_exact"] = bool(cont)
                if not cont:
                    dmin = min(m.connectingLane.distanceTo(v) for m in el.maneuvers)
                    cont = [m.connectingLane for m in el.maneuvers if m.connectingLane.distanceTo(v) <= dmin + 1e-9]
                seen = set()
                for cl in cont:
                    if cl.uid not in seen:
                        seen.add(cl.uid)
                        tang.append([cl.uid, tangent_error(cl, (x, y))[:3]])
            elif isinstance(el, Shoulder):
                tang.append([el.uid, tangent_error(el, (x, y))[:3]])
            else:
                # Road.orientation -> laneGroupAt -> LaneGroup.orientation -> laneAt -> the LANE's centreline
                grp = el.laneGroupAt(v) if isinstance(el, Road) else None
                ln = grp.laneAt(v) if grp is not None else None
                src = ln if ln is not None else (grp if grp is not None else el)
                tang.append([src.uid, tangent_error(src, (x, y))[:3]])
                rec["tang_from"] = type(src).__name__
        rec["tang"] = tang
        out.append(rec)
    return out


# ----------------------------------------------------------------------------- cache protocol probes
def maneuver_rules(net):
    """conflictingManeuvers / reverseManeuvers (lazily computed tuples of maneuvers): never raise, stay inside the
    maneuver's intersection, exclude maneuvers from the same start lane (resp. relate swapped start/end roads), no
    duplicates, and are reciprocal.  -> (number of maneuvers examined, list of failures)"""
    seen, mans = set(), []
    for holder in list(net.lanes) + list(net.intersections):
        for m in holder.maneuvers:
            if id(m) not in seen:
                seen.add(id(m))
                mans.append(m)
    bad = []

    def ident(m):
        return dict(start=getattr(m.startLane, "uid", None), end=getattr(m.endLane, "uid", None),
                    connecting=getattr(m.connectingLane, "uid", None), intersection=getattr(m.intersection, "uid", None),
                    type=str(m.type))
    got = {}
    for m in mans:
        for attr in ("conflictingManeuvers", "reverseManeuvers"):
            try:
                got[(id(m), attr)] = tuple(getattr(m, attr))
            except Exception as e:  # noqa
                got[(id(m), attr)] = None
                bad.append(dict(rule=attr + "-raises", maneuver=ident(m), error=type(e).__name__ + ": " + str(e)[:120],
                                intersection_none=m.intersection is None))
    for m in mans:
        inter = tuple(m.intersection.maneuvers) if m.intersection is not None else ()
        conf, rev = got[(id(m), "conflictingManeuvers")], got[(id(m), "reverseManeuvers")]
        for attr, lst in (("conflictingManeuvers", conf), ("reverseManeuvers", rev)):
            if lst is None:
                continue
            if len({id(x) for x in lst}) != len(lst):
                bad.append(dict(rule=attr + "-duplicates", maneuver=ident(m)))
            for x in lst:
                if not any(x is y for y in inter):
                    bad.append(dict(rule=attr + "-outside-intersection", maneuver=ident(m), other=ident(x)))
                back = got.get((id(x), attr))
                if back is not None and not any(y is m for y in back):
                    bad.append(dict(rule=attr + "-not-reciprocal", maneuver=ident(m), other=ident(x)))
        for x in conf or ():
            if x.startLane is m.startLane:
                bad.append(dict(rule="conflicting-same-start-lane", maneuver=ident(m), other=ident(x)))
        for x in rev or ():
            if not (x.startLane.road is m.endLane.road and x.endLane.road is m.startLane.road):
                bad.append(dict(rule="reverse-roads-not-swapped", maneuver=ident(m), other=ident(x)))
        # completeness of reverseManeuvers within the intersection
        if rev is not None:
            for y in inter:
                if y.startLane.road is m.endLane.road and y.endLane.road is m.startLane.road and not any(y is r for r in rev):
                    bad.append(dict(rule="reverse-incomplete", maneuver=ident(m), other=ident(y)))
    return len(mans), bad[:200]


class _Parsed(Exception):
    pass


def _inflate(b):
    """What a reader gets out of a (possibly truncated) gzip stream before any error: the decompressed prefix."""
    import zlib
    d = zlib.decompressobj(wbits=31)
    out = b""
    try:
        for i in range(0, len(b), 65536):
            out += d.decompress(b[i:i + 65536])
    except zlib.error:
        pass
    return out


def cache_probes(xodr, opts, digest_hex, variants):
    """With a valid cache next to `xodr`: apply each header / map / option variant and record whether
    Network.fromFile used the cache or went to the parser (the parser is stubbed so no time is spent)."""
    from scenic.domains.driving.roads import Network
    snet = os.path.splitext(xodr)[0] + Network.pickledExt
    good_snet = open(snet, "rb").read()
    good_map = open(xodr, "rb").read()
    orig = Network.__dict__["fromOpenDrive"]

    def stub(cls, path, **kw):
        raise _Parsed()
    results = []
    try:
        Network.fromOpenDrive = classmethod(stub)
        for var in variants:
            snet_b, map_b, o = good_snet, good_map, dict(opts)
            payload_intact = False
            k = var["kind"]
            if k == "version":
                cur = Network._currentFormatVersion()
                v = var["version"]
                v = cur + 1 if v == "+1" else (cur - 1 if v == "-1" else int(v))
                snet_b = struct.pack("<I", v) + good_snet[4:]
            elif k == "digest-byte":
                i = 4 + var["pos"]
                snet_b = good_snet[:i] + bytes([good_snet[i] ^ var["xor"]]) + good_snet[i + 1:]
            elif k == "optdigest-byte":
                i = 68 + var["pos"]
                snet_b = good_snet[:i] + bytes([good_snet[i] ^ var["xor"]]) + good_snet[i + 1:]
            elif k == "truncate":
                snet_b = good_snet[:var["len"]]
                payload_intact = len(snet_b) > 76 and _inflate(snet_b[76:]) == _inflate(good_snet[76:]) is not None
            elif k == "map-byte":
                i = var["pos"] % len(good_map)
                map_b = good_map[:i] + bytes([good_map[i] ^ var["xor"]]) + good_map[i + 1:]
            elif k == "map-append":
                map_b = good_map + var["data"].encode()
            elif k in ("option", "option-type"):
                o = dict(var["opts"])
            elif k == "same":
                pass
            elif k == "nocache":
                pass
            else:
                raise ExportError("unknown variant " + k)
            with open(snet, "wb") as f:
                f.write(snet_b)
            with open(xodr, "wb") as f:
                f.write(map_b)
            use = var.get("useCache", True)
            try:
                n = Network.fromFile(xodr, useCache=use, writeCache=False, **o)
                outcome = "cache"
                okhdr = True
            except _Parsed:
                outcome = "parse"
            except Exception as e:  # noqa
                outcome = "error:" + type(e).__name__
            hdr = snet_b[:76]
            results.append(dict(var=var, outcome=outcome, version=(struct.unpack("<I", hdr[:4])[0] if len(hdr) >= 4 else None),
                                hdr_len=len(hdr), file_len=len(snet_b), orig_len=len(good_snet), hdr_hex=hdr.hex(),
                                digest=hdr[4:68].hex(), optdigest=hdr[68:76].hex(),
                                map_digest=hashlib.blake2b(map_b).hexdigest(), opts=o, payload_intact=payload_intact))
    finally:
        setattr(Network, "fromOpenDrive", orig)
        with open(snet, "wb") as f:
            f.write(good_snet)
        with open(xodr, "wb") as f:
            f.write(good_map)
    return results


def path_history(xodr, opts, token, ops, workdir):
    """Entry paths of Network.fromFile on ONE directory with persistent state (the directory name contains dots).
    ops: {"op": "map", "to": good|changed|changed2|absent} / {"op": "snet", "to": good|absent|version|truncate|optbyte, ...}
         / {"op": "load", "entry": xodr|noext|snet|upper|other, "useCache", "writeCache", "opts"}.
    The parser is stubbed: it records the path and the keyword options it was given and returns `token` (a real network,
    so that a cache can be written from it).  Per load: directory state before, outcome, directory state after."""
    from scenic.domains.driving.roads import Network
    import pickle
    snet0 = os.path.splitext(xodr)[0] + Network.pickledExt
    good_snet = open(snet0, "rb").read()
    good_map = open(xodr, "rb").read()
    shutil.rmtree(workdir, ignore_errors=True)
    os.makedirs(workdir)
    base = os.path.join(workdir, os.path.splitext(os.path.basename(xodr))[0])
    mpath, spath = base + ".xodr", base + Network.pickledExt
    with open(mpath, "wb") as f:
        f.write(good_map)
    orig = Network.__dict__["fromOpenDrive"]
    calls = []

    def stub(cls, path, **kw):
        calls.append((os.fspath(path), kw))
        return token
    maps = {"good": good_map, "changed": good_map + b"<!-- c -->", "changed2": good_map[:-1] + b" \n"}
    payload_ok = False
    out = []

    def rd(p):
        return open(p, "rb").read() if os.path.exists(p) else None

    def out_changed(b, a, sp):
        return a is not None and (b != a or int(os.stat(sp).st_mtime) != 1_000_000_000)
    try:
        Network.fromOpenDrive = classmethod(stub)
        for op in ops:
            if op["op"] == "map":
                if op["to"] == "absent":
                    if os.path.exists(mpath):
                        os.remove(mpath)
                else:
                    with open(mpath, "wb") as f:
                        f.write(maps[op["to"]])
                continue
            if op["op"] == "snet":
                to = op["to"]
                if to == "absent":
                    if os.path.exists(spath):
                        os.remove(spath)
                    payload_ok = False
                    continue
                b = good_snet
                payload_ok = True
                if to == "version":
                    b = struct.pack("<I", Network._currentFormatVersion() + 1) + good_snet[4:]
                elif to == "optbyte":
                    b = good_snet[:68] + bytes([good_snet[68] ^ 1]) + good_snet[69:]
                elif to == "truncate":
                    b = good_snet[:op["len"]]
                    payload_ok = False
                with open(spath, "wb") as f:
                    f.write(b)
                continue
            entry = op["entry"]
            path = {"xodr": mpath, "noext": base, "snet": spath, "upper": base + ".XODR", "other": base + ".json"}[entry]
            before_map, before_snet = rd(mpath), rd(spath)
            if before_snet is not None:
                os.utime(spath, (1_000_000_000, 1_000_000_000))   # a rewrite is seen even when the bytes come out identical
            del calls[:]
            o = dict(op["opts"])
            ret = None
            try:
                ret = Network.fromFile(path, useCache=op["useCache"], writeCache=op["writeCache"], **o)
                outcome = "parse" if calls else "cache"
            except Exception as e:  # noqa
                outcome = "error:" + type(e).__name__
            after_map, after_snet = rd(mpath), rd(spath)
            rec = dict(op=op, path=os.path.relpath(path, workdir), dir=os.path.basename(workdir), outcome=outcome,
                       map_digest=hashlib.blake2b(before_map).hexdigest() if before_map is not None else None,
                       snet_hdr=before_snet[:76].hex() if before_snet is not None else None, payload_ok=payload_ok,
                       snet_hdr_after=after_snet[:76].hex() if after_snet is not None else None,
                       snet_changed=before_snet != after_snet or (after_snet is not None and before_snet is not None
                                                                  and int(os.stat(spath).st_mtime) != 1_000_000_000),
                       map_changed=before_map != after_map,
                       files=sorted(os.listdir(workdir)), ncalls=len(calls),
                       call_path_ok=[os.path.realpath(p) == os.path.realpath(mpath) for p, _ in calls],
                       call_opts_ok=[sorted(kw) == sorted(o) and all(type(kw[k]) is type(o[k]) and kw[k] == o[k] for k in o) for _, kw in calls],
                       ret_token=ret is token, ret_network=isinstance(ret, Network))
            if out_changed(before_snet, after_snet, spath):
                payload_ok = True    # written by dumpPickle from a real network
            out.append(rec)
    finally:
        setattr(Network, "fromOpenDrive", orig)
        shutil.rmtree(workdir, ignore_errors=True)
    return out


def job_export(job):
    from scenic.domains.driving.roads import Network
    from scenic.core.serialization import deterministicHash
    src = job["map"]
    opts = job["opts"]
    scratch = job["scratch"]
    os.makedirs(scratch, exist_ok=True)
    xodr = os.path.join(scratch, os.path.basename(src))
    shutil.copyfile(src, xodr)
    snet = os.path.splitext(xodr)[0] + Network.pickledExt
    if os.path.exists(snet):
        os.remove(snet)
    res = {"name": job["name"], "map": src, "opts": opts}
    calls = []
    orig = Network.__dict__["fromOpenDrive"]
    origf = orig.__func__

    def counting(cls, path, **kw):
        calls.append(1)
        return origf(cls, path, **kw)
    Network.fromOpenDrive = classmethod(counting)
    t0 = time.time()
    try:
        try:
            parsed = Network.fromFile(xodr, useCache=True, writeCache=True, **opts)
        except Exception as e:  # a map the parser refuses is not a network: report, do not judge
            import traceback
            res["build_error"] = f"{type(e).__name__}: {str(e)[:300]}"
            res["build_tb"] = traceback.format_exc()[-1500:]
            return res
        res["parse_s"] = round(time.time() - t0, 2)
        res["parser_calls_first"] = len(calls)
        res["cache_written"] = os.path.exists(snet)
        t1 = time.time()
        cached = Network.fromFile(xodr, useCache=True, writeCache=False, **opts)
        res["cache_s"] = round(time.time() - t1, 2)
        res["parser_calls_second"] = len(calls)
    finally:
        setattr(Network, "fromOpenDrive", orig)
    res["version"] = Network._currentFormatVersion()
    res["format_version_header"] = struct.unpack("<I", open(snet, "rb").read(4))[0] if os.path.exists(snet) else None
    res["map_digest"] = hashlib.blake2b(open(xodr, "rb").read()).hexdigest()
    res["opt_digest"] = deterministicHash(opts, digest_size=8).hex()
    try:
        res["parsed"] = export_network(parsed)
        res["cached"] = export_network(cached)
    except ExportError as e:
        res["export_error"] = str(e)
        return res
    try:
        res["maneuvers_examined"], res["maneuver_bad"] = maneuver_rules(parsed)
        res["maneuver_bad_cached"] = maneuver_rules(cached)[1]
    except Exception as e:  # noqa
        import traceback
        res["maneuver_error"] = traceback.format_exc()[-800:]
    rng = random.Random(job["seed"])
    pts = sample_points(parsed, job["npts"], rng)
    res["points"] = probe_points(parsed, pts)
    # the cached network must answer the same lookups
    sub = pts[: max(10, job["npts"] // 4)]
    res["points_cached"] = probe_points(cached, sub)
    res["tolerance"] = parsed.tolerance
    if job.get("variants") and res["cache_written"]:
        res["cache_probes"] = cache_probes(xodr, opts, res["map_digest"], job["variants"])
    if job.get("path_ops") and res["cache_written"]:
        t2 = time.time()
        res["path_history"] = path_history(xodr, opts, parsed, job["path_ops"], os.path.join(scratch, "paths.v1.d"))
        res["path_s"] = round(time.time() - t2, 2)
    if not job.get("keep"):
        shutil.rmtree(scratch, ignore_errors=True)
    return res


def job_hash(job):
    from scenic.core.serialization import deterministicHash
    out = []
    for m in job["maps"]:
        d = {}
        for k, (ty, v) in m:
            d[k] = {"int": int, "float": float, "str": str, "bool": lambda x: bool(x), "none": lambda x: None,
                    "list": lambda x: list(x)}[ty](v)
        out.append(dict(digest=deterministicHash(d, digest_size=8).hex(),
                        strs=[[str(k), (str(d[k]) if isinstance(d[k], (int, float, str)) else None)] for k in d]))
    return {"results": out}


def main():
    job = json.load(sys.stdin)
    if job["kind"] == "batch":
        # several export jobs in one interpreter (importing Scenic dominates small maps)
        import traceback
        for j in job["jobs"]:
            try:
                o = job_export(j)
            except Exception:  # noqa
                o = {"name": j["name"], "crash": traceback.format_exc()[-3000:]}
            with open(j["out"], "w") as f:
                json.dump(o, f)
        out = {"done": len(job["jobs"])}
    elif job["kind"] == "export":
        out = job_export(job)
    elif job["kind"] == "hash":
        out = job_hash(job)
    else:
        raise SystemExit("unknown job kind")
    if job.get("out"):
        with open(job["out"], "w") as f:
            json.dump(out, f)
        print(json.dumps({"out": job["out"]}))
    else:
        print(json.dumps(out))


if __name__ == "__main__":
    main()
