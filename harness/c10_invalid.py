"""C10 (round 3) — directed generator for the ERROR-REPORTING alternatives of the regenerated scenic.gram.

The actions of `invalid_*` rules (CPython's and Scenic's) and of the few other alternatives whose action raises a syntax error are
code that only runs on malformed input, in the parser's second pass.  For every such alternative this module derives inputs FROM THE
GRAMMAR: the alternative's items are expanded with every shape of their sub-matches (optional items absent/present, repetitions
0/1/2, each alternative of a referenced rule, e.g. positional / keyword / starred arguments), and the result is embedded in a program
along a derivation path from `file` to the rule.  Oracle (impl_c10 `invalid`): every input is accepted or rejected with a LOCATED
syntax error; coverage = error alternatives whose action ran / all, measured on the generated parser (fail closed on unreached ones
unless listed in UNREACHED with a reason).  How inputs are produced is irrelevant to the oracle, so deriving them from the grammar under test is sound."""
import itertools
import json
import random
import re

NL, IND, DED = "\n", "\x02IND", "\x02DED"
TOKCLASS = {"NAME": ["nm"], "NUMBER": ["1"], "STRING": ["'s'"], "NEWLINE": [NL], "INDENT": [IND], "DEDENT": [DED], "ENDMARKER": [],
            "FSTRING_START": ['f"'], "FSTRING_MIDDLE": ["t"], "FSTRING_END": ['"'], "SOFT_KEYWORD": ["match"], "ASYNC": ["async"], "AWAIT": ["await"],
            "OP": ["+"]}
IMPOSSIBLE = {"TYPE_COMMENT"}


def is_error_rule(name):
    return bool(re.search(r"(^|_)invalid_", name))


def load_with_actions(path):
    """(runs under the venv interpreter) normal form + per alternative: does its action raise?"""
    import c09_grammar as g
    gr = g.load(path)
    _load = g.load
    g.load = lambda p_: gr            # normal_form would build the grammar a second time
    try:
        nf = g.normal_form(path)
    finally:
        g.load = _load
    err = {}
    for name, r in gr.rules.items():
        err[name] = [bool((is_error_rule(name) and (a.action or "").strip() not in ("UNREACHABLE", "")) or (a.action and re.search(r"self\s*\.\s*raise_", a.action)))
                     for a in r.rhs.alts]
    return dict(nf=nf, err=err)


class Gen:
    def __init__(self, nf, err, seed=0):
        self.R = nf["rules"]
        self.order = nf["order"]
        self.err = err
        self.rng = random.Random(seed)
        self.min = {}
        self._fix_min()

    # ------------------------------------------------------------------ minimal expansions
    def _is_rule(self, n):
        return n in self.R

    def _min_item(self, it):
        k = it[0]
        if k == "tok":
            return [it[1][1:-1]]
        if k == "soft":
            return [it[1][1:-1]]
        if k == "name":
            if self._is_rule(it[1]):
                return self.min.get(it[1])
            if it[1] in IMPOSSIBLE:
                return None
            return list(TOKCLASS.get(it[1], [it[1].lower()]))
        if k in ("opt", "star", "pos", "neg", "cut"):
            return []
        if k in ("plus", "forced"):
            return self._min_item(it[1])
        if k == "gather":
            return self._min_item(it[2])
        if k == "group":
            best = None
            for a in it[1]:
                m = self._min_alt(a)
                if m is not None and (best is None or len(m) < len(best)):
                    best = m
            return best
        raise ValueError(k)

    def _min_alt(self, alt):
        out = []
        for it in alt:
            m = self._min_item(it)
            if m is None:
                return None
            out += m
        return out

    def _fix_min(self):
        for with_err in (False, True):          # error rules get a minimal expansion too (from their own alternatives), after the others
            self._fix_min_pass(with_err)

    def _fix_min_pass(self, with_err):
        changed = True
        while changed:
            changed = False
            for n in self.order:
                if with_err and not is_error_rule(n):
                    continue
                for i, a in enumerate(self.R[n]["alts"]):
                    if not with_err and (self.err[n][i] or any(self._refs_error(it) for it in a)):
                        continue
                    m = self._min_alt(a)
                    if m is not None and (n not in self.min or len(m) < len(self.min[n])):
                        self.min[n] = m
                        changed = True

    def _refs_error(self, it):
        k = it[0]
        if k == "name":
            return is_error_rule(it[1])
        if k in ("opt", "star", "plus", "forced"):
            return self._refs_error(it[1])
        if k == "gather":
            return self._refs_error(it[2])
        if k == "group":
            return all(any(self._refs_error(i) for i in a) for a in it[1])
        return False

    # ------------------------------------------------------------------ shape variants
    def variants(self, it, depth, cap=24):
        """list of token lists for one item; the first one is the minimal expansion"""
        k = it[0]
        if k in ("tok", "soft"):
            return [[it[1][1:-1]]]
        if k == "name":
            if not self._is_rule(it[1]):
                m = self._min_item(it)
                return [m] if m is not None else []
            m = self.min.get(it[1])
            out = [m] if m is not None else []
            if depth > 0:
                only_err = is_error_rule(it[1])
                for i, a in enumerate(self.R[it[1]]["alts"]):
                    if not only_err and (self.err[it[1]][i] or any(self._refs_error(x) for x in a)):
                        continue
                    for v in self.alt_variants(a, depth - 1, cap=6):
                        if v not in out:
                            out.append(v)
            return out[:cap]
        if k == "opt":
            return [[]] + [v for v in self.variants(it[1], depth, cap) if v][:cap - 1]
        if k in ("star", "plus"):
            vs = [v for v in self.variants(it[1], depth, cap) if v]
            if not vs:
                return [[]]
            out = [] if k == "plus" else [[]]
            out += vs[:max(2, cap // 3)]
            out.append(vs[0] + vs[-1])
            if len(vs) > 2:
                out.append(vs[1] + vs[0])
            return out[:cap]
        if k == "gather":
            vs = [v for v in self.variants(it[2], depth, cap) if v]
            sep = self._min_item(it[1]) or []
            if not vs:
                return []
            out = vs[:max(2, cap // 3)]
            out.append(vs[0] + sep + vs[-1])
            if len(vs) > 2:
                out.append(vs[-1] + sep + vs[1] + sep + vs[0])
            return out[:cap]
        if k in ("pos", "neg", "cut"):
            return [[]]
        if k == "forced":
            return self.variants(it[1], depth, cap)
        if k == "group":
            out = []
            for a in it[1]:
                for v in self.alt_variants(a, depth, cap=max(3, cap // max(1, len(it[1])))):
                    if v not in out:
                        out.append(v)
            out.sort(key=len)
            return out[:cap]
        raise ValueError(k)

    def alt_variants(self, alt, depth, cap=6, full=False):
        """expansions of a whole alternative: all-minimal, one item varied at a time, all-last; with full=True also random members of the product"""
        per = []
        for it in alt:
            v = self.variants(it, depth)
            if not v:
                return []
            per.append(v)
        base = [v[0] for v in per]
        out = [sum(base, [])]

        def add(choice):
            t = sum(choice, [])
            if t not in out:
                out.append(t)
        for i, v in enumerate(per):
            for x in v[1:]:
                add(base[:i] + [x] + base[i + 1:])
        add([v[-1] for v in per])
        if full:
            total = 1
            for v in per:
                total *= len(v)
            if total <= 4 * cap:
                for ch in itertools.product(*per):
                    add(list(ch))
            else:
                for _ in range(4 * cap):
                    add([self.rng.choice(v) for v in per])
        if len(out) > cap:
            head = out[:max(2, cap // 2)]
            rest = out[len(head):]
            self.rng.shuffle(rest)
            out = head + rest[:cap - len(head)]
        return out

    # ------------------------------------------------------------------ derivation paths
    def _refs(self, it, path=()):
        """rule references of an item outside lookaheads: list of (rule name, item path)"""
        k = it[0]
        if k == "name":
            return [(it[1], path)] if self._is_rule(it[1]) else []
        if k in ("opt", "star", "plus", "forced"):
            return self._refs(it[1], path + (1,))
        if k == "gather":
            return self._refs(it[2], path + (2,))
        if k == "group":
            out = []
            for ai, a in enumerate(it[1]):
                for ii, x in enumerate(a):
                    out += self._refs(x, path + (1, ai, ii))
            return out
        return []

    def parents(self):
        par = {}
        for n in self.order:
            for ai, a in enumerate(self.R[n]["alts"]):
                for ii, it in enumerate(a):
                    for ref, path in self._refs(it):
                        par.setdefault(ref, []).append((n, ai, ii))
        return par

    def _edges(self):
        """cheapest way to derive each referenced rule from each rule: {(parent, child): (cost, alt, item)}, cost = number of
        tokens the minimal expansions of the sibling items add (contexts with few other tokens trigger few other error rules)"""
        if getattr(self, "_edge_cache", None) is None:
            E = {}
            for n in self.order:
                for ai, a in enumerate(self.R[n]["alts"]):
                    for ii, it in enumerate(a):
                        refs = {r for r, _ in self._refs(it)}
                        if not refs:
                            continue
                        pre, post = self._min_alt(a[:ii]), self._min_alt(a[ii + 1:])
                        if pre is None or post is None:
                            continue
                        for ref in refs:
                            f = self._force(it, ref, [])
                            if f is None:
                                continue
                            cost = len(pre) + len(post) + len(f) + 0.01 + (0.5 if self.err[n][ai] else 0)
                            if (n, ref) not in E or cost < E[(n, ref)][0]:
                                E[(n, ref)] = (cost, ai, ii)
            self._edge_cache = E
        return self._edge_cache

    def paths_to(self, target, start="file", maxpaths=3):
        """up to maxpaths derivation chains [(rule, alt, item), ...] from start down to a reference of target, one per direct parent,
        cheapest first (Dijkstra on the number of context tokens)"""
        import heapq
        E = self._edges()
        succ = {}
        for (n, ref), (cost, ai, ii) in E.items():
            succ.setdefault(n, []).append((ref, cost, ai, ii))
        dist, prev = {start: 0.0}, {}
        heap = [(0.0, start)]
        while heap:
            d, n = heapq.heappop(heap)
            if d > dist.get(n, 1e18):
                continue
            for ref, cost, ai, ii in succ.get(n, []):
                if d + cost < dist.get(ref, 1e18):
                    dist[ref] = d + cost
                    prev[ref] = (n, ai, ii)
                    heapq.heappush(heap, (d + cost, ref))
        out = []
        cands = sorted(((dist[n] + c, n, ai, ii) for (n, ref), (c, ai, ii) in E.items() if ref == target and n in dist))
        for _, pn, ai, ii in cands[:maxpaths]:
            chain = [(pn, ai, ii)]
            cur = pn
            ok = True
            while cur != start:
                if cur not in prev:
                    ok = False
                    break
                chain.append(prev[cur])
                cur = prev[cur][0]
            if ok:
                out.append(list(reversed(chain)))
        return out

    def _force(self, it, target, payload):
        """tokens of item `it` in which the reference to rule `target` is replaced by payload (other parts minimal); None if not inside"""
        k = it[0]
        if k == "name":
            return list(payload) if it[1] == target else None
        if k in ("opt", "star", "plus", "forced"):
            return self._force(it[1], target, payload)
        if k == "gather":
            return self._force(it[2], target, payload)
        if k == "group":
            for a in it[1]:
                for ii, x in enumerate(a):
                    f = self._force(x, target, payload)
                    if f is not None:
                        pre = self._min_alt(a[:ii])
                        post = self._min_alt(a[ii + 1:])
                        if pre is None or post is None:
                            continue
                        return pre + f + post
            return None
        return None

    def embed(self, chain, target, payload):
        """program tokens: the derivation chain from `file` with `payload` in place of the reference to `target`"""
        toks = list(payload)
        inner = target
        for (rn, ai, ii) in reversed(chain):
            alt = self.R[rn]["alts"][ai]
            f = self._force(alt[ii], inner, toks)
            pre = self._min_alt(alt[:ii])
            post = self._min_alt(alt[ii + 1:])
            if f is None or pre is None or post is None:
                return None
            toks = pre + f + post
            inner = rn
        return toks

    # ------------------------------------------------------------------ targets
    def targets(self):
        return [(n, i) for n in self.order for i in range(len(self.R[n]["alts"])) if self.err[n][i]]

    def inputs_for(self, rule, alt, cap):
        a = self.R[rule]["alts"][alt]
        vs = self.alt_variants(a, 2, cap=cap, full=True)
        chains = self.paths_to(rule)
        out = []
        for ci, ch in enumerate(chains):
            for vi, v in enumerate(vs):
                if ci > 0 and vi >= max(4, cap // 4):
                    break
                t = self.embed(ch, rule, v)
                if t is not None:
                    out.append(render(t))
        if not chains:
            out += [render(v) for v in vs[:cap]]
        res = []
        for t in out:
            if t not in res:
                res.append(t)
        return res[:cap + cap // 2]


def render(tokens):
    lines, cur, level, infs = [], [], 0, 0
    for t in tokens:
        if t == NL:
            lines.append("    " * level + " ".join(cur)); cur = []
        elif t == IND:
            if cur:
                lines.append("    " * level + " ".join(cur)); cur = []
            level += 1
        elif t == DED:
            if cur:
                lines.append("    " * level + " ".join(cur)); cur = []
            level = max(0, level - 1)
        elif t == 'f"' and not infs:
            infs = 1; cur.append(t)
        elif infs:
            cur[-1] = cur[-1] + (t if t in ('"', "{", "}", "!", ":", "=", "t") or cur[-1][-1] in '{"' else " " + t)
            if t == '"':
                infs = 0
        else:
            cur.append(t)
    if cur:
        lines.append("    " * level + " ".join(cur))
    text = "\n".join(lines)
    return text if text.endswith("\n") or not lines else text + ("\n" if tokens and tokens[-1] == NL else "")


# hand-written inputs for error alternatives the grammar-directed derivation does not reach (lookaheads, tokenizer modes, contexts)
EXTRA = [
    'def f(*):\n    pass\n',
    'def f(*, ):\n    pass\n',
    'def f(*, **k):\n    pass\n',
    'def f(a, *):\n    pass\n',
    'def f(*a=1):\n    pass\n',
    'def f(*a: int = 1):\n    pass\n',
    'def f(*a, *b):\n    pass\n',
    'def f(*, a, *b):\n    pass\n',
    'def f(*a, b, *):\n    pass\n',
    'def f(**k=1):\n    pass\n',
    'def f(**k: int = 1):\n    pass\n',
    'def f(**k, a):\n    pass\n',
    'def f(**k, *a):\n    pass\n',
    'def f(**k, **j):\n    pass\n',
    'def f(**k, /):\n    pass\n',
    'def f(a=):\n    pass\n',
    'def f(a=, b):\n    pass\n',
    'def f(a, b=1, c):\n    pass\n',
    'def f(a=1, /, b):\n    pass\n',
    'def f(/):\n    pass\n',
    'def f(a, /, b, /):\n    pass\n',
    'def f(a, *, b, /):\n    pass\n',
    'def f(a, (b, c)):\n    pass\n',
    'def f((a), b):\n    pass\n',
    'def f(a, *, /):\n    pass\n',
    'def f(a, b=1, *):\n    pass\n',
    'def f(a, *, b=):\n    pass\n',
    'def f(*a, **k, c):\n    pass\n',
    'f = lambda *: 0\n',
    'f = lambda *, : 0\n',
    'f = lambda *, **k: 0\n',
    'f = lambda a, *: 0\n',
    'f = lambda *a=1: 0\n',
    'f = lambda *a, *b: 0\n',
    'f = lambda *, a, *b: 0\n',
    'f = lambda *a, b, *: 0\n',
    'f = lambda **k=1: 0\n',
    'f = lambda **k, a: 0\n',
    'f = lambda **k, *a: 0\n',
    'f = lambda **k, **j: 0\n',
    'f = lambda **k, /: 0\n',
    'f = lambda a=: 0\n',
    'f = lambda a=, b: 0\n',
    'f = lambda a, b=1, c: 0\n',
    'f = lambda a=1, /, b: 0\n',
    'f = lambda /: 0\n',
    'f = lambda a, /, b, /: 0\n',
    'f = lambda a, *, b, /: 0\n',
    'f = lambda a, (b, c): 0\n',
    'f = lambda (a), b: 0\n',
    'f = lambda a, *, /: 0\n',
    'f = lambda a, b=1, *: 0\n',
    'f = lambda a, *, b=: 0\n',
    'f = lambda *a, **k, c: 0\n',
    'behavior B(*):\n    wait\n',
    'behavior B(a=1, b):\n    wait\n',
    'behavior B(**k, a):\n    wait\n',
    'monitor M(*a=1):\n    wait\n',
    'scenario S(**k=1):\n    setup:\n        pass\n',
    'f(a=b for b in c)\n',
    'f(x, a=b for b in c)\n',
    'x = [a, b for a in c]\n',
    'x = [a, for a in c]\n',
    'x = {a, b for a in c}\n',
    'x = [*a for a in c]\n',
    'x = (*a for a in c)\n',
    'x = {**a for a in c}\n',
    'x = [a for a in b, c]\n',
    'x = {**a, b}\n',
    'x = {**a, b: }\n',
    'x = {a: 1, **b, c}\n',
    'x = {a: *b}\n',
    'x = {a:}\n',
    'x = {a: 1, b:}\n',
    'x = {a: 1, b}\n',
    'x = {1: *a, 2: 3}\n',
    'x = {**a, b: c, d}\n',
    'class C\n    pass\n',
    'class C(A)\n    pass\n',
    'class C:\npass\n',
    'class C(A):\npass\n',
    'try:\npass\n',
    'try:\n    pass\n',
    'try:\n    pass\nx = 1\n',
    'try:\n    pass\nexcept A, B:\n    pass\n',
    'try:\n    pass\nexcept:\npass\n',
    'try:\n    pass\nexcept* A:\n    pass\nexcept B:\n    pass\n',
    'with a\n    pass\n',
    'with (a, b)\n    pass\n',
    'async def f():\n    async with a\n        pass\n',
    'with a:\npass\n',
    'with (a as b):\npass\n',
    'behavior B():\n    wait\n    invariant: x\n',
    'behavior B():\n    wait\n    precondition: x\n',
    'behavior B():\n    x = 1\n    invariant: x > 1 and y\n    wait\n',
    'x = f"{=}"\n',
    'x = f"{!r}"\n',
    'x = f"{:>3}"\n',
    'x = f"{}"\n',
    'x = f"{,}"\n',
    'x = f"{)}"\n',
    'x = f"{a b}"\n',
    'x = f"{a $}"\n',
    'x = f"{a= b}"\n',
    'x = f"{a=$}"\n',
    'x = f"{a!}"\n',
    'x = f"{a!:3}"\n',
    'x = f"{a!1}"\n',
    'x = f"{a!$}"\n',
    'x = f"{a!r b}"\n',
    'x = f"{a=!r b}"\n',
    'x = f"{a!r$}"\n',
    'x = f"{a:{b c}}"\n',
    'x = f"{a:3$"\n',
    'x = f"{a:>{w}"\n',
    'x = f"{a"\n',
    'x = f"{a=!r"\n',
    'x = f"{a!r"\n',
    'x = f"{a +}"\n',
    'x = f"{lambda x: 1}"\n',
    'x = f"{lambda: {a}}"\n',
    'x = f"{a!r:{lambda: 1}}"\n',
    'x = f"{a:{b!}}"\n',
    'x = f"{yield}"\n',
    'x = f"{a, b c}"\n',
    'x = f"{a = "\n',
    'x = f"{a!r:"\n',
    'x = f"{a:{b}"\n',
    'x = f"t{=} u"\n',
    'x = f"t{!r} u"\n',
    'x = f"t{:>3} u"\n',
    'x = f"t{} u"\n',
    'x = f"t{,} u"\n',
    'x = f"t{)} u"\n',
    'x = f"t{a b} u"\n',
    'x = f"t{a $} u"\n',
    'x = f"t{a= b} u"\n',
    'x = f"t{a=$} u"\n',
    'x = f"t{a!} u"\n',
    'x = f"t{a!:3} u"\n',
    'f() = 1\n',
    'x = f() = 1\n',
    'a + b = c\n',
    'x = {a: )\n',
    'x = {a: $}\n',
    'x = {a: for}\n',
    'x = {**b, a: for}\n',
    'match x:\n    case C(a=1, b):\n        pass\n',
    'match x:\n    case C(d, a=1, b, c):\n        pass\n',
    '(yield) = 1\n',
    'x = (yield) = 1\n',
    'f() += 1\n',
    '[a, b]: int\n',
    '(a, b): int = 1\n',
    'a, b: int\n',
    'f(): int\n',
]

# error alternatives that no input can reach, with the reason (fail closed: anything else unreached is a violation)
UNREACHED = {
    "invalid_arguments:2": "same pattern (NAME '=' expression for_if_clauses) as invalid_kwarg alternative 1, which alternative 0 of this rule evaluates first through args -> kwargs",
    "invalid_class_def_raw:0": "class_def_raw uses a forced token (&&':'): a missing colon is reported by the FIRST pass before any invalid_ rule runs",
    "invalid_double_type_comments:0": "needs a TYPE_COMMENT token, which Scenic's tokenizer never produces",
    "invalid_star_etc:1": "needs a TYPE_COMMENT token, which Scenic's tokenizer never produces",
    "invalid_replacement_field:10": "shadowed: whenever its prefix matches and no '}' follows, alternative 8 (not followed by ':' or '}') or alternative 9 (':' ...) has already raised",
    "invalid_try_stmt:0": "shadowed by scenic_try_interrupt_stmt -> block -> invalid_block, which reports the missing indentation first",
}


def build(nf, err, seed, cap):
    g = Gen(nf, err, seed)
    jobs = []
    for rule, alt in g.targets():
        texts = g.inputs_for(rule, alt, cap)
        for t in texts:
            jobs.append(dict(id=len(jobs), text=t, target=[rule, alt]))
    for t in EXTRA:
        jobs.append(dict(id=len(jobs), text=t, target=["<hand-written>", 0]))
    return g, jobs


if __name__ == "__main__":
    import sys
    sys.path.insert(0, __file__.rsplit("/", 1)[0])
    json.dump(load_with_actions(sys.argv[1]), sys.stdout)
