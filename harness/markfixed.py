"""usage: markfixed.py PID HASH ID[,ID…]  -- set status fixed for the given finding ids of a property and add a fixed: line"""
import json, sys
pid, h, ids = sys.argv[1], sys.argv[2], sys.argv[3].split(',')
p = f'/verif/known_findings.d/{pid}.json'
k = json.load(open(p))
for f in k['findings']:
    if f['id'] in ids:
        f['status'] = 'fixed'
        k.setdefault('fixed', []).append(f"fixed: property={pid} {h} {f['what'][:260]}")
        print('fixed', pid, f['id'])
json.dump(k, open(p, 'w'), indent=1)
