"""Helper classes/functions imported by the generated C01 test programs (mirrored by
coq/C01/Sampler.v apply_fun / apply_op and by the spec evaluator in c01_progs.py)."""
from scenic.core.distributions import distributionFunction


class Box:
    def __init__(self, a, b):
        self.a = a
        self.b = b

    def total(self, k):
        return self.a + self.b + k

    def __eq__(self, other):
        return isinstance(other, Box) and (self.a, self.b) == (other.a, other.b)

    def __hash__(self):
        return hash((self.a, self.b))

    def __repr__(self):
        return f"Box({self.a!r}, {self.b!r})"


@distributionFunction
def comb(a, b):
    return 10 * a + b


@distributionFunction
def mkbox(a, b):
    return Box(a, b)


@distributionFunction
def pair(a, b):
    return [a, b]


def plain3(a, b, c):          # not decorated: lifted by callWithStarArgs when called with *dist
    return a + 2 * b + 3 * c


def plain2(a, b):
    return a + 2 * b
