"""C03 implementation driver (inside /venv/bin/python, Scenic from $VERIF_REPO).  JSON in/out.
  discrete   : exact distribution of Region.uniformPointInner() by enumerating every RNG path
               (random.* patched as module attributes)
  continuous : sample with logged RNG draws; membership in the operands; cell counts for a chi^2 test
"""
import bisect as _bisect
import itertools
import json
import math
import random
import sys
import warnings
from fractions import Fraction

warnings.filterwarnings("ignore")

import numpy
import shapely
import shapely.geometry

import scenic.core.regions as R
from scenic.core.distributions import RejectionException
from scenic.core.vectors import Orientation, Vector

from impl_c16 import build  # same region constructors as C16


# ------------------------------------------------------------------------------ RNG path enumeration
class ContinuousDraw(Exception):
    pass


class U:
    """the value of random.random() in an enumeration: only comparisons are allowed (they fork)"""
    def __init__(self, oracle):
        self.o = oracle

    def __lt__(self, x):
        p = Fraction(x)
        p = min(max(p, Fraction(0)), Fraction(1))
        i = self.o.choose([1 - p, p], ("random<", float(x)))
        return i == 1

    def __le__(self, x):
        return self.__lt__(x)

    def __gt__(self, x):
        return not self.__lt__(x)

    def __ge__(self, x):
        return not self.__lt__(x)

    def __mul__(self, x):
        raise ContinuousDraw("arithmetic on random.random()")
    __rmul__ = __add__ = __radd__ = __sub__ = __rsub__ = __mul__


class Oracle:
    def __init__(self, prefix):
        self.prefix = prefix
        self.path = []
        self.prob = Fraction(1)
        self.alts = []
        self.log = []

    def choose(self, probs, what):
        pos = len(self.path)
        if pos < len(self.prefix):
            i = self.prefix[pos]
        else:
            live = [j for j, p in enumerate(probs) if p > 0]
            i = live[0]
            for j in live[1:]:
                self.alts.append(self.path + [j])
        self.path.append(i)
        self.prob *= probs[i]
        self.log.append([what[0], what[1], i])
        return i


def install(o):
    saved = {n: getattr(random, n) for n in ("random", "randrange", "choices", "choice", "uniform", "triangular", "randint", "gauss")}

    def randrange(a, b=None):
        lo, hi = (0, a) if b is None else (a, b)
        n = hi - lo
        return lo + o.choose([Fraction(1, n)] * n, ("randrange", n))

    def randint(a, b):
        return randrange(a, b + 1)

    def choices(pop, weights=None, cum_weights=None, k=1):
        assert k == 1
        if cum_weights is not None:
            cw = [Fraction(x) for x in cum_weights]
            w = [cw[0]] + [cw[i] - cw[i - 1] for i in range(1, len(cw))]
        elif weights is not None:
            w = [Fraction(x) for x in weights]
        else:
            w = [Fraction(1)] * len(pop)
        tot = sum(w)
        i = o.choose([x / tot for x in w], ("choices", [float(x) for x in w]))
        return [pop[i]]

    def choice(seq):
        n = len(seq)
        return seq[o.choose([Fraction(1, n)] * n, ("choice", n))]

    def cont(*a, **k):
        raise ContinuousDraw("continuous draw")

    random.random = lambda: U(o)
    random.randrange, random.randint, random.choices, random.choice = randrange, randint, choices, choice
    random.uniform = random.triangular = random.gauss = cont
    return saved


def uninstall(saved):
    for n, f in saved.items():
        setattr(random, n, f)


def explore(fn, max_paths=20000):
    todo = [[]]
    dist = {}
    npaths = 0
    first_log = None
    while todo:
        pre = todo.pop()
        o = Oracle(pre)
        saved = install(o)
        try:
            try:
                v = fn()
                out = ("ret", tuple(round(float(t), 9) for t in v))
            except RejectionException:
                out = ("rej",)
        finally:
            uninstall(saved)
        todo.extend(o.alts)
        dist[out] = dist.get(out, Fraction(0)) + o.prob
        npaths += 1
        if first_log is None:
            first_log = o.log
        if npaths > max_paths:
            raise RuntimeError("too many RNG paths")
    return dist, npaths, first_log


def ps(points):
    return R.PointSetRegion("ps", [tuple(p) for p in points])


def build_discrete(cfg, pool):
    k = cfg["kind"]
    P = lambda idx: ps([pool[i] for i in idx])
    if k == "ps":
        return P(cfg["A"])
    if k == "grid":
        return build(cfg["spec"])
    if k == "ps_inter_ps":
        return P(cfg["A"]).intersect(P(cfg["B"]))
    if k == "ps_inter_region":
        return P(cfg["A"]).intersect(build(cfg["spec"]))
    if k == "region_inter_ps":
        return build(cfg["spec"]).intersect(P(cfg["A"]))
    if k == "gen_inter":
        return R.IntersectionRegion(*[P(x) for x in cfg["regs"]])
    if k == "gen_union":
        return R.UnionRegion(*[P(x) for x in cfg["regs"]])
    if k == "op_union":
        return P(cfg["regs"][0]).union(P(cfg["regs"][1]))
    if k == "gen_diff":
        return R.DifferenceRegion(P(cfg["A"]), P(cfg["B"]))
    if k == "op_diff":
        return P(cfg["A"]).difference(P(cfg["B"]))
    if k == "diff_union":
        return R.DifferenceRegion(P(cfg["A"]), R.UnionRegion(P(cfg["B"]), P(cfg["C"])))
    if k == "gen_inter_poly":
        regs = [P(cfg["A"]), build(cfg["spec"])]
        return R.IntersectionRegion(*(regs if cfg.get("order", 0) == 0 else regs[::-1]))
    if k == "gen_diff_poly":
        return R.DifferenceRegion(P(cfg["A"]), build(cfg["spec"]))
    raise ValueError(k)


def run_discrete(cfg, pool):
    out = dict(id=cfg["id"])
    sys.setrecursionlimit(400)
    try:
        reg = build_discrete(cfg, pool)
        out["class"] = type(reg).__name__
        if cfg["kind"] in ("ps_inter_region", "region_inter_ps"):
            o = build(cfg["spec"])
            # the region's own answer (height-agnostic for rectangles / polygons: C16 finding F18) and 3-D membership
            out["foot_region"] = [bool(o.containsPoint(Vector(*pool[i]))) for i in cfg["A"]]
            zz = float(o.z) if isinstance(o, R.PolygonalRegion) else None
            out["in_region"] = [f and (zz is None or pool[i][2] == zz) for f, i in zip(out["foot_region"], cfg["A"])]
            # what PointSetRegion.intersect's sampler pre-filters its candidates with (observed, not recomputed)
            if hasattr(o, "circumcircle"):
                cc_, cr_ = o.circumcircle
                out["circumcircle"] = [[float(t) for t in cc_], float(cr_)]
            mg = curve_margin(o)
            if mg is not None:
                out["margin"] = mg
                out["boundary_distance"] = [curve_boundary_distance(o, pool[i]) for i in cfg["A"]]
        if cfg["kind"] in ("gen_inter_poly", "gen_diff_poly"):
            # independent 3-D membership: xy inside the polygon (shapely) AND the height of the planar region
            o = build(cfg["spec"])
            zz = float(o.z)
            out["in_region"] = [bool(o.polygons.contains(shapely.geometry.Point(pool[i][0], pool[i][1]))) and pool[i][2] == zz for i in cfg["A"]]
            out["over_footprint"] = [bool(o.polygons.contains(shapely.geometry.Point(pool[i][0], pool[i][1]))) for i in cfg["A"]]
        if cfg["kind"] == "grid":
            g = cfg["spec"]
            out["grid_points"] = [[g["Ax"] * ix + g["Bx"], g["Ay"] * iy + g["By"], 0.0]
                                  for iy, row in enumerate(g["grid"]) for ix, v in enumerate(row) if v == 0]
        dist, npaths, log = explore(lambda: reg.uniformPointInner())
        out["dist"] = [[list(k[1]) if k[0] == "ret" else None, [v.numerator, v.denominator]] for k, v in dist.items()]
        out["npaths"] = npaths
        out["log"] = log[:6]
    except RecursionError:
        out["exc"] = "RecursionError"
    except BaseException as e:  # noqa
        out["exc"] = type(e).__name__
        out["msg"] = str(e)[:200]
    finally:
        sys.setrecursionlimit(3000)
    return out


# ------------------------------------------------------------------------------ continuous
class Logger:
    def __init__(self, seed):
        self.rng = random.Random(seed)
        self.log = []

    def install(self):
        saved = {n: getattr(random, n) for n in ("random", "randrange", "choices", "choice", "uniform", "triangular")}
        rng, log = self.rng, self.log

        def rnd():
            u = rng.random()
            log.append(["random", u])
            return u

        def uniform(a, b):
            u = rng.random()
            log.append(["uniform", float(a), float(b), u])
            return a + (b - a) * u

        def triangular(low=0.0, high=1.0, mode=None):
            u = rng.random()
            u0 = u
            c = 0.5 if mode is None else (mode - low) / (high - low)
            if u > c:
                u = 1.0 - u
                c = 1.0 - c
                low, high = high, low
            v = low + (high - low) * math.sqrt(u * c)
            log.append(["triangular", float(low), float(high), u0, v])
            return v

        def choices(pop, weights=None, cum_weights=None, k=1):
            assert k == 1
            if cum_weights is None:
                cum_weights = list(itertools.accumulate(weights if weights is not None else [1] * len(pop)))
            total = cum_weights[-1] + 0.0
            u = rng.random()
            i = _bisect.bisect(cum_weights, u * total, 0, len(pop) - 1)
            log.append(["choices", [float(x) for x in cum_weights], u, i])
            return [pop[i]]

        def randrange(a, b=None):
            lo, hi = (0, a) if b is None else (a, b)
            i = lo + int(rng.random() * (hi - lo))
            log.append(["randrange", hi - lo, i - lo])
            return i

        def choice(seq):
            i = int(rng.random() * len(seq))
            log.append(["choice", len(seq), i])
            return seq[i]

        random.random, random.uniform, random.triangular = rnd, uniform, triangular
        random.choices, random.randrange, random.choice = choices, randrange, choice
        return saved


def build_cont(cfg):
    k = cfg["kind"]
    if k == "prim":
        r = build(cfg["A"])
        return r, [r], None
    if k == "hist":
        # the SAME footprint object is combined with several volumes in turn (its caches carry over);
        # the last result is the region sampled; membership is judged on freshly built operands
        F = build(cfg["A"])
        res = None
        for spec, op in zip(cfg["vols"], cfg["ops"]):
            V = build(spec)
            res = getattr(V, op)(F)
        return res, [build(cfg["vols"][-1]), build(cfg["A"])], cfg["ops"][-1]
    A, B = build(cfg["A"]), build(cfg["B"])
    if k == "gen_union":
        return R.UnionRegion(A, B), [A, B], "union"
    if k == "gen_inter":
        return R.IntersectionRegion(A, B), [A, B], "intersect"
    if k == "gen_diff":
        return R.DifferenceRegion(A, B), [A, B], "difference"
    if k in ("intersect", "union", "difference"):
        return getattr(A, k)(B), [A, B], k
    raise ValueError(k)


def poly_of(reg):
    if isinstance(reg, R.PolygonalRegion):
        return reg.polygons
    return None


def combine(op, a, b):
    return (a and b) if op == "intersect" else ((a or b) if op == "union" else (a and not b))


# ---- polygonised curves: discs and sectors are ALSO polygons (shapely buffer: inscribed n-gon with finite chords); kernel-built
# compositions (polygon.intersect / union / difference) are made of that polygon while containsPoint / the primitive samplers use the
# exact disc / cone.  The two differ in the slivers between arc and chords (thickness <= sagitta).  The property speaks about points
# CLEAR of the boundary, so every oracle treats points within `margin` of the exact boundary of such an operand as undetermined.
def curve_margin(o_):
    """sagitta of the polygon ACTUALLY used for this disc / sector (largest angular gap between ring-consecutive arc vertices,
    read off the region's polygon) + 1e-6; None for regions without polygonised curves"""
    if not isinstance(o_, (R.CircularRegion, R.SectorRegion)):
        return None
    cx, cy, r = float(o_.center.x), float(o_.center.y), float(o_.radius)
    geoms = getattr(o_.polygons, "geoms", [o_.polygons])
    gap = 0.0
    for g in geoms:
        ring = [(c_[0], c_[1]) for c_ in g.exterior.coords]          # (coords carry z when the region is not at height 0)
        for (x0, y0), (x1, y1) in zip(ring[:-1], ring[1:]):
            if math.hypot(x0 - cx, y0 - cy) > 0.5 * r and math.hypot(x1 - cx, y1 - cy) > 0.5 * r:      # not the apex of a sector
                d = abs(math.atan2(y1 - cy, x1 - cx) - math.atan2(y0 - cy, x0 - cx))
                gap = max(gap, min(d, math.tau - d))
    return r * (1.0 - math.cos(gap / 2.0)) + 1e-6


def _seg_dist(px, py, ax, ay, bx, by):
    dx, dy = bx - ax, by - ay
    t = ((px - ax) * dx + (py - ay) * dy) / (dx * dx + dy * dy)
    t = min(1.0, max(0.0, t))
    return math.hypot(ax + t * dx - px, ay + t * dy - py)


def curve_boundary_distance(o_, p):
    """planar distance from p to the boundary of the EXACT disc / sector (own formulas: circle, two radial segments, arc)"""
    cx, cy, r = float(o_.center.x), float(o_.center.y), float(o_.radius)
    rho = math.hypot(p[0] - cx, p[1] - cy)
    if isinstance(o_, R.CircularRegion):
        return abs(rho - r)
    h, ha = float(o_.heading), float(o_.angle) / 2.0
    best = math.inf
    for a in (h - ha, h + ha):                      # Scenic heading a = direction (-sin a, cos a)
        best = min(best, _seg_dist(p[0], p[1], cx, cy, cx - r * math.sin(a), cy + r * math.cos(a)))
    if rho > 0:
        va = math.atan2(-(p[0] - cx), p[1] - cy) - h
        va = (va + math.pi) % math.tau - math.pi
        if abs(va) <= ha:
            best = min(best, abs(rho - r))
    return best


class Margins:
    """which operands are polygonised curves, their margins, and the near-boundary test"""
    def __init__(self, operands):
        self.items = [(o_, curve_margin(o_)) for o_ in operands]

    def near(self, o_, m, p):
        return m is not None and p[2] == float(o_.z) and curve_boundary_distance(o_, p) <= m

    def near_any(self, p):
        return any(self.near(o_, m, p) for o_, m in self.items)

    def ring_area(self):
        """area of the excluded rings (boundary length x 2 margin), to bound how many samples may be excluded"""
        return sum(o_.polygons.length * 2 * m for o_, m in self.items if m is not None)


def tri_combine(op, a, b):
    """membership with undetermined operands (None = within the margin of that operand's boundary): acceptable when SOME
    resolution of the undetermined answers puts the point in the composed set"""
    ca = [a] if a is not None else [True, False]
    cb_ = [b] if b is not None else [True, False]
    return any(combine(op, x, y) for x in ca for y in cb_)


def run_continuous(cfg):
    out = dict(id=cfg["id"])
    try:
        reg, operands, op = build_cont(cfg)
        out["class"] = type(reg).__name__
        n = cfg["n"]
        lg = Logger(cfg["seed"])
        numpy.random.seed(cfg["seed"] % (2 ** 31))
        saved = lg.install()
        pts, logs, rejects = [], [], 0
        try:
            tries = 0
            while len(pts) < n and tries < 60 * n + 1000:
                tries += 1
                del lg.log[:]
                try:
                    v = reg.uniformPointInner()
                except RejectionException:
                    rejects += 1
                    continue
                pts.append((float(v[0]), float(v[1]), float(v[2])))
                if len(logs) < cfg.get("nlog", 40):
                    logs.append([list(pts[-1]), [list(e) for e in lg.log]])
        finally:
            uninstall(saved)
        out["n"] = len(pts)
        out["rejects"] = rejects
        out["logs"] = logs
        # membership of every sample in the operands (own containsPoint + explicit height for planar operands)
        bad, nbad, near_members = [], 0, 0
        margins = Margins(operands if cfg["kind"] != "hist" else [])
        for p in pts:
            if cfg["kind"] == "hist":
                # independent geometry (box frame + shapely), 1e-3 slack for the binary32 mesh kernel
                from impl_c16 import local_coords
                bx = cfg["vols"][-1]
                u = local_coords(bx, p)
                in_box = bool((numpy.abs(u) <= numpy.array(bx["dims"]) / 2 + 1e-3).all())
                pt_ = shapely.geometry.Point(p[0], p[1])
                poly_ = operands[1].polygons
                inside, near = bool(poly_.contains(pt_)), poly_.boundary.distance(pt_) <= 1e-3
                ok = in_box and (near or (inside if op == "intersect" else not inside))
                if not ok and len(bad) < 3:
                    bad.append(dict(point=list(p), operand_membership=[in_box, inside]))
                continue
            v = Vector(*p)
            mem = []
            for o_, mg in margins.items:
                if isinstance(o_, (R.PolylineRegion, R.PathRegion)):
                    m = float(o_.distanceTo(v)) <= 1e-7     # 1-D regions: membership within numerical tolerance
                else:
                    m = bool(o_.containsPoint(v))
                if isinstance(o_, R.PolygonalRegion) and p[2] != o_.z:
                    m = False
                elif margins.near(o_, mg, p):
                    m = None                                # within the polygonisation margin of a disc / sector boundary
                mem.append(m)
            ok = (mem[0] is not False) if op is None else tri_combine(op, mem[0], mem[1])
            if None in mem:
                near_members += 1
            if not ok:
                nbad += 1
            if not ok and len(bad) < 3:
                bad.append(dict(point=list(p), operand_membership=mem, margins=[mg for _, mg in margins.items]))
        out["bad_members"] = bad
        out["nbad"] = nbad if cfg["kind"] != "hist" else len(bad)
        out["near_members"] = near_members
        # chi^2 cells.  The cells are cut from the polygons, the primitive samplers use the exact curves: a sample within the polygonisation
        # margin of a disc / sector boundary may fall just outside the polygon's cells without being outside the region.  Such samples are
        # counted apart (near_boundary) instead of `outside`; every sample that falls in a cell stays in the statistic
        cells = None
        polys = [poly_of(o_) for o_ in operands]
        near = margins.near_any
        if op is None:
            A = cfg["A"]
            if A["kind"] in ("rect", "circle", "sector", "polygon"):
                cells = planar_cells(polys[0], pts, cfg.get("k", 6), near)
            elif A["kind"] == "polyline":
                cells = polyline_cells(A, pts)
            elif A["kind"] == "box":
                cells = box_cells(A, pts)
        elif cfg["kind"] == "hist":
            cells = prism_cells(cfg, operands[1].polygons, op, pts)
            out["expected_size"] = cells.pop("volume")
        elif all(p is not None for p in polys) and operands[0].z == operands[1].z:
            target = polys[0] & polys[1] if op == "intersect" else (polys[0] | polys[1] if op == "union" else polys[0] - polys[1])
            if target.area > 1e-6:
                cells = planar_cells(target, pts, cfg.get("k", 6), near)
        elif all(p is not None for p in polys):
            # planar operands at different heights: the composed set lives on one layer per height
            za, zb = float(operands[0].z), float(operands[1].z)
            layers = [] if op == "intersect" else ([(za, polys[0]), (zb, polys[1])] if op == "union" else [(za, polys[0])])
            if layers:
                cells = layer_cells(layers, pts, cfg.get("k", 6), near)
                out["overlap_area"] = float((polys[0] & polys[1]).area)
        if cells is not None:
            cells.setdefault("near_boundary", 0)
            cells["ring_area"] = float(margins.ring_area())
        out["cells"] = cells
        out["size"] = float(reg.size) if getattr(reg, "size", None) is not None else None
    except RecursionError:
        out["exc"] = "RecursionError"
    except BaseException as e:  # noqa
        import traceback
        out["exc"] = type(e).__name__
        out["msg"] = str(e)[:200] + traceback.format_exc()[-300:]
    return out


# ------------------------------------------------------------------ regions with random parameters through the scenario path
_CANON = {}


def canon(shape):
    """canonical frame of the base shapes used by c03.gen_scenario: (bbox centre, extents, footprint polygon or None, z range)"""
    if shape not in _CANON:
        if shape in ("box", "meshbox"):
            _CANON[shape] = (numpy.zeros(3), numpy.ones(3), None, (-0.5, 0.5))
        elif shape == "sphere":
            _CANON[shape] = (numpy.zeros(3), numpy.ones(3), None, (-0.5, 0.5))
        elif shape == "L":
            _CANON[shape] = (numpy.array([1, 1, 0.5]), numpy.array([2.0, 2.0, 1.0]),
                             shapely.geometry.Polygon([(0, 0), (2, 0), (2, 1), (1, 1), (1, 2), (0, 2)]), (0.0, 1.0))
        elif shape == "U":
            _CANON[shape] = (numpy.array([1.5, 1, 0.5]), numpy.array([3.0, 2.0, 1.0]),
                             shapely.geometry.Polygon([(0, 0), (3, 0), (3, 2), (2, 2), (2, 1), (1, 1), (1, 2), (0, 2)]), (0.0, 1.0))
        elif shape == "cyl":
            import trimesh
            m = trimesh.creation.cylinder(radius=1, height=1, sections=12)
            hull = shapely.geometry.MultiPoint([(float(x), float(y)) for x, y, _ in m.vertices]).convex_hull
            _CANON[shape] = (numpy.array(m.bounds).mean(axis=0), numpy.array(m.extents, dtype=float), hull, (-0.5, 0.5))
    return _CANON[shape]


def _ev(e, params):
    return float(params[e[1]]) if isinstance(e, list) else float(e)


def _rot(angles):
    from scipy.spatial.transform import Rotation
    return Rotation.from_euler("ZXY", list(angles)).as_matrix()


def mesh_frame(reg, params, p):
    """the sample in the canonical frame of the region's base shape, for the CONCRETE parameters of this scene"""
    cc, ext, _, _ = canon(reg["shape"])
    pos = numpy.array([_ev(e, params) for e in reg["pos"]])
    M = _rot([_ev(e, params) for e in reg["rot"]]) if reg["rot"] is not None else numpy.eye(3)
    S = numpy.array([_ev(e, params) for e in reg["dims"]]) / ext if reg["dims"] is not None else numpy.ones(3)
    w = (M.T @ (numpy.array(p, dtype=float) - pos)) / S
    return w + cc if reg["center"] else w - numpy.array(reg["offset"], dtype=float)


def mesh_member(reg, w, eps=2e-6):
    shape = reg["shape"]
    cc, ext, poly, (zlo, zhi) = canon(shape)
    if shape in ("box", "meshbox"):
        inside = bool((numpy.abs(w) <= 0.5 + eps).all())
        onb = abs(float(numpy.max(numpy.abs(w))) - 0.5) <= eps
    elif shape == "sphere":
        inside = float(numpy.linalg.norm(w)) <= 0.5 + eps
        onb = True
    else:
        pt = shapely.geometry.Point(float(w[0]), float(w[1]))
        bd = float(poly.boundary.distance(pt))
        inside = (bool(poly.contains(pt)) or bd <= eps) and zlo - eps <= w[2] <= zhi + eps
        onb = bd <= eps or abs(w[2] - zlo) <= eps or abs(w[2] - zhi) <= eps
    return inside and (onb if reg["surface"] else True)


def mesh_cell(reg, w):
    """index of the equal-measure cell (canonical frame) holding w, or None"""
    shape = reg["shape"]
    cc, ext, poly, (zlo, zhi) = canon(shape)
    if reg["surface"]:
        if shape not in ("box", "meshbox"):
            return None
        i = int(numpy.argmax(numpy.abs(w)))
        return 2 * i + (1 if w[i] > 0 else 0)
    if shape in ("box", "meshbox"):
        idx = [min(1, max(0, int((w[i] + 0.5) * 2))) for i in range(3)]
        return (idx[0] * 2 + idx[1]) * 2 + idx[2]
    if shape in ("sphere", "cyl"):
        return (w[0] > 0) * 4 + (w[1] > 0) * 2 + (w[2] > (zlo + zhi) / 2 if shape == "cyl" else w[2] > 0)
    sq = [(0, 0), (1, 0), (0, 1)] if shape == "L" else [(0, 0), (1, 0), (2, 0), (0, 1), (2, 1)]
    key = (min(int(ext[0]) - 1, max(0, int(math.floor(w[0])))), min(int(ext[1]) - 1, max(0, int(math.floor(w[1])))))
    if key not in sq:
        return None
    return sq.index(key) * 2 + (1 if w[2] > 0.5 else 0)


def mesh_cells_expected(reg):
    shape = reg["shape"]
    if reg["surface"]:
        if shape not in ("box", "meshbox"):
            return None
        d = [float(e) for e in reg["dims"]] if reg["dims"] is not None else [1.0, 1.0, 1.0]
        a = [d[1] * d[2], d[1] * d[2], d[0] * d[2], d[0] * d[2], d[0] * d[1], d[0] * d[1]]
        return [x / sum(a) for x in a]
    n = {"box": 8, "meshbox": 8, "sphere": 8, "cyl": 8, "L": 6, "U": 10}[shape]
    return [1.0 / n] * n


def view_frame(view, pose, p):
    pos, M = pose
    eye = numpy.array(pos) + numpy.array(M) @ numpy.array(view["cam"], dtype=float)
    q = numpy.array(M).T @ (numpy.array(p, dtype=float) - eye)
    rho = float(numpy.linalg.norm(q))
    az = math.atan2(-q[0], q[1])
    alt = math.atan2(q[2], math.hypot(q[0], q[1]))
    return rho, az, alt


def view_member(view, rho, az, alt, p):
    h, v = math.radians(view["angles"][0]), math.radians(view["angles"][1])
    D = view["dist"]
    slack = 0.0
    if view["mode"] != "in_visibleRegion":      # a tiny object (0.01 cube) is visible when any part of it is
        slack = 0.02
    ok = rho <= D * (1 + 1e-6) + slack
    aslack = 1e-3 + (slack / max(rho, slack) if slack else 0.0)
    if h < math.tau - 0.017:
        # the azimuth of a point close to the observer's vertical axis is ill-conditioned: what counts for the tiny object is its DISTANCE
        # to the bounding half-plane of the wedge, rho cos(alt) sin(excess azimuth), not the azimuth excess itself
        excess = abs(az) - h / 2
        lateral = rho * math.cos(alt) * math.sin(min(max(excess, 0.0), math.pi / 2))
        ok = ok and (excess <= aslack or (slack > 0 and lateral <= slack))
    if v < math.pi - 0.017:
        # the constant-altitude faces are flat triangles between 32 sampled azimuths: they bulge out of the cone by 1 / cos(step / 2)
        lim = math.atan(math.tan(v / 2) / math.cos(h / 31 / 2))
        ok = ok and abs(alt) <= lim + aslack
    if view["mode"] != "in_visibleRegion":
        ok = ok and all(abs(t) <= view["workspace"] / 2 + 1e-6 for t in p)
    return ok


def op_member(op, p, params):
    mem, near = [], False
    for s in op["operands"]:
        pos = numpy.array([_ev(e, params) for e in s["pos"]])
        M = _rot([_ev(e, params) for e in s["rot"]])
        u = (M.T @ (numpy.array(p, dtype=float) - pos)) / (numpy.array(s["dims"], dtype=float) / 2)
        if s["shape"] == "box":
            mem.append(bool((numpy.abs(u) <= 1).all()))
            near = near or abs(float(numpy.max(numpy.abs(u))) - 1) < 1e-3
        else:
            r = float(numpy.linalg.norm(u))
            mem.append(r <= 1)
            near = near or abs(r - 1) < 0.06        # the spheroid is an inscribed icosphere
    return combine(op["op"], mem[0], mem[1]), mem, near


def run_scenario(cfg):
    out = dict(id=cfg["id"], **{"class": "scenario:" + cfg["family"]})
    try:
        import random as _random
        import time
        t0 = time.time()
        from scenic.syntax.translator import scenarioFromString
        _random.seed(cfg["seed"])
        numpy.random.seed(cfg["seed"] % (2 ** 31))
        scenario = scenarioFromString(cfg["program"], mode2D=False)
        fam = cfg["family"]
        bad, nbad, counts, outside = [], 0, None, 0
        exp = None
        if fam == "mesh":
            exp = mesh_cells_expected(cfg["region"])
        elif fam == "view":
            exp = [1 / 8] * 8
        if exp:
            counts = [0] * len(exp)
        n = 0
        for i in range(cfg["n"]):
            scene, _ = scenario.generate(maxIterations=4000, verbosity=0)
            n += 1
            params = {k: float(v) for k, v in scene.params.items() if isinstance(v, (int, float))}
            poses = [([float(t) for t in o.position], o.orientation.r.as_matrix().tolist()) for o in scene.objects]
            p = poses[-1][0]
            cell, ok, info = None, True, {}
            if fam == "mesh":
                w = mesh_frame(cfg["region"], params, p)
                ok = mesh_member(cfg["region"], w)
                info = dict(canonical_coordinates=[float(t) for t in w])
                cell = mesh_cell(cfg["region"], w) if ok else None
            elif fam == "view":
                view = cfg["view"]
                rho, az, alt = view_frame(view, poses[view["observer"]], p)
                ok = view_member(view, rho, az, alt, p)
                info = dict(distance=rho, azimuth_deg=math.degrees(az), altitude_deg=math.degrees(alt), observer=poses[view["observer"]][0])
                if ok:
                    cell = (az > 0) * 4 + (alt > 0) * 2 + (rho > view["dist"] * 0.5 ** (1 / 3))
            else:
                want, mem, near = op_member(cfg["op"], p, params)
                ok = want or near
                info = dict(operand_membership=mem)
            if not ok:
                nbad += 1
                if len(bad) < 3:
                    bad.append(dict(scene_index=i, point=p, params=params, **info))
            if counts is not None:
                if cell is None:
                    outside += 1 if not ok else 0
                else:
                    counts[int(cell)] += 1
        out["n"] = n
        out["seconds"] = round(time.time() - t0, 2)
        out["nbad"] = nbad
        out["bad_members"] = bad
        out["cells"] = dict(expected=exp, counts=counts, outside=outside) if counts is not None else None
    except RecursionError:
        out["exc"] = "RecursionError"
    except BaseException as e:  # noqa
        import traceback
        out["exc"] = type(e).__name__
        out["msg"] = str(e)[:200] + traceback.format_exc()[-400:]
    return out


def run_placement(cfg):
    """the vertices of a mesh region as Scenic places them, built (a) directly from concrete parameter values and (b) by SAMPLING the
    region with random parameters (MeshRegion.sampleGiven), next to the input vertices: tie of MeshRegion.mesh / sampleGiven to
    the model C03.Placement.place"""
    out = dict(id=cfg["id"])
    try:
        import trimesh
        import random as _random
        from scenic.core.distributions import Range
        reg = cfg["region"]
        _random.seed(cfg["seed"])
        params = {nm: _random.uniform(lo, hi) for nm, lo, hi in cfg["params"]}
        shape = reg["shape"]
        if shape in ("box", "meshbox"):
            base = trimesh.creation.box((1, 1, 1))
        elif shape == "sphere":
            base = None
        elif shape == "cyl":
            base = trimesh.creation.cylinder(radius=1, height=1, sections=12)
        else:
            base = trimesh.creation.extrude_polygon(canon(shape)[2], 1.0)
        if base is None:
            out["skip"] = "sphere"
            return out
        base.apply_translation(reg["offset"])
        pos = [_ev(e, params) for e in reg["pos"]]
        rot = [_ev(e, params) for e in reg["rot"]] if reg["rot"] is not None else None
        dims = [_ev(e, params) for e in reg["dims"]] if reg["dims"] is not None else None
        cls = R.MeshSurfaceRegion if reg["surface"] else R.MeshVolumeRegion

        def mk(lazy):
            kw = dict(position=Vector(Range(pos[0], pos[0]), pos[1], pos[2]) if lazy else Vector(*pos), centerMesh=reg["center"])
            if rot is not None:
                kw["rotation"] = Orientation.fromEuler(*rot)
            if dims is not None:
                kw["dimensions"] = tuple(dims)
            if reg["surface"]:
                kw["orientation"] = None
            return cls(base.copy(), **kw)

        direct = mk(False)
        sampled = mk(True).sample()
        idx = list(range(len(base.vertices)))[:: max(1, len(base.vertices) // 4)][:4]
        out.update(pos=pos, rot=rot, dims=dims, extents=[float(t) for t in base.extents], cc=[float(t) for t in numpy.array(base.bounds).mean(axis=0)],
                   matrix=(_rot(rot) if rot is not None else numpy.eye(3)).tolist(),
                   rows=[dict(v=[float(t) for t in base.vertices[i]], direct=[float(t) for t in direct.mesh.vertices[i]],
                              sampled=[float(t) for t in sampled.mesh.vertices[i]]) for i in idx])
    except BaseException as e:  # noqa
        import traceback
        out["exc"] = type(e).__name__
        out["msg"] = str(e)[:200] + traceback.format_exc()[-400:]
    return out


def planar_cells(poly, pts, k, near=lambda p: False):
    minx, miny, maxx, maxy = poly.bounds
    dx, dy = (maxx - minx) / k, (maxy - miny) / k
    exp, cnt = [], []
    total = poly.area
    for i in range(k):
        for j in range(k):
            cell = shapely.geometry.box(minx + i * dx, miny + j * dy, minx + (i + 1) * dx, miny + (j + 1) * dy)
            exp.append(poly.intersection(cell).area / total)
            cnt.append(0)
    outside = near_out = 0
    for p in pts:
        i = min(k - 1, max(0, int((p[0] - minx) / dx))) if dx > 0 else 0
        j = min(k - 1, max(0, int((p[1] - miny) / dy))) if dy > 0 else 0
        if p[0] < minx - 1e-9 or p[0] > maxx + 1e-9 or p[1] < miny - 1e-9 or p[1] > maxy + 1e-9:
            if near(p):
                near_out += 1
            else:
                outside += 1
            continue
        cnt[i * k + j] += 1
    return dict(expected=exp, counts=cnt, outside=outside, near_boundary=near_out, area=float(total))


def layer_cells(layers, pts, k, near=lambda p: False):
    """cells of a region made of planar pieces at different heights; expected shares by area over ALL layers"""
    total = sum(poly.area for _, poly in layers)
    exp, cnt, index = [], [], []
    for z, poly in layers:
        minx, miny, maxx, maxy = poly.bounds
        dx, dy = (maxx - minx) / k, (maxy - miny) / k
        index.append((z, minx, miny, maxx, maxy, dx, dy, len(exp)))
        for i in range(k):
            for j in range(k):
                cell = shapely.geometry.box(minx + i * dx, miny + j * dy, minx + (i + 1) * dx, miny + (j + 1) * dy)
                exp.append(poly.intersection(cell).area / total)
                cnt.append(0)
    outside = near_out = 0
    for p in pts:
        for z, minx, miny, maxx, maxy, dx, dy, base in index:
            if abs(p[2] - z) < 1e-9 and minx - 1e-9 <= p[0] <= maxx + 1e-9 and miny - 1e-9 <= p[1] <= maxy + 1e-9:
                i = min(k - 1, max(0, int((p[0] - minx) / dx)))
                j = min(k - 1, max(0, int((p[1] - miny) / dy)))
                cnt[base + i * k + j] += 1
                break
        else:
            if near(p):
                near_out += 1
            else:
                outside += 1
    return dict(expected=exp, counts=cnt, outside=outside, near_boundary=near_out, area=float(total))


def prism_cells(cfg, poly, op, pts):
    """box (yaw only) combined with a footprint: the composed set is a prism, so its measure is
    (area of the xy section) x (height): z slices x xy cells, computed with shapely only"""
    box = cfg["vols"][-1]
    from impl_c16 import rotmat
    M = rotmat(box)
    hx, hy, hz = [t / 2 for t in box["dims"]]
    corners = [(numpy.array(box["pos"]) + M @ numpy.array([sx * hx, sy * hy, 0.0]))[:2] for sx, sy in ((-1, -1), (1, -1), (1, 1), (-1, 1))]
    rect = shapely.geometry.Polygon([tuple(map(float, c_)) for c_ in corners])
    target = rect & poly if op == "intersect" else rect - poly
    zlo, zhi = box["pos"][2] - hz, box["pos"][2] + hz
    nz, k = 6, 3
    if target.area < 1e-6:
        return dict(expected=[], counts=[], outside=0, volume=0.0)
    minx, miny, maxx, maxy = target.bounds
    dx, dy = (maxx - minx) / k, (maxy - miny) / k
    exp, cnt = [], []
    for s_ in range(nz):
        for i in range(k):
            for j in range(k):
                cell = shapely.geometry.box(minx + i * dx, miny + j * dy, minx + (i + 1) * dx, miny + (j + 1) * dy)
                exp.append(target.intersection(cell).area / target.area / nz)
                cnt.append(0)
    outside = 0
    for p in pts:
        if not (minx - 1e-6 <= p[0] <= maxx + 1e-6 and miny - 1e-6 <= p[1] <= maxy + 1e-6 and zlo - 1e-6 <= p[2] <= zhi + 1e-6):
            outside += 1
            continue
        s_ = min(nz - 1, max(0, int((p[2] - zlo) / (zhi - zlo) * nz)))
        i = min(k - 1, max(0, int((p[0] - minx) / dx)))
        j = min(k - 1, max(0, int((p[1] - miny) / dy)))
        cnt[(s_ * k + i) * k + j] += 1
    return dict(expected=exp, counts=cnt, outside=outside, volume=float(target.area * (zhi - zlo)))


def polyline_cells(spec, pts):
    P = spec["pts"]
    segs = list(zip(P[:-1], P[1:]))
    lens = [math.hypot(b[0] - a[0], b[1] - a[1]) for a, b in segs]
    total = sum(lens)
    sub = 4
    exp = [l / total / sub for l in lens for _ in range(sub)]
    cnt = [0] * len(exp)
    outside = 0
    for p in pts:
        best, bi = 1e18, None
        for si, (a, b) in enumerate(segs):
            t = ((p[0] - a[0]) * (b[0] - a[0]) + (p[1] - a[1]) * (b[1] - a[1])) / (lens[si] ** 2)
            tt = min(1.0, max(0.0, t))
            d = math.hypot(a[0] + tt * (b[0] - a[0]) - p[0], a[1] + tt * (b[1] - a[1]) - p[1])
            if d < best:
                best, bi = d, (si, tt)
        if best > 1e-6:
            outside += 1
            continue
        cnt[bi[0] * sub + min(sub - 1, int(bi[1] * sub))] += 1
    return dict(expected=exp, counts=cnt, outside=outside)


def box_cells(spec, pts):
    from impl_c16 import local_coords
    h = numpy.array(spec["dims"]) / 2
    k = 3
    cnt = [0] * (k ** 3)
    outside = 0
    for p in pts:
        u = local_coords(spec, p)
        if (numpy.abs(u) > h + 1e-6).any():
            outside += 1
            continue
        idx = [min(k - 1, max(0, int((u[i] + h[i]) / (2 * h[i]) * k))) for i in range(3)]
        cnt[(idx[0] * k + idx[1]) * k + idx[2]] += 1
    return dict(expected=[1 / k ** 3] * (k ** 3), counts=cnt, outside=outside)


def main():
    payload = json.load(sys.stdin)
    if payload["kind"] == "discrete":
        out = dict(results=[run_discrete(c, payload["pool"]) for c in payload["configs"]])
    elif payload["kind"] == "continuous":
        out = dict(results=[run_scenario(c) if c.get("kind") == "scen" else run_continuous(c) for c in payload["configs"]])
    elif payload["kind"] == "placement":
        out = dict(results=[run_placement(c) for c in payload["configs"]])
    else:
        raise SystemExit("unknown kind")
    print(json.dumps(out))


if __name__ == "__main__":
    main()
