"""C14 — simulations leave scenes, scenarios and global state untouched, even on failure.
Proof layer: coq/Properties/C14.v (scene untouched for every op history and exit over a TREE of running
scenarios, created objects, namespaces; every override undone when its scenario stops; state reset).
Correspondence: generated dynamic programs with faults injected at every kind of point, run on the real
code three times per scene; the logged histories are replayed through the model by the Coq kernel
(vm_compute) and every snapshot must agree; oracles: scene before == after, interpreter globals ==
fresh process, re-run equality, override-undone spec, later use (several probe programs) == fresh process."""
import concurrent.futures as cf
import json
import os
import re
import sys

sys.path.insert(0, os.path.dirname(os.path.abspath(__file__)))
import common
from common import Check
import c14_gen as G

PID = "C14"
NOBJ, NP = 3, 5
WORKERS = int(os.environ.get("VERIF_WORKERS", "6"))

HEADER = ("From Coq Require Import ZArith List Bool.\nFrom Scenic Require Import C14.SimState.\nImport ListNotations.\nOpen Scope Z_scope.\n"
          "Definition select (idx:list nat) (l:list (list (list Z))) := map (fun i => nth i l []) idx.\n"
          "Definition eqb3 (a b:list (list (list Z))) : bool := if list_eq_dec (list_eq_dec (list_eq_dec Z.eq_dec)) a b then true else false.\n"
          "Definition stale_v := {| proxies_dropped_first := false; first_only := false; own_before_subs := false; stale_top := true |}.\n")


def zlit(x):
    x = int(x)
    return f"({x})" if x < 0 else str(x)


def zrow(row):
    return "[" + "; ".join(zlit(v) for v in row) + "]"


def op_coq(o):
    k = o[0]
    if k == "Write":
        return f"Write {o[1]}%nat {o[2]}%nat {zlit(o[3])}"
    if k == "Override":
        return f"Override {o[1]}%nat {o[2]}%nat {o[3]}%nat {zlit(o[4])}"
    if k == "Start":
        return f"Start {o[1]}%nat {o[2]}%nat"
    if k == "Stop":
        return f"Stop {o[1]}%nat"
    if k == "Create":
        return f"Create {o[1]}%nat {zrow(o[2])}"
    if k == "NsWrite":
        return f"NsWrite {o[1]}%nat {zlit(o[2])}"
    if k == "NsBind":
        return "NsBind [" + "; ".join(f"{n}%nat" for n in o[1]) + "]"
    return k


def coq_bool(name, variant, before, gs, ops, expected, idxs):
    """a boolean: does the model's trace, observed at idxs, equal the implementation's snapshots?"""
    tbl = "[" + "; ".join(zrow(r) for r in before[:-1]) + "]"
    g0 = zrow(before[-1])
    exp = "[" + "; ".join("[" + "; ".join(zrow(r) for r in obs) + "]" for obs in expected) + "]"
    return (f"Definition ops_{name} : list op := [{'; '.join(op_coq(o) for o in ops)}].\n"
            f"Definition b_{name} : bool := eqb3 (select [{'; '.join(str(i) + '%nat' for i in idxs)}] "
            f"(trace {variant} ops_{name} (init (fun o p => nth p (nth o {tbl} []) 0) (fun n => nth n {g0} 0) (fun n => nth n {zrow(gs)} 0)) {NOBJ} {NP})) {exp}.\n")


def eval_bools(fname, defs, names):
    """kernel evaluation (vm_compute) of the booleans; returns {name: bool} or None on failure"""
    out = {}
    text = HEADER + "\n".join(defs) + "\nEval vm_compute in [" + "; ".join("b_" + n for n in names) + "].\n"
    ok, res = common.run_coq_cases(fname, text)
    if not ok:
        return None, res
    m = re.search(r"=\s*\[(.*?)\]\s*:\s*list bool", res, re.S)
    vals = re.findall(r"true|false", m.group(1)) if m else []
    if len(vals) != len(names):
        return None, res
    return {n: v == "true" for n, v in zip(names, vals)}, res


def ints(s):
    return [[int(v) for v in row] for row in s]


def all_int(s):
    return all(float(v) == int(v) for row in s for v in row)


def to_model(log, before, after):
    """turn a logged history into model operations + the snapshots to compare; None if not integral"""
    mops = [["Begin"]]
    exp = [None]  # filled by the caller: after Begin the objects read the scene, the globals the sample
    idxs = [0]
    known, parent, order = {0}, {0: 0}, []
    prev_snap = before
    stop_at = {}  # scenario -> (index of the log entry at which it was found stopped, final?)
    holders = {}  # spec oracle state: (o,p) -> dict(base=, ids=[...], dirty=bool, all=[...])
    spec_fail = None
    for l in log:
        kind, alive, snap = l[0], l[-2], l[-1]
        if not all_int(snap):
            return None
        stopped = sorted(k for k in known if k not in alive)
        freed = []
        if stopped:
            if kind == "Final":
                mops.append(["StopAll"])
            else:
                def path(k):  # the scenario tree is stepped depth-first, sub-scenarios oldest first
                    p = [k]
                    while p[0] != 0 and p[0] in parent and len(p) < 50:
                        p.insert(0, parent[p[0]])
                    return p
                for k in sorted((k for k in stopped if k == 0 or parent.get(k) not in stopped), key=path):
                    mops.append(["Stop", k])
            known -= set(stopped)
            for k in stopped:
                stop_at[k] = (len(idxs), kind == "Final")
            for key, h in holders.items():
                if h["ids"] and all(i in stopped for i in h["ids"]):
                    freed.append(key)
                h["ids"] = [i for i in h["ids"] if i not in stopped]
        touched = None
        if kind == "W":
            if float(l[3]) != int(l[3]):
                return None
            mops.append(["Write", l[1], l[2], int(l[3])])
            touched = (l[1], l[2])
            if touched in holders and holders[touched]["ids"]:
                holders[touched]["dirty"] = True
        elif kind == "O":
            mops.append(["Override", l[1], l[2], l[3], int(l[4])])
            touched = (l[2], l[3])
            h = holders.get(touched)
            if h is None or not h["ids"]:
                # the value just before this override is the previous snapshot's, unless scenarios were found
                # stopped at this very entry (their reverts came in between and were not observed separately)
                h = holders[touched] = dict(base=prev_snap[l[2]][l[3]] if l[2] < NOBJ and not stopped else None, ids=[], dirty=False, all=[])
            if l[1] not in h["ids"]:
                h["ids"].append(l[1])
                h["all"].append(l[1])
        elif kind == "Start":
            mops.append(["Start", l[1], l[2]])
            parent[l[1]] = l[2]
        elif kind == "SetupDone":
            known.add(l[1])
        elif kind == "C":
            mops.append(["Create", l[1], [int(v) for v in l[2]]])
        elif kind == "N":
            mops.append(["NsWrite", l[1], int(l[2])])
        elif kind == "NB":
            mops.append(["NsBind", list(l[1])])
        idxs.append(len(mops) - 1)
        exp.append(ints(snap))
        # spec oracle: once every scenario that overrode (o,p) has stopped (and nobody assigned it in
        # between), it reads the value it had before the first of those overrides
        for key in freed:
            h = holders[key]
            if key != touched and not h["dirty"] and h["base"] is not None and snap[key[0]][key[1]] != h["base"] and spec_fail is None:
                def anc(a, b):  # a is an ancestor of (or equal to) b
                    while True:
                        if a == b:
                            return True
                        if b == 0 or b not in parent:
                            return False
                        b = parent[b]
                par = any(not anc(a, b) and not anc(b, a) for a in h["all"] for b in h["all"])

                def lifo(a, b):  # a overrode first, b on top of it: b's revert must come before a's
                    (ta, fa), (tb, fb) = stop_at.get(a, (10 ** 9, True)), stop_at.get(b, (10 ** 9, True))
                    if ta != tb:
                        return tb < ta
                    return (b > a) if fa else (anc(a, b) and a != b)
                nonlifo = any(not lifo(a, b) for i, a in enumerate(h["all"]) for b in h["all"][i + 1:])
                spec_fail = dict(obj=key[0], prop=key[1], expected=h["base"], got=snap[key[0]][key[1]], overriding_scenarios=h["all"],
                                 parallel_siblings=par, non_lifo_overlap=nonlifo)
            if not h["ids"]:
                h["dirty"] = False
        prev_snap = snap
    mops.append(["Finish"])
    idxs += [len(mops) - 1, len(mops)]
    exp.append(ints(after))
    exp.append(ints(after))
    return mops, exp, idxs, spec_fail


def main():
    c = Check(PID, "proof")
    c.cov["rule"] = ("generated dynamic programs (a tree of sub-scenarios: nested and PARALLEL siblings, `do ... for n steps`, time limits; overrides "
                     "in setup/compose blocks and from behaviours, override of `behavior`; assignments by compose blocks, behaviours, actions "
                     "(Action.applyTo) and the simulator; objects created in sub-scenario setup blocks; globals assigned by behaviours / rebound by "
                     "requirement closures; 2D and 3D mode) with one fault out of ~40 kinds (exception, BaseException, rejection, guard violation, "
                     "terminate [simulation], simulator failure, failing compile) injected at a random point; each scene is simulated three times "
                     "(same seed twice, then a different course); every logged history is replayed through the Coq model; non-trivial = the "
                     "history contains an override or a write and is distinct by hash of (history, exit)")
    common.ensure_parser()
    if not os.environ.get("VERIF_C14_NOPROOFS") and not c.proofs():  # the knob is a development aid only
        c.finish()
    quick = c.tier == "quick"
    nprog = int(os.environ.get("VERIF_C14_N", 96 if quick else 700))
    rng = c.rng
    progs = []
    cdir = os.path.join(common.VERIF, "corpus", PID)
    if os.path.isdir(cdir):
        for f in sorted(os.listdir(cdir)):
            if f.endswith(".json"):
                p = json.load(open(os.path.join(cdir, f)))
                if "nsreq" in p:
                    progs.append(p)
    for i in range(nprog):
        progs.append(G.gen_program(rng, i))
    jobs = []
    for i, p in enumerate(progs):
        f = p["fault"]
        job = dict(name=f"p{i}", src=G.to_scenic(p), seed=rng.randint(0, 10 ** 6), steps=rng.randint(4, 9), raise_guard=p["raise_guard"],
                   mode2D=bool(p.get("mode2D")), prog=p)
        if f in G.SIM_FAULTS:
            job["sim_fault"] = [G.SIM_FAULTS[f], p["fault_step"]]
        job["runs"] = plan_runs(rng, p, job["steps"])
        # reference compilations (fresh process): the first run of each list is made right after a new compilation
        later = [2, 3, 4, 5]
        first = later[i % 4]
        job["ref_plan"] = [[first] + [k for k in reversed(later) if k != first] + [0]]
        if p.get("top_guard"):
            job["ref_plan"][0].append(6)
            job["ref_plan"].append([7, 3])
        jobs.append(job)
    if c.replay:
        body = json.load(open(c.replay))
        if "job" in body.get("case", {}):
            jobs = [body["case"]["job"]]
    probes = G.probes()
    chists = G.compile_histories(rng, int(os.environ.get("VERIF_C14_NCH", 3 if quick else 12)))
    tmp = os.path.join(common.WORK if os.path.isdir(common.WORK) else "/tmp", "c14")
    os.makedirs(tmp, exist_ok=True)
    env = dict(VERIF_C14_TMP=tmp)
    if DEBUG:
        env["VERIF_C14_DEBUG"] = "1"
    nw = max(1, min(WORKERS, len(jobs)))
    chunks = [jobs[i::nw] for i in range(nw)]

    def fresh(pr):
        return common.run_impl("impl_c14.py", dict(programs=[dict(name="state0", state=True), pr]), extra_env=env)["results"]

    def work(kch):
        # interleave the probes after every few programs: later use of the same process
        k0, ch = kch
        seq = [dict(name="state0", state=True)]
        npb = 0
        mine = [h for i, h in enumerate(chists) if i % nw == k0]
        for k, j in enumerate(ch):
            seq.append({k2: v for k2, v in j.items() if k2 != "prog"})
            if k % 4 == 3 or k == len(ch) - 1:
                pr = probes[(k0 + npb) % len(probes)]
                npb += 1
                seq.append(dict(pr, name=f"{pr['name']}-after-{j['name']}"))
            if mine and (k % 5 == 2 or k == len(ch) - 1):
                seq.append(mine.pop())
        return common.run_impl("impl_c14.py", dict(programs=seq), timeout=7000, extra_env=env)["results"]

    def reference(kch):
        # the later-use oracle for histories: one fresh process per chunk; every distinct run of every history is made
        # there from a NEW compilation; the compile histories with a module name of its own per operation
        k0, ch = kch
        seq = [dict({k2: v for k2, v in j.items() if k2 != "prog"}, ref=True) for j in ch if j["prog"]["fault"] not in G.COMPILE_FAULTS]
        seq += [G.rename_for_reference(h) for i, h in enumerate(chists) if i % nw == k0]
        return common.run_impl("impl_c14.py", dict(programs=seq), timeout=7000, extra_env=env)["results"]

    with cf.ThreadPoolExecutor(WORKERS) as ex:
        fut_ref = [ex.submit(timed("probe-ref", fresh), pr) for pr in probes]
        fut_work = [ex.submit(timed("work", work), kc) for kc in enumerate(chunks)]
        fut_hist = [ex.submit(timed("hist-ref", reference), kc) for kc in enumerate(chunks)]
        refs = {}
        state0 = None
        for pr, fu in zip(probes, fut_ref):
            rr = fu.result()
            state0 = rr[0]["state"]
            refs[pr["name"]] = rr[1]
            if rr[1].get("veneer_after") != state0:
                c.violation("veneer", "interpreter state after a probe in a fresh process differs from the state before it",
                            dict(probe=pr["name"], diff=state_diff(rr[1].get("veneer_after"), state0), diff_json=json.dumps(state_diff(rr[1].get("veneer_after"), state0), sort_keys=True)))
        results = []
        for fu in fut_work:
            results += fu.result()
        href, chref = {}, {}
        for fu in fut_hist:
            for r in fu.result():
                if "crash" in r:
                    c.violation("harness", "reference driver crashed", dict(crash=r["crash"]), no_input=True)
                elif "ref" in r:
                    href[r["name"]] = r["ref"]
                else:
                    chref[r["name"]] = r
    by = {j["name"]: j for j in jobs}
    chby = {h["name"]: h for h in chists}
    defs, names, case_info = [], [], {}
    last_job = None
    for r in results:
        if "crash" in r:
            c.violation("harness", "implementation driver crashed", dict(crash=r["crash"]), no_input=True)
            continue
        if r["name"] == "state0":
            if r["state"] != state0:
                c.violation("harness", "two fresh processes start in different states", dict(diff=state_diff(r["state"], state0)), no_input=True)
            continue
        if "ops" in r:
            check_chist(c, chby[r["name"]], r, chref.get(r["name"]), state0, last_job)
            continue
        if "probe" in r:
            pname = r["name"].split("-after-")[0]
            ref = refs[pname]
            c.count(n=1)
            c.hist("probe:" + pname)
            if r["probe"] != ref["probe"]:
                c.violation("later-use", "compile/generate/simulate after earlier runs differs from a fresh process",
                            dict(after=r["name"], got=shorten(r["probe"]), fresh=shorten(ref["probe"]), job=last_job,
                                 got_objects=len(r["probe"].get("scene", [])), fresh_objects=len(ref["probe"].get("scene", []))))
            if r["veneer_after"] != state0:
                c.violation("veneer", "interpreter global state differs from a fresh process after a probe",
                            dict(after=r["name"], diff=state_diff(r["veneer_after"], state0), diff_json=json.dumps(state_diff(r["veneer_after"], state0), sort_keys=True), job=last_job))
            continue
        job = by[r["name"]]
        last_job = job
        fault = job["prog"]["fault"]
        c.hist("fault:" + fault)
        c.hist("mode2D" if job["mode2D"] else "mode3D")
        if "skip" in r:
            if fault in G.COMPILE_FAULTS:
                c.count(("compile-fault", fault, r["skip"][:60]), nontrivial=True)
                c.hist("compile-failed-as-injected")
                if r["veneer_after"] != state0:
                    c.violation("veneer", "interpreter global state not reset after a failing compilation",
                                dict(job=job, diff=state_diff(r["veneer_after"], state0), diff_json=json.dumps(state_diff(r["veneer_after"], state0), sort_keys=True), why=r["skip"]))
            else:
                c.violation("harness", "generated program does not compile", dict(job=job, why=r["skip"]), no_input=True)
            continue
        if fault in G.COMPILE_FAULTS:
            c.violation("harness", "compile fault did not fail", dict(job=job), no_input=True)
        log = r["log"]
        ops = [l[:-2] for l in log]
        key = (json.dumps(ops), r["outcome"], fault)
        nontriv = any(o[0] in ("W", "O") for o in ops)
        c.count(key, nontrivial=nontriv)
        c.cov["traces_validated_against_impl"] += 1
        if job["prog"].get("directed"):
            c.hist("directed:" + job["prog"]["directed"])
        c.hist("outcome:" + ":".join(r["outcome"].split(":")[:2]))
        c.hist("history-len<=10" if len(ops) <= 10 else "history-len>10")
        c.hist("overrides", sum(1 for o in ops if o[0] == "O"))
        c.hist("overrides-from-behaviour-or-top-level", sum(1 for o in ops if o[0] == "O" and o[1] == 0))
        c.hist("override-of-behavior", sum(1 for o in ops if o[0] == "O" and o[3] == 4))
        c.hist("scenario-starts", sum(1 for o in ops if o[0] == "Start"))
        c.hist("objects-created", sum(1 for o in ops if o[0] == "C"))
        c.hist("global-writes", sum(1 for o in ops if o[0] in ("N", "NB")))
        c.hist("parallel-invocations", sum(1 for l in log if l[0] == "Start" and sum(1 for x in l[-2] if x != 0) >= 1 and l[2] in l[-2] and
                                           any(x > l[2] for x in l[-2])))
        # ---- oracles on the implementation
        sc = lambda t: [t[0], t[1], t[-1]]
        if sc(r["after"]) != sc(r["before"]) or not r["allprops_equal"] or not r["allprops_equal3"] or sc(r["run3"]["after"]) != sc(r["before"]):
            c.violation("scene-changed", "a property of a scene object (or a behaviour global) reads differently after the simulation",
                        dict(job=job, before=r["before"], after=r["after"], after3=r["run3"]["after"], outcome=r["outcome"], diff=r.get("allprops_diff")))
        for va in (r["veneer_after"], r["veneer_after3"]):
            if va != state0:
                c.violation("veneer", "interpreter global state not reset after the simulation",
                            dict(job=job, diff=state_diff(va, state0), diff_json=json.dumps(state_diff(va, state0), sort_keys=True), outcome=r["outcome"]))
                break
        if not r["rerun_equal"] or not r["rerun_log_equal"] or r["rerun_outcome"] != r["outcome"] or sc(r["after2"]) != sc(r["before"]):
            c.violation("rerun", "re-running the same scene with the same seed gives a different result",
                        dict(job=job, outcome=r["outcome"], rerun=r["rerun_outcome"], equal=r["rerun_equal"], log_equal=r["rerun_log_equal"]))
        check_history(c, job, r, href.get(job["name"]), state0)
        # ---- model replay: Begin, history, Finish (first run and third run)
        nm = r["name"]
        m1 = to_model(log, r["before"], r["after"])
        if m1 is None or not all_int(r["before"]) or not all_int(r["after"]):
            c.hist("non-integral-history-skipped")
            continue
        mops, exp, idxs, spec_fail = m1
        exp[0] = ints(r["before"][:-1]) + [[int(v) for v in r["gs"]]]
        if spec_fail:
            c.violation("override-not-undone", "after every scenario that overrode a property has ended it does not read its pre-override value",
                        dict(job=job, outcome=r["outcome"], history=mops, **spec_fail))
        defs.append(coq_bool(nm, "fixed", ints(r["before"]), r["gs"], mops, exp, idxs))
        names.append(nm)
        case_info[nm] = dict(job=job, history=mops, impl_snapshots=exp, outcome=r["outcome"], run=1, before=r["before"], idxs=idxs)
        r3 = r["run3"]
        m3 = to_model(r3["log"], r3["before"], r3["after"])
        if m3 is not None and all_int(r3["after"]) and sc(r3["before"]) == sc(r["before"]):
            mops3, exp3, idxs3, _ = m3
            exp3[0] = exp[0]
            defs.append(coq_bool(nm + "_r3", "fixed", ints(r["before"]), r["gs"], mops3, exp3, idxs3))
            names.append(nm + "_r3")
            # the same third run under the model variant whose top-level table survives the earlier runs
            allops = remap(mops, 100) + remap(mops, 200) + mops3
            off = 2 * len(mops)
            alt = coq_bool(nm + "_r3s", "stale_v", ints(r["before"]), r["gs"], allops, exp3, [i + off for i in idxs3])
            case_info[nm + "_r3"] = dict(job=job, history=mops3, impl_snapshots=exp3, outcome=r3["outcome"], run=3, alt=alt, before=r["before"], idxs=idxs3,
                                         earlier_history=mops)
        c.sample(dict(program=job["src"][len(G.PRELUDE):], history=ops, outcome=r["outcome"]), limit=3)
    # ---- kernel evaluates the model on every logged history
    shards = [list(range(i, min(i + 150, len(names)))) for i in range(0, len(names), 150)]

    def run_shard(k_sh):
        k, sh = k_sh
        return sh, eval_bools(f"C14_cases_s{c.seed}_{k}", [defs[i] for i in sh], [names[i] for i in sh])

    failing = []
    with cf.ThreadPoolExecutor(WORKERS) as ex:
        for sh, (vals, out) in ex.map(run_shard, enumerate(shards)):
            if vals is None:
                c.violation("harness", "coqc failed on generated cases", dict(out=out[-1500:]), no_input=True)
                continue
            c.cov["disagreements_checked"] += len(sh)
            failing += [n for n, v in vals.items() if not v]
    # cases of a third run that the repaired model rejects: does the stale-table variant explain them?
    alts = [n for n in failing if case_info[n].get("alt")]
    explained = {}
    if alts:
        vals, out = eval_bools(f"C14_alt_s{c.seed}", [case_info[n]["alt"] for n in alts], [n + "s" for n in alts])
        if vals:
            explained = {n: vals[n + "s"] for n in alts}
    for n in failing:
        info = case_info[n]
        rep = dict(job=info["job"], history=info["history"], impl_snapshots=info["impl_snapshots"], outcome=info["outcome"], run=info["run"], before=info["before"], idxs=info["idxs"],
                   explained_by="stale_top" if explained.get(n) else None)
        if info.get("earlier_history"):
            rep["earlier_history"] = info["earlier_history"]
        c.violation("correspondence", "model and implementation disagree on what objects / globals read along a logged history", rep)
    c.cov["programs"] = len(case_info)
    c.assumptions += [
        "model = hand-written Gallina (coq/C14/SimState.v); the history fed to it is the one the real run logged; the order in which "
        "scenarios found stopped between two log entries were stopped is the model's (roots of the stopped set oldest first; newest first at the end)",
        "closure cells of requirement closures and per-object proxy bookkeeping (which objects have a proxy) are outside the model",
        "CPython semantics of try/finally and generators",
    ]
    c.finish()


TIMESTEPS = [1, 0.5, 0.25, 2]
DEBUG = bool(os.environ.get("VERIF_C14_DEBUG"))


def timed(label, f):
    def g(*a):
        import time
        t = time.time()
        try:
            return f(*a)
        finally:
            if DEBUG:
                print(f"DBG {label} {time.time() - t:.1f}s", file=sys.stderr)
    return g
START_GUARD = ("rejected", "exception:PreconditionViolation", "exception:InvariantViolation")


def check_history(c, job, r, ref, state0):
    """later-use oracle, run by run: the k-th simulation made from one compiled Scenario object (fresh scenes and the same
    scene again, other timesteps / maxSteps / guard outcomes) == the same (program, scene seed, options) simulated after
    a fresh compilation in another process"""
    runs, hist = job["runs"], r.get("hist") or []
    if ref is None or len(hist) != len(runs):
        c.violation("harness", "history without reference", dict(job=job, nhist=len(hist)), no_input=True)
        return
    seen_ts = set()
    for k, (spec, h) in enumerate(zip(runs, hist)):
        cands = ref.get(json.dumps(spec, sort_keys=True)) or []
        fresh = next((x["res"] for x in cands if x["fresh"]), None)
        others = [x["res"] for x in cands if not x["fresh"]]
        if not cands:
            c.violation("harness", "run without reference", dict(job=job, run_index=k), no_input=True)
            continue
        c.hist("history-reference:" + ("fresh-compilation" if fresh is not None else "other-history"))
        if fresh is None:
            fresh = others[0]
        if any(o != fresh for o in others):
            c.violation("history", "the same simulation gives different results at two positions of the reference histories",
                        dict(job=job, run_index=k, run=spec, got=others, fresh=fresh, prev_top_guard_violation=False, in_reference=True))
        c.cov["history_runs_compared"] = c.cov.get("history_runs_compared", 0) + 1
        c.hist("history-run:" + ("same-scene" if spec["scene"] == 0 else "fresh-scene") + (":guard-false" if spec.get("flag") else ""))
        c.hist(f"history-timestep:{spec['ts']}")
        if k and spec["ts"] not in seen_ts:
            c.hist("history-run-with-new-timestep")
        seen_ts.add(spec["ts"])
        if h.get("outcome"):
            c.hist("history-outcome:" + h["outcome"])
        prev_guard = k > 0 and bool(runs[k - 1].get("flag")) and hist[k - 1].get("outcome") in START_GUARD and hist[k - 1].get("nlog") == 0
        core = {k2: v for k2, v in h.items() if k2 not in ("redo", "after_start_guard_violation", "scene_changed")}
        if core != fresh:
            if DEBUG:
                if core.get("blob") and fresh.get("blob"):
                    b1, b2 = core.pop("blob"), fresh.pop("blob")
                    i0 = next((i for i in range(min(len(b1), len(b2))) if b1[i] != b2[i]), 0)
                    print("DBG blobdiff", b1[max(0, i0 - 150):i0 + 100], "|||", b2[max(0, i0 - 150):i0 + 100], file=sys.stderr)
                print("DBG history", job["name"], k, spec, core, fresh, prev_guard, job["prog"].get("top_limit"), job["prog"].get("top_guard"), job["prog"]["fault"], file=sys.stderr)
            c.violation("history", f"simulation no. {k + 1} made from one compiled scenario differs from the same simulation after a fresh compilation",
                        dict(job=job, run_index=k, run=spec, got=core, fresh=fresh, earlier=[[s2, h2.get("outcome"), h2.get("time")] for s2, h2 in zip(runs[:k], hist[:k])],
                             prev_top_guard_violation=prev_guard, top_limit=job["prog"].get("top_limit"), top_guard=job["prog"].get("top_guard")))
        noblob = lambda x: {k2: v for k2, v in x.items() if k2 != "blob"} if isinstance(x, dict) else x
        if h.get("redo") is not None and noblob(h["redo"]) != noblob(fresh):
            c.violation("history", "simulation after re-compilation differs from the same simulation in a fresh process",
                        dict(job=job, run_index=k, run=spec, got=h["redo"], fresh=fresh, prev_top_guard_violation=False, recompiled=True))
        if h.get("scene_changed"):
            c.violation("scene-changed", "a property of a scene object reads differently after a later simulation of the history",
                        dict(job=job, run_index=k, run=spec))
    if r.get("veneer_after_hist") != state0:
        d = state_diff(r.get("veneer_after_hist"), state0)
        c.violation("veneer", "interpreter global state not reset after a history of simulations", dict(job=job, diff=d, diff_json=json.dumps(d, sort_keys=True)))


def check_chist(c, h, r, ref, state0, last_job):
    """compile history: every compilation (after compilations that imported the same helper module and then failed)
    == the same compilation where no other compilation can have left anything (own module names, other process)"""
    if ref is None or len(ref["ops"]) != len(r["ops"]):
        c.violation("harness", "compile history without reference", dict(name=h["name"]), no_input=True)
        return
    canon = lambda x: json.loads(re.sub(G.CH_MOD + r"\d+x", G.CH_MOD, json.dumps(x)))
    for k, (op, got, fr) in enumerate(zip(h["ops"], r["ops"], ref["ops"])):
        c.count(("chist", op["what"], k), nontrivial=True)
        c.hist("compile-history-op:" + op["what"].split(":hp")[0])
        failed = "error" in got["res"]
        if failed != bool(op.get("expect_fail")):
            c.violation("harness", "compile-history operation did not behave as planned", dict(op=op, got=got["res"]), no_input=True)
        if got["res"] != canon(fr["res"]):
            c.violation("compile-history", f"compilation no. {k + 1} of a process differs from the same compilation in a fresh process",
                        dict(history=h["name"], op_index=k, op=op, got=shorten(got["res"]), fresh=shorten(canon(fr["res"])),
                             earlier=[o["what"] for o in h["ops"][:k]], ops=h["ops"][:k + 1], after_job=last_job and last_job["name"]))
        if got["state"] != state0:
            d = state_diff(got["state"], state0)
            c.violation("veneer", "interpreter global state (ScenicModules in sys.modules, veneer, ...) differs from start-up after a compilation of a compile history",
                        dict(history=h["name"], op_index=k, op=op, diff=d, diff_json=json.dumps(d, sort_keys=True), earlier=[o["what"] for o in h["ops"][:k]]))


def plan_runs(rng, prog, steps):
    """the history of simulations made from ONE compiled Scenario object: runs 1-2 the first scene twice with the same seed
    and options, run 3 the first scene taking another course (RUN() = 1) with another timestep and maxSteps, then a fresh
    scene, the first scene again (other timestep each), a second fresh scene; programs with a top-level guard then get a run
    in which the guard is false when the simulation starts, followed by a run in which it holds again"""
    ts = rng.sample(TIMESTEPS, 4)
    big = lambda: rng.choice([steps, rng.randint(3, 7), rng.randint(8, 14)])
    runs = [dict(scene=0, run=0, seed_off=1, ts=ts[0], steps=steps), dict(scene=0, run=0, seed_off=1, ts=ts[0], steps=steps),
            dict(scene=0, run=1, seed_off=2, ts=ts[1], steps=big()),
            dict(scene=1, run=0, seed_off=3, ts=ts[2], steps=big()),
            dict(scene=0, run=0, seed_off=1, ts=ts[3], steps=big()),
            dict(scene=2, run=rng.randint(0, 1), seed_off=4, ts=ts[0], steps=big())]
    if prog.get("top_guard"):
        runs.append(dict(scene=rng.choice([0, 1, 3]), run=0, seed_off=5, ts=rng.choice(TIMESTEPS), steps=big(), flag=1))
        runs.append(dict(scene=rng.choice([0, 1]), run=0, seed_off=6, ts=rng.choice(TIMESTEPS), steps=big()))
    return runs


def remap(ops, delta):
    """objects created during an earlier run are different objects: give them other identities"""
    out = []
    for o in ops:
        o = list(o)
        pos = {"Write": 1, "Override": 2, "Create": 1}.get(o[0])
        if pos is not None and o[pos] >= 2:
            o[pos] += delta
        out.append(o)
    return out


def shorten(x):
    s = json.dumps(x)
    return x if len(s) < 3000 else s[:3000]


def state_diff(a, b):
    if not isinstance(a, dict) or not isinstance(b, dict):
        return [repr(a)[:300], repr(b)[:300]]
    d = {}
    for k in sorted(set(a) | set(b)):
        if a.get(k) != b.get(k):
            d[k] = state_diff(a.get(k), b.get(k)) if isinstance(a.get(k), dict) and isinstance(b.get(k), dict) else [a.get(k), b.get(k)]
    return d


if __name__ == "__main__":
    main()
