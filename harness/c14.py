"""C14 — simulations leave scenes, scenarios and global state untouched, even on failure.
Proof layer: coq/Properties/C14.v (scene_untouched for every op history and exit, overrides undone,
state reset).  Correspondence: generated dynamic programs with faults injected at every kind of
point, run on the real code; the logged history is replayed through the model by the Coq kernel
(vm_compute) and every snapshot must agree; oracles: scene before == after, veneer globals reset,
re-run equality, later use == fresh process."""
import concurrent.futures as cf
import json
import os
import sys

sys.path.insert(0, os.path.dirname(os.path.abspath(__file__)))
import common
from common import Check

PID = "C14"
PROPS = ["foo", "bar", "baz"]

PRELUDE = '''import builtins
import scenic.syntax.veneer as _V
LOG = builtins.VERIF_C14_LOG
PROPS = ['foo', 'bar', 'baz']
def objs():
    return simulation().objects[:2]
def rec(kind, *args):
    LOG.append([kind, *args, [[getattr(o, p) for p in PROPS] + [o.position.y] for o in objs()]])
def depth():
    return len(_V.runningScenarios)
def boom(t):
    if simulation().currentTime >= t:
        raise RuntimeError("injected in record/condition")
    return 0
'''


def gen_items(rng, depth, nsubs, in_setup=False, allow_fail=True, fail_here=None):
    items = []
    n = rng.randint(1, 5)
    for _ in range(n):
        k = rng.choice(["W", "O", "O", "wait", "do", "W"])
        if in_setup and k in ("wait", "do"):
            k = "O"
        if k == "do" and (depth >= 2 or nsubs == 0):
            k = "wait"
        if k in ("W", "O"):
            items.append([k, rng.randint(0, 1), rng.randint(0, 2), rng.randint(-9, 99)])
        elif k == "wait":
            items.append(["wait"])
        else:
            items.append(["do", rng.randrange(nsubs)])
    return items


def gen_directed(rng):
    """Nested scenarios overriding the SAME property of the same object; the outer one is stopped from
    outside (time limit / terminate) while the inner one is still running; the parent keeps reading."""
    o, p = rng.randint(0, 1), rng.randint(0, 2)
    inner = dict(setup=[["O", o, p, rng.randint(200, 299)]] + gen_items(rng, 1, 0, in_setup=True)[:2],
                 compose=[["wait"]] * 5)
    mid_setup = [["O", o, p, rng.randint(300, 399)]] + gen_items(rng, 1, 0, in_setup=True)[:2]
    if rng.random() < 0.5:
        mid_setup = mid_setup[1:] + mid_setup[:1]
    mid = dict(setup=mid_setup, compose=[["wait"]] * rng.randint(0, 1) + [["do", 1]] + [["wait"]] * 3, term_after=rng.randint(1, 3))
    main = gen_items(rng, 0, 0)[:2] + [["do", 0]] + [["wait"], ["W", 1 - o, p, 5], ["wait"]] + gen_items(rng, 0, 0)[:2]
    beh = None if rng.random() < 0.5 else [["wait"], ["W", 0, rng.randint(0, 2), 150], ["wait"]]
    fault = rng.choice(["none", "none", "raise-main", "reject-main", "sim-step", "terminate-main"])
    return dict(main=main, subs=[mid, inner], beh=beh, fault=fault, fault_pos=rng.randint(3, 8), fault_step=rng.randint(2, 4),
                raise_guard=True, directed=True)


def gen_program(rng, idx):
    if idx % 4 == 3:
        return gen_directed(rng)
    nsubs = rng.randint(0, 2)
    subs = []
    for k in range(nsubs):
        # sub k may only invoke subs with larger index (no recursion)
        setup = gen_items(rng, 1, 0, in_setup=True)
        comp = [it if it[0] != "do" else ["do", rng.randrange(k + 1, nsubs)] if k + 1 < nsubs else ["wait"]
                for it in gen_items(rng, 1, nsubs)]
        sub = dict(setup=setup, compose=comp)
        if rng.random() < 0.4:
            # the scenario is stopped from outside (time limit) while its compose block - and possibly a
            # sub-scenario it invoked - is still running
            sub["term_after"] = rng.randint(1, 3)
            sub["compose"] = comp + [["wait"]] * 4
        subs.append(sub)
    main = gen_items(rng, 0, nsubs) + [["wait"]] + gen_items(rng, 0, nsubs)
    beh = None
    if rng.random() < 0.6:
        beh = [rng.choice([["W", 0, rng.randint(0, 2), rng.randint(100, 199)], ["wait"]]) for _ in range(rng.randint(1, 5))]
    # where the run ends abnormally
    fault = rng.choice(["none", "none", "raise-main", "raise-sub-setup", "raise-sub-compose", "raise-behavior",
                        "reject-main", "reject-sub", "guard", "monitor", "record", "sim-step", "sim-readback",
                        "sim-actions", "sim-create", "terminate-main", "terminate-sub", "reject-behavior"])
    prog = dict(main=main, subs=subs, beh=beh, fault=fault, fault_pos=rng.randint(0, 6), fault_step=rng.randint(0, 3),
                raise_guard=rng.random() < 0.5)
    return prog


def fail_lines(kind):
    if kind == "raise":
        return ['rec("Fail")', 'raise RuntimeError("injected")']
    if kind == "reject":
        return ['rec("Fail")', "require False"]
    if kind == "terminate":
        return ["terminate"]
    raise ValueError(kind)


def emit_items(items, ind, fail=None, fail_pos=None, self_obj=False):
    L = []
    pad = " " * ind
    for i, it in enumerate(items):
        if fail and fail_pos == i:
            L += [pad + l for l in fail_lines(fail)]
        if it[0] == "W":
            tgt = "self" if self_obj else f"objs()[{it[1]}]"
            L.append(f"{pad}{tgt}.{PROPS[it[2]]} = {it[3]}")
            L.append(f'{pad}rec("W", {it[1]}, {it[2]}, {it[3]})')
        elif it[0] == "O":
            L.append(f"{pad}override objs()[{it[1]}] with {PROPS[it[2]]} {it[3]}")
            L.append(f'{pad}rec("O", {it[1]}, {it[2]}, {it[3]})')
        elif it[0] == "wait":
            L.append(pad + "wait")
        elif it[0] == "do":
            L.append(f"{pad}do Sub{it[1]}()")
            L.append(f'{pad}rec("Depth", depth())')
    if fail and fail_pos is not None and fail_pos >= len(items):
        L += [pad + l for l in fail_lines(fail)]
    if not L:
        L.append(pad + "pass")
    return L


def to_scenic(prog):
    f = prog["fault"]
    L = [PRELUDE]
    if prog["beh"] is not None:
        L.append("behavior B():")
        if f == "guard":
            L.append("    invariant: self.baz < 1000")
        bf = {"raise-behavior": "raise", "reject-behavior": "reject"}.get(f)
        body = emit_items(prog["beh"], 4, fail=bf, fail_pos=prog["fault_pos"] if bf else None, self_obj=True)
        if f == "guard":
            body += ["    self.baz = 5000", '    rec("W", 0, 2, 5000)', "    wait"]
        L += body
        L += ["    while True:", "        wait"]
    if f == "monitor":
        L += ["monitor M():", f"    for i in range({prog['fault_step']}):", "        wait", '    rec("Fail")', '    raise RuntimeError("injected in monitor")']
    for k, s in enumerate(prog["subs"]):
        L.append(f"scenario Sub{k}():")
        L.append("    setup:")
        L.append('        rec("Push")')
        if s.get("term_after"):
            L.append(f"        terminate after {s['term_after']} steps")
        L += emit_items(s["setup"], 8, fail="raise" if f == "raise-sub-setup" and k == 0 else None, fail_pos=prog["fault_pos"])
        L.append("    compose:")
        sf = {"raise-sub-compose": "raise", "reject-sub": "reject", "terminate-sub": "terminate"}.get(f) if k == 0 else None
        L += emit_items(s["compose"], 8, fail=sf, fail_pos=prog["fault_pos"] if sf else None)
    L.append("scenario Main():")
    L.append("    setup:")
    L.append("        ego = new Object at (0, 0), with foo 1, with bar 2, with baz 3, with allowCollisions True" + (", with behavior B" if prog["beh"] is not None else ""))
    L.append("        other = new Object at (30, 0), with foo 11, with bar 12, with baz 13, with allowCollisions True")
    if f == "monitor":
        L.append("        require monitor M()")
    if f == "record":
        L.append(f"        record boom({prog['fault_step']}) as r")
    L.append("    compose:")
    mf = {"raise-main": "raise", "reject-main": "reject", "terminate-main": "terminate"}.get(f)
    L += emit_items(prog["main"], 8, fail=mf, fail_pos=prog["fault_pos"] if mf else None)
    L += ["        while True:", "            wait"]
    return "\n".join(L) + "\n"


PROBE = PRELUDE + '''
behavior P():
    while True:
        take Range(0, 1)
        self.foo = DiscreteRange(0, 5)
        rec("W", 0, 0, self.foo)
scenario SubP():
    setup:
        override objs()[1] with bar 40
    compose:
        wait
scenario Main():
    setup:
        ego = new Object at (Range(-1, 1), 0), with foo 1, with bar 2, with baz 3, with behavior P, with allowCollisions True
        other = new Object at (30, Range(1, 2)), with foo 11, with bar 12, with baz 13, with allowCollisions True
        require ego.position.x > -0.9
    compose:
        do SubP()
        wait
        wait
'''


def zlit(x):
    x = int(x)
    return f"({x})" if x < 0 else str(x)


def coq_case(name, before, ops, expected, idxs):
    tbl = "[" + "; ".join("[" + "; ".join(zlit(v) for v in row) + "]" for row in before) + "]"
    opl = []
    for o in ops:
        if o[0] in ("W", "O"):
            opl.append(f"{'Write' if o[0] == 'W' else 'Override'} {o[1]}%nat {o[2]}%nat {zlit(o[3])}")
        else:
            opl.append(o[0])
    exp = "[" + "; ".join("[" + "; ".join("[" + "; ".join(zlit(v) for v in row) + "]" for row in obs) + "]" for obs in expected) + "]"
    return (f"Definition ops_{name} : list op := [{'; '.join(opl)}].\n"
            f"Definition exp_{name} : list (list (list Z)) := {exp}.\n"
            f"Lemma case_{name} : select [{'; '.join(str(i) + '%nat' for i in idxs)}] (trace fixed ops_{name} (init (fun o p => nth p (nth o {tbl} []) 0)) 2 4) = exp_{name}.\n"
            f"Proof. vm_compute. reflexivity. Qed.\n")


def main():
    c = Check(PID, "proof")
    c.cov["rule"] = ("generated dynamic programs (nested sub-scenarios with overrides in setup and compose blocks, attribute "
                     "assignments by compose blocks and a behavior, simulator write-back) with a fault (exception, rejection, guard "
                     "violation, terminate, simulator failure) injected at a random point of a random kind; the logged history is "
                     "replayed through the Coq model; non-trivial = the history contains an override or a write and is distinct by hash of (history, exit)")
    common.ensure_parser()
    if not c.proofs():
        c.finish()
    quick = c.tier == "quick"
    nprog = 96 if quick else 4000
    rng = c.rng
    progs = []
    cdir = os.path.join(common.VERIF, "corpus", PID)
    if os.path.isdir(cdir):
        for f in sorted(os.listdir(cdir)):
            if f.endswith(".json"):
                progs.append(json.load(open(os.path.join(cdir, f))))
    for i in range(nprog):
        p = gen_program(rng, i)
        progs.append(p)
    jobs = []
    for i, p in enumerate(progs):
        f = p["fault"]
        job = dict(name=f"p{i}", src=to_scenic(p), seed=rng.randint(0, 10 ** 6), steps=rng.randint(4, 9), raise_guard=p["raise_guard"], prog=p)
        if f.startswith("sim-"):
            job["sim_fault"] = [{"sim-step": "step", "sim-readback": "readback", "sim-actions": "actions", "sim-create": "create"}[f], p["fault_step"]]
        jobs.append(job)
    if c.replay:
        body = json.load(open(c.replay))
        if "job" in body.get("case", {}):
            jobs = [body["case"]["job"]]
    # every worker process runs: probe alone first?  No: the fresh-process reference is computed in its own process.
    probe = dict(name="probe", probe=True, src=PROBE, seed=4242, steps=6)
    ref = common.run_impl("impl_c14.py", dict(programs=[probe]))["results"][0]
    nw = min(common.NCPU, 12)
    chunks = [jobs[i::nw] for i in range(nw)]
    chunks = [ch for ch in chunks if ch]
    results = []

    def work(ch):
        # interleave the probe after every few programs: later use of the same process
        seq = []
        for k, j in enumerate(ch):
            seq.append({k2: v for k2, v in j.items() if k2 != "prog"})
            if k % 4 == 3 or k == len(ch) - 1:
                seq.append(dict(probe, name=f"probe-after-{j['name']}"))
        return common.run_impl("impl_c14.py", dict(programs=seq), timeout=7000)["results"]

    with cf.ThreadPoolExecutor(len(chunks)) as ex:
        for r in ex.map(work, chunks):
            results += r
    by = {j["name"]: j for j in jobs}
    coq_cases = []
    case_jobs = {}
    last_job = None
    for r in results:
        if "crash" in r:
            c.violation("harness", "implementation driver crashed", dict(crash=r["crash"]), no_input=True)
            continue
        if r["name"].startswith("probe"):
            c.count(n=1)
            c.hist("probe-after-run")
            if r["probe"] != ref["probe"]:
                c.violation("later-use", "compile/generate/simulate after earlier runs differs from a fresh process",
                            dict(after=r["name"], got=r["probe"], fresh=ref["probe"], job=last_job))
            if r["veneer_after"] != ref["veneer_after"]:
                c.violation("veneer", "veneer state differs from a fresh process after a probe", dict(got=r["veneer_after"], fresh=ref["veneer_after"]))
            continue
        job = by[r["name"]]
        last_job = job
        if "skip" in r:
            c.hist("skip")
            c.violation("harness", "generated program does not compile", dict(job=job, why=r["skip"]), no_input=True)
            continue
        log = r["log"]
        ops = [l[:-1] for l in log]
        key = (json.dumps(ops), r["outcome"], job["prog"]["fault"])
        nontriv = any(o[0] in ("W", "O") for o in ops)
        c.count(key, nontrivial=nontriv)
        c.cov["traces_validated_against_impl"] += 1
        c.hist("fault:" + job["prog"]["fault"])
        if job["prog"].get("directed"):
            c.hist("directed:nested-same-property-outer-stopped")
        c.hist("outcome:" + r["outcome"].split(":")[0] + (":" + r["outcome"].split(":")[1] if ":" in r["outcome"] else ""))
        c.hist("history-len<=10" if len(ops) <= 10 else "history-len>10")
        c.hist("overrides", sum(1 for o in ops if o[0] == "O"))
        c.hist("scenario-starts", sum(1 for o in ops if o[0] == "Push"))
        c.hist("scenario-stopped-from-outside", sum(1 for j in job["prog"]["subs"] if j.get("term_after")))
        # ---- oracles on the implementation
        if r["after"] != r["before"] or not r["allprops_equal"]:
            c.violation("scene-changed", "a property of a scene object reads differently after the simulation",
                        dict(job=job, before=r["before"], after=r["after"], outcome=r["outcome"], diff=r.get("allprops_diff")))
        va = r["veneer_after"]
        if va != ref["veneer_after"]:
            c.violation("veneer", "veneer global state not reset after the simulation", dict(job=job, got=va, fresh=ref["veneer_after"], outcome=r["outcome"]))
        if "rerun_equal" in r and (not r["rerun_equal"] or not r["rerun_log_equal"] or r["rerun_outcome"] != r["outcome"] or r["after2"] != r["before"]):
            c.violation("rerun", "re-running the same scene with the same seed gives a different result",
                        dict(job=job, outcome=r["outcome"], rerun=r["rerun_outcome"], equal=r["rerun_equal"], log_equal=r["rerun_log_equal"]))
        # overrides undone: at every Pop the properties overridden by that scenario read their pre-override value -> checked by the model trace
        # ---- model replay: Begin, history, Finish
        def ints(s):
            return [[int(v) for v in row] for row in s]
        mops = [["Begin"]]
        exp = [ints(r["before"])]
        idxs = [0]
        ok = True
        depth = 1  # the top-level scenario
        for l in log:
            kind = l[0]
            if kind in ("W", "O"):
                if float(l[3]) != int(l[3]):
                    ok = False
                mops.append([kind, l[1], l[2], int(l[3])])
            elif kind == "Push":
                mops.append(["Push"])
                depth += 1
            elif kind == "Depth":
                # the implementation reports how many scenarios are running after `do` returned:
                # the ones that stopped were stopped innermost first
                if l[1] >= depth:
                    continue
                while depth > l[1]:
                    mops.append(["Pop"])
                    depth -= 1
            elif kind == "Fail":
                continue
            idxs.append(len(mops) - 1)
            exp.append(ints(l[-1]))
        mops.append(["Finish"])
        idxs += [len(mops) - 1, len(mops)]
        exp.append(ints(r["after"]))
        exp.append(ints(r["after"]))
        if ok:
            nm = r["name"]
            coq_cases.append((nm, coq_case(nm, ints(r["before"]), mops, exp, idxs)))
            case_jobs[nm] = (job, mops, exp, r["outcome"])
        c.sample(dict(program=job["src"][len(PRELUDE):], history=ops, outcome=r["outcome"]), limit=3)
    # ---- kernel evaluates the model on every logged history
    header = "From Coq Require Import ZArith List.\nFrom Scenic Require Import C14.SimState.\nImport ListNotations.\nOpen Scope Z_scope.\nDefinition select (idx:list nat) (l:list (list (list Z))) := map (fun i => nth i l []) idx.\n"
    shards = [coq_cases[i:i + 200] for i in range(0, len(coq_cases), 200)]

    def run_shard(k_sh):
        k, sh = k_sh
        return k, sh, common.run_coq_cases(f"C14_cases_{k}", header + "\n".join(t for _, t in sh))

    with cf.ThreadPoolExecutor(min(8, max(1, len(shards)))) as ex:
        for k, sh, (ok, out) in ex.map(run_shard, enumerate(shards)):
            c.cov["disagreements_checked"] += len(sh)
            if not ok:
                # find the failing case(s) one by one
                for nm, t in sh:
                    ok1, out1 = common.run_coq_cases(f"C14_case_{nm}", header + t)
                    if not ok1:
                        job, mops, exp, outcome = case_jobs[nm]
                        ok2, out2 = common.run_coq_cases(f"C14_eval_{nm}", header + t.split("Lemma")[0] +
                                                         f"Eval vm_compute in trace fixed ops_{nm} (init (fun o p => nth p (nth o {json.dumps(exp[0]).replace(',', ';')} []) 0)) 2 4.\n")
                        c.violation("correspondence", "model and implementation disagree on what objects read along a logged history",
                                    dict(job=job, history=mops, impl_snapshots=exp, outcome=outcome, model=out2[-1500:]))
                        break
    c.cov["programs"] = len(case_jobs)
    c.assumptions += [
        "model = hand-written Gallina (coq/C14/SimState.v); the history fed to it is the one the real run logged",
        "parallel sibling sub-scenarios (do A(), B()) and overrides issued from behaviors are outside the model",
        "CPython semantics of try/finally and generators",
    ]
    c.finish()


if __name__ == "__main__":
    main()
