"""C11 implementation driver: runs inside /venv/bin/python with Scenic from $VERIF_REPO.
JSON in: {jobs: [{id, src, runs: [{table, offset, waits, after, end, doform, dofor, until, sublimit, subn, termstmt, timestep}]}]}.
JSON out (last line): {results: [{id, compile: "ok"|"<ExcClass>: msg", outcomes: [str]}]}
outcome: "A" accepted (simulate returned a Simulation), "G" scene rejected while sampling,
"R<t>" simulation rejected at step t, "X:<ExcClass>:<msg>" anything else."""
import json
import random
import sys

import numpy


def main():
    payload = json.load(sys.stdin)
    import scenic
    from scenic.core.distributions import RejectionException
    from scenic.core.simulators import DummySimulator
    import verif_c11_helpers as H

    class Sim(DummySimulator):
        """DummySimulator that remembers at which step a simulation was thrown out"""
        rejected_at = None
        rejected_exc = None

        def createSimulation(self, scene, **kw):
            self.rejected_at = None
            self.rejected_exc = None
            try:
                return super().createSimulation(scene, **kw)
            except BaseException as e:
                sim = getattr(e, "simulation", None)
                self.rejected_at = getattr(sim, "currentTime", None)
                self.rejected_exc = type(e).__name__
                raise

    out = []
    for job in payload["jobs"]:
        res = dict(id=job["id"], outcomes=[])
        try:
            random.seed(0)
            numpy.random.seed(0)
            scenario = scenic.scenarioFromString(job["src"], mode2D=True)
            res["compile"] = "ok"
        except BaseException as e:
            res["compile"] = f"{type(e).__name__}: {str(e)[:120]}"
            out.append(res)
            continue
        simulator = Sim()
        for run in job["runs"]:
            H.STATE.update(table=run["table"], offset=run["offset"], waits=run["waits"],
                           after=run["after"], term=(run["end"] == "term"),
                           doform=run.get("doform", 0), dofor=run.get("dofor", 0), until=run.get("until"),
                           sublimit=run.get("sublimit", 0), subn=run.get("subn", 0),
                           termstmt=bool(run.get("termstmt", False)))
            del H.CALLS[:]
            try:
                try:
                    scene, _ = scenario.generate(maxIterations=2, verbosity=0)
                except RejectionException:
                    res["outcomes"].append("G")
                    continue
                maxSteps = len(run["table"]) - 1 if run["end"] == "max" else None
                sim = simulator.simulate(scene, maxSteps=maxSteps, maxIterations=1, verbosity=0,
                                         timestep=run.get("timestep", 1))
                if sim is not None:
                    o = "A"
                    if sim.currentTime != len(run["table"]) - 1:
                        o = f"X:Length:simulation ended at step {sim.currentTime}, scripted {len(run['table']) - 1}"
                elif simulator.rejected_exc == "RejectSimulationException":
                    o = f"R{simulator.rejected_at}"
                else:
                    o = f"X:{simulator.rejected_exc}:rejected at {simulator.rejected_at}"
            except BaseException as e:
                o = f"X:{type(e).__name__}:{str(e)[:100]}"
            res["outcomes"].append(o)
        out.append(res)
    print(json.dumps(dict(results=out)))


if __name__ == "__main__":
    main()
