"""C04 — object overlap and containment tests agree with exact solid geometry.
Proof layer: coq/Properties/C04.v.  Correspondence (certificate-based oracle): random pairs of
objects / object-container pairs; ground truth comes with a certificate (separating plane, common
point, vertices inside/outside half-spaces) computed by LP in Python and VALIDATED by the extracted
Coq checker on exact rationals; Object.intersects, MeshVolumeRegion.intersects, Region.containsObject
and minimumDistanceTo must agree with it; the cascade model (extracted) must predict the
implementation's answer from the per-pass oracle answers, and every shortcut that fires must agree
with the certified truth and with the exhaustive boolean pass."""
import concurrent.futures as cf
import json
import math
import os
import sys
import time
from fractions import Fraction

sys.path.insert(0, os.path.dirname(os.path.abspath(__file__)))
import common
from common import Check

PID = "C04"
WORKERS = min(8, common.NCPU)
IBITS = ["centre_far", "both_scaled", "in_near", "circ_far", "bbox_overlap", "surf_collide", "a_convex", "b_convex",
         "single_bodies", "a_has_b_point", "b_has_a_point", "bool_nonempty"]
CBITS = ["c_bbox_overlap", "c_convex", "c_bb_corners_in", "c_vertices_in", "c_have_obj_point", "c_obj_point_in",
         "c_ball_fits", "c_have_reg_point", "c_too_far", "c_diff_empty"]


def hx(x):
    return float(x).hex()


def V(pts):
    return " ".join([str(len(pts))] + [hx(x) for p in pts for x in p])


def W(ws):
    return " ".join([str(len(ws))] + [hx(x) for x in ws])


def Hs(H):
    return " ".join([str(len(H["d"]))] + [" ".join([hx(x) for x in n] + [hx(d)]) for n, d in zip(H["n"], H["d"])])


# ------------------------------------------------------------------ generators
def gen_parent(rng, tilted=True):
    """a parentOrientation (yaw, pitch, roll); `tilted`: pitch and/or roll non-zero, from barely (0.02 rad) to steep"""
    if not tilted:
        return [rng.choice([0.0, rng.uniform(-math.pi, math.pi)]), 0.0, 0.0]
    mag = lambda: rng.choice([-1, 1]) * rng.choice([rng.uniform(0.02, 0.15), rng.uniform(0.15, 0.9), rng.uniform(0.9, 1.5)])
    k = rng.random()
    return [rng.choice([0.0, rng.uniform(-math.pi, math.pi)]), mag() if k < 0.7 else 0.0, mag() if k > 0.4 else 0.0]


def gen_pose(rng, kind):
    if kind == "axis":
        return dict(yaw=0.0, pitch=0.0, roll=0.0)
    if kind == "planar":
        return dict(yaw=rng.uniform(-math.pi, math.pi), pitch=0.0, roll=0.0)
    if kind == "parent":       # tilted ONLY through the parent orientation: own pitch = roll = 0 (parentOrientation x fast paths)
        return dict(yaw=rng.choice([0.0, rng.uniform(-math.pi, math.pi)]), pitch=0.0, roll=0.0, parent=gen_parent(rng))
    if kind == "parent-yaw":   # a parent orientation that does not tilt: still a planar box
        return dict(yaw=rng.uniform(-math.pi, math.pi), pitch=0.0, roll=0.0, parent=gen_parent(rng, tilted=False))
    return dict(yaw=rng.uniform(-math.pi, math.pi), pitch=rng.uniform(-1.5, 1.5), roll=rng.uniform(-math.pi, math.pi))


def gen_assembly(rng, scale=1.0):
    """one-body NON-CONVEX shapes assembled from overlapping axis-aligned boxes (manifold union): L, U, C (unequal
    arms), T, box with a slot.  `pieces` are the convex pieces (exact ground truth is computed piecewise), `cavity`
    (U/C/slot) is the empty box between the arms (inside the bounding box and the hull, outside the solid)."""
    kind = rng.choice(["L", "U", "U", "C", "slot", "T"])
    t, h = rng.uniform(0.6, 1.2), rng.uniform(0.6, 2.0)
    a, b = rng.uniform(2.5, 4.5), rng.uniform(2.0, 4.0)
    cav = None
    if kind == "L":
        pieces = [([a, t, h], [a / 2, t / 2, 0.0]), ([t, b, h], [t / 2, b / 2, 0.0])]
    elif kind == "T":
        pieces = [([a, t, h], [0.0, 0.0, 0.0]), ([t, b, h], [rng.uniform(-a / 4, a / 4), -b / 2 + t / 4, 0.0])]
    else:
        tb = t if kind != "slot" else rng.uniform(1.5, 3.0)        # slot: thick base, i.e. a block with a slot cut in
        b1 = b + tb
        b2 = b1 if kind != "C" else tb + rng.uniform(0.8, 3.5)
        h1, h2 = (h * rng.uniform(0.6, 1.4), h * rng.uniform(0.6, 1.4)) if rng.random() < 0.5 else (h, h)
        t1, t2 = t, (t if kind != "slot" else rng.uniform(0.6, 1.5))
        if a - t1 - t2 < 0.5:
            a = t1 + t2 + rng.uniform(0.5, 1.5)
        pieces = [([a, tb, h], [a / 2, tb / 2, 0.0]), ([t1, b1, h1], [t1 / 2, b1 / 2, 0.0]), ([t2, b2, h2], [a - t2 / 2, b2 / 2, 0.0])]
        cl = min(b1, b2) - tb
        cav = ([a - t1 - t2, cl, min(h, h1, h2)], [(t1 + a - t2) / 2, tb + cl / 2, 0.0])
    o = dict(shape="lshape", form=kind, pieces=[dict(ext=[x * scale for x in e], off=[x * scale for x in f]) for e, f in pieces])
    if cav:
        o["cavity"] = dict(ext=[x * scale for x in cav[0]], off=[x * scale for x in cav[1]])
    lo = [min(p["off"][k] - p["ext"][k] / 2 for p in o["pieces"]) for k in range(3)]
    hi = [max(p["off"][k] + p["ext"][k] / 2 for p in o["pieces"]) for k in range(3)]
    o["size"] = math.sqrt(sum((hi[k] - lo[k]) ** 2 for k in range(3))) / 2     # circumradius about the bounding-box centre
    return o


def gen_shape(rng, allow_nonconvex=True, lo=0.5, hi=4.0):
    k = rng.choice(["box", "box", "cylinder", "cone", "spheroid"] + (["multi", "lshape", "assembly"] if allow_nonconvex else []))
    o = dict(shape=k)
    if k == "assembly":
        o = gen_assembly(rng)
        o["size"] = o["size"] * 0.7      # pairs "around contact" are placed relative to this: keep the arms in reach
    elif k == "multi":
        e1 = [rng.uniform(0.5, 2) for _ in range(3)]
        e2 = [rng.uniform(0.5, 2) for _ in range(3)]
        gapx = rng.uniform(0.3, 2.0)
        o["pieces"] = [dict(ext=e1, off=[0.0, 0.0, 0.0]), dict(ext=e2, off=[e1[0] / 2 + e2[0] / 2 + gapx, rng.uniform(-1, 1), rng.uniform(-1, 1)])]
        o["size"] = (e1[0] + e2[0] + gapx) / 2 + 1.5
    elif k == "lshape":
        a, b, t, h = rng.uniform(2, 4), rng.uniform(2, 4), rng.uniform(0.6, 1.2), rng.uniform(0.6, 2)
        o["pieces"] = [dict(ext=[a, t, h], off=[a / 2, t / 2, 0.0]), dict(ext=[t, b, h], off=[t / 2, b / 2, 0.0])]
        o["size"] = max(a, b) / 2 + 0.5
    else:
        o["dims"] = [rng.uniform(lo, hi) for _ in range(3)]
        o["size"] = max(o["dims"]) / 2
    o.update(gen_pose(rng, rng.choice(["axis", "planar", "planar", "general", "general", "general", "parent", "parent", "parent-yaw"])))
    if "parent" in o and o["shape"] != "box" and rng.random() < 0.5:
        o["pitch"], o["roll"] = rng.uniform(-1.0, 1.0), rng.uniform(-1.0, 1.0)      # parent and own tilt composed
    return o


def gen_pair(rng, idx):
    a, b = gen_shape(rng), gen_shape(rng)
    planar_pair = rng.random() < 0.15       # both planar boxes: Object.intersects / minimumDistanceTo fast paths
    if planar_pair:
        for o in (a, b):
            o.pop("pieces", None)
            o.update(shape="box", dims=[rng.uniform(0.5, 4.0) for _ in range(3)])
            o["size"] = max(o["dims"]) / 2
    base = [rng.uniform(-100, 100) for _ in range(3)] if rng.random() < 0.7 else [0.0, 0.0, 0.0]
    a["pos"] = base
    m = rng.random()
    if m < 0.15:       # one well inside the other / deep overlap
        s = rng.uniform(0.0, 0.3)
    elif m < 0.75:     # around contact
        s = rng.uniform(0.5, 1.5)
    else:              # clearly apart
        s = rng.uniform(1.5, 3.0)
    th, ph = rng.uniform(-math.pi, math.pi), rng.choice([0.0, 0.0, rng.uniform(-1.2, 1.2)])
    dirv = [math.cos(th) * math.cos(ph), math.sin(th) * math.cos(ph), math.sin(ph)]
    r = (a["size"] + b["size"]) * s
    b["pos"] = [base[i] + r * dirv[i] for i in range(3)]
    if a["shape"] == "box" and b["shape"] == "box" and (planar_pair or rng.random() < 0.5):   # planar boxes: fast path incl. equal z
        for o in (a, b):
            o.update(pitch=0.0, roll=0.0)
            # own pitch/roll are zero: 65% really planar (no parent / yaw-only parent), 35% tilted through the parent orientation only
            o.pop("parent", None)
            k = rng.random()
            if k < 0.35:
                o["parent"] = gen_parent(rng)
            elif k < 0.5:
                o["parent"] = gen_parent(rng, tilted=False)
        k = rng.random()
        if k < 0.4:
            b["pos"][2] = a["pos"][2]
        elif k < 0.8:   # stacked: footprints overlap; vertical offset as a fraction f of the touching offset (hA+hB)/2, every regime:
            # deep (f < 1/2: more than half of the summed heights overlap), partial (1/2 < f < 1), around touching, clear above
            lo, hi = STACK_REGIMES[idx % len(STACK_REGIMES)]
            b["pos"] = [a["pos"][0] + rng.uniform(-0.3, 0.3), a["pos"][1] + rng.uniform(-0.3, 0.3),
                        a["pos"][2] + rng.choice([-1, 1]) * rng.uniform(lo, hi) * (a["dims"][2] + b["dims"][2]) / 2]
    return dict(id=f"pr{idx}", a=a, b=b, s=s)


STACK_REGIMES = [(0.02, 0.24), (0.26, 0.48), (0.52, 0.74), (0.76, 0.97), (0.9, 1.1), (1.03, 1.5), (1.5, 2.2), (0.52, 0.97)]


def gen_stack(rng, idx):
    """two UPRIGHT boxes (pitch = roll = 0; yaw free, 25% with a yaw-only parent orientation) with overlapping footprints at every
    vertical-offset regime of STACK_REGIMES: the planar-box fast path of Object.intersects decides these by the z-interval test alone"""
    a, b = [dict(shape="box", dims=[rng.uniform(0.5, 4.0), rng.uniform(0.5, 4.0), rng.choice([rng.uniform(0.2, 1.0), rng.uniform(1.0, 6.0)])],
                 **gen_pose(rng, rng.choice(["axis", "planar", "planar", "parent-yaw"]))) for _ in range(2)]
    for o in (a, b):
        o["size"] = max(o["dims"]) / 2
    a["pos"] = [rng.uniform(-100, 100) for _ in range(3)] if rng.random() < 0.6 else [0.0, 0.0, rng.choice([0.0, -3.0, 0.5])]
    lo, hi = STACK_REGIMES[idx % len(STACK_REGIMES)]
    f = rng.uniform(lo, hi)
    b["pos"] = [a["pos"][0] + rng.uniform(-0.2, 0.2), a["pos"][1] + rng.uniform(-0.2, 0.2),
                a["pos"][2] + rng.choice([-1, 1]) * f * (a["dims"][2] + b["dims"][2]) / 2]
    return dict(id=f"pr{idx}", a=a, b=b, s=f, stack=f"{lo}-{hi}")


def small_guest(rng, room, nonconvex=False):
    """a shape whose circumradius about its centre is < room (so it fits strictly inside a box of half-extent >= room
    + margin in every pose)"""
    if nonconvex:
        g = gen_assembly(rng, 1.0)
        sc = rng.uniform(0.5, 0.95) * room / g["size"]
        g = gen_assembly_scaled(g, sc)
    else:
        k = rng.choice(["box", "box", "cylinder", "cone", "spheroid"])
        dmax = rng.uniform(0.3, 0.95) * room * 2 / math.sqrt(3)
        dims = [dmax * rng.uniform(0.4, 1.0) for _ in range(3)]
        g = dict(shape=k, dims=dims, size=math.sqrt(sum(d * d for d in dims)) / 2)
    g.update(gen_pose(rng, rng.choice(["axis", "planar", "general", "general", "general", "parent"])))
    return g


def gen_assembly_scaled(g, sc):
    o = dict(g, pieces=[dict(ext=[x * sc for x in p["ext"]], off=[x * sc for x in p["off"]]) for p in g["pieces"]], size=g["size"] * sc)
    if "cavity" in g:
        o["cavity"] = dict(ext=[x * sc for x in g["cavity"]["ext"]], off=[x * sc for x in g["cavity"]["off"]])
    return o


def gen_nested(rng, idx):
    """NESTED configurations: a guest strictly inside the solid of a host (or strictly inside its cavity) WITHOUT
    surface contact: the spheres / boxes / FCL surface passes cannot decide these, only the interior-point and
    boolean passes (or FCL's solid treatment of convex geometry) can.  The guest's position is given in the host's
    local frame (`rel_local`, resolved by the implementation side, which reports the world position)."""
    mode = rng.choice(["convex-in-arm"] * 5 + ["nonconvex-in-arm"] * 2 + ["nonconvex-in-convex"] * 2 + ["in-cavity"] * 2)
    margin = 0.03
    if mode == "nonconvex-in-convex":
        k = rng.choice(["box", "spheroid", "cylinder"])
        guest = gen_assembly(rng, rng.uniform(0.4, 1.0))
        guest.update(gen_pose(rng, rng.choice(["axis", "planar", "general", "general"])))
        r = guest["size"]
        dims = [2 * (r + margin) * rng.uniform(1.5, 2.5) for _ in range(3)]    # inscribed ball of every kind >= min(dims)/2 / ... see below
        host = dict(shape=k, dims=dims, size=max(dims) / 2)
        # a ball of radius r fits at offset d from the centre when |d| + r <= min half-extent (box, cylinder) or the
        # spheroid's smallest semi-axis: stay within that
        room = min(dims) / 2 - r - margin
        d = [rng.uniform(-1, 1) for _ in range(3)]
        n = math.sqrt(sum(x * x for x in d)) or 1.0
        f = rng.uniform(0, 0.9) * room
        guest["rel_local"] = [f * x / n for x in d]
        host.update(gen_pose(rng, rng.choice(["axis", "planar", "general", "general"])))
    else:
        host = gen_assembly(rng, rng.choice([1.0, 1.0, rng.uniform(1.0, 3.0)]))
        while mode == "in-cavity" and "cavity" not in host:
            host = gen_assembly(rng, 1.0)
        host.update(gen_pose(rng, rng.choice(["axis", "planar", "general", "general", "general"])))
        cell = host["cavity"] if mode == "in-cavity" else rng.choice(host["pieces"])
        room = min(cell["ext"]) / 2 - margin
        guest = small_guest(rng, room * rng.uniform(0.3, 0.9), nonconvex=(mode == "nonconvex-in-arm"))
        free = [cell["ext"][k] / 2 - guest["size"] - margin for k in range(3)]
        guest["rel_local"] = [cell["off"][k] + rng.uniform(-1, 1) * free[k] for k in range(3)]
        if mode != "in-cavity":
            guest["host_piece"] = host["pieces"].index(cell)
    host["pos"] = [rng.uniform(-100, 100) for _ in range(3)] if rng.random() < 0.5 else [0.0, 0.0, 0.0]
    a, b = (host, guest) if rng.random() < 0.5 else (guest, host)
    return dict(id=f"pr{idx}", a=a, b=b, nested=mode)


def gen_contain(rng, idx):
    kind = rng.choice(["box", "box", "spheroid", "notched", "notched", "footprint", "footprint"])
    obj = gen_shape(rng, allow_nonconvex=(kind != "spheroid"), lo=0.4, hi=2.0)
    if kind == "spheroid" and obj["shape"] != "box":
        # 1280 container faces x every object vertex are checked exactly: keep the object's vertex list short
        obj["shape"] = "box"
    base = [rng.uniform(-50, 50) for _ in range(3)]
    cn = dict(kind=kind, pos=base)
    if kind == "footprint":
        w, l = rng.uniform(8, 16), rng.uniform(8, 16)
        x0, y0 = base[0] - w / 2, base[1] - l / 2
        hw, hl = rng.uniform(1, 3), rng.uniform(1, 3)
        hxc, hyc = base[0] + rng.uniform(-2, 2), base[1] + rng.uniform(-2, 2)
        cn.update(outer=[x0, y0, x0 + w, y0 + l], hole=[hxc - hw / 2, hyc - hl / 2, hxc + hw / 2, hyc + hl / 2])
        half = [w / 2, l / 2, 5.0]
    else:
        dims = [rng.uniform(6, 14) for _ in range(3)]
        cn.update(dims=dims, **gen_pose(rng, rng.choice(["axis", "planar", "general"])))
        half = [d / 2 for d in dims]
        if kind == "notched":   # a slot cut in from the +x face (in the container's own frame only when axis aligned)
            cn.update(yaw=0.0, pitch=0.0, roll=0.0)
            nd = [dims[0] * 0.6, rng.uniform(1.5, 3), dims[2] * 1.2]
            cn.update(notch_dims=nd, notch_pos=[base[0] + dims[0] / 2, base[1] + rng.uniform(-1, 1), base[2]])
    m = rng.random()
    f = rng.uniform(0, 0.6) if m < 0.45 else (rng.uniform(0.6, 1.2) if m < 0.85 else rng.uniform(1.2, 1.8))
    d3 = [rng.uniform(-1, 1) for _ in range(3)]
    obj["pos"] = [base[i] + f * half[i] * d3[i] for i in range(3)]
    if kind in ("footprint", "box") and rng.random() < 0.4:
        # a TALL box tilted only through its parent orientation (own pitch = roll = 0), its projected outline crossing or just
        # inside an edge of the container: the untilted width x length rectangle would give another answer
        d = [rng.uniform(0.4, 1.2), rng.uniform(0.4, 1.2), rng.uniform(2.0, 5.0)]
        obj = dict(shape="box", dims=d, size=max(d) / 2, **gen_pose(rng, "parent"))
        ax = rng.randrange(2)
        t = [rng.uniform(-0.7, 0.7), rng.uniform(-0.7, 0.7), rng.uniform(-0.2, 0.2)]
        reach = rng.uniform(0.0, 1.1) * d[2] / 2          # how far the tilted outline may stick out beyond the flat rectangle
        t[ax] = rng.choice([-1, 1]) * (1 - (rng.uniform(0.1, 0.7) + reach) / half[ax])
        obj["pos"] = [base[i] + t[i] * half[i] for i in range(3)]
    return dict(id=f"cn{idx}", obj=obj, container=cn)


def gen_foot_history(rng, idx):
    """HISTORY on one PolygonalFootprintRegion instance (rectangle with a hole): a sequence of overlap queries with objects at very
    different heights (the region caches a bounded slab between calls), each answer compared with a FRESH region's and with
    certified truth (convex strips of the footprint as tall as needed)."""
    w, l = rng.uniform(8, 16), rng.uniform(8, 16)
    base = [rng.uniform(-50, 50), rng.uniform(-50, 50)]
    x0, y0 = base[0] - w / 2, base[1] - l / 2
    hw, hl = rng.uniform(2, 3.5), rng.uniform(2, 3.5)
    hxc, hyc = base[0] + rng.uniform(-1.5, 1.5), base[1] + rng.uniform(-1.5, 1.5)
    fp = dict(outer=[x0, y0, x0 + w, y0 + l], hole=[hxc - hw / 2, hyc - hl / 2, hxc + hw / 2, hyc + hl / 2])
    steps = []
    z0 = rng.choice([0.0, 0.0, rng.uniform(-30, 30), rng.uniform(50, 120)])
    h0 = None
    zprev = z0
    for k in range(rng.randint(4, 8)):
        o = gen_shape(rng, allow_nonconvex=False, lo=0.4, hi=2.5)
        if o["shape"] == "spheroid":      # hundreds of vertices in every exact certificate: keep the histories cheap
            o["shape"] = "box"
        hgt = 2 * o["size"] + 1
        h0 = h0 or hgt
        m = rng.random()
        if k == 0:
            z = z0
        elif m < 0.15:
            z = zprev                                      # same height again
        elif m < 0.3:
            z = z0 + rng.uniform(-0.6, 0.6)                # barely off the first one
        elif m < 0.75:                                     # far from the first query, within ~50x its (height + 1)
            z = z0 + rng.choice([-1, 1]) * rng.uniform(1.0, 45.0) * h0
        elif m < 0.9:
            z = rng.choice([-1, 1]) * rng.uniform(0, 40)   # about the origin / negative centre heights
        else:
            z = z0 + rng.choice([-1, 1]) * rng.uniform(60, 400) * h0 * max(1.0, abs(z0))   # beyond any padding
        # the padded slab is 100 * max(1, z) * (height + 1) tall: beyond a few 1e5 the single-precision mesh kernels give wrong
        # answers even on a fresh region (finding C04-F2, design.d/C04.md) -- stay below 1e5
        z = max(-300.0, min(300.0, z))
        if abs(z) > 100 and "dims" in o:
            o["dims"] = [min(d, 1.0) for d in o["dims"]]
            o["size"] = max(o["dims"]) / 2
        zprev = z
        where = rng.choice(["ring", "ring", "ring", "hole", "edge", "edge", "out"])
        if where == "ring":       # over the solid part of the footprint
            side = rng.randrange(4)
            x = rng.uniform(x0, x0 + w) if side < 2 else (rng.uniform(x0, fp["hole"][0]) if side == 2 else rng.uniform(fp["hole"][2], x0 + w))
            y = (rng.uniform(y0, fp["hole"][1]) if side == 0 else rng.uniform(fp["hole"][3], y0 + l)) if side < 2 else rng.uniform(y0, y0 + l)
        elif where == "hole":     # small object over the middle of the hole (disjoint if it fits)
            x, y = hxc + rng.uniform(-0.3, 0.3), hyc + rng.uniform(-0.3, 0.3)
            o = dict(o, dims=[min(d, 0.9) for d in o["dims"]], size=min(o["size"], 0.45))
        elif where == "edge":     # around the outer boundary
            x, y = x0 + w + rng.uniform(-1.5, 1.5) * o["size"], rng.uniform(y0, y0 + l)
        else:
            x, y = x0 - rng.uniform(2, 20) - 2 * o["size"], rng.uniform(y0 - 10, y0 + l + 10)
        o["pos"] = [x, y, z]
        if rng.random() < 0.25:
            # a FLAT PolygonalRegion (same polygon) at a height around the object's vertical extent: upright boxes take a fast path
            # (|z - zp| <= height / 2), everything else the mesh/polygon test
            if rng.random() < 0.7:
                d = [rng.uniform(0.4, 2.5) for _ in range(3)]
                o = dict(shape="box", dims=d, size=max(d) / 2, pos=o["pos"], **gen_pose(rng, rng.choice(["axis", "planar", "planar", "parent-yaw", "parent", "general"])))
            hz = o["dims"][2] / 2
            zp = z + rng.choice([-1, 1]) * rng.choice([0.0, rng.uniform(0, 0.45), rng.uniform(0.55, 0.95), rng.uniform(1.05, 1.6), rng.uniform(1.6, 4.0)]) * hz
            steps.append(dict(obj=o, query="flat", zp=zp, where=where))
            continue
        steps.append(dict(obj=o, query=rng.choice(["obj", "vol", "rev"]), where=where))
    return dict(id=f"fh{idx}", footprint=fp, steps=steps)


def run_chunks(kind, cases, timeout=6000):
    chunks = [cases[i::WORKERS] for i in range(WORKERS)]
    chunks = [ch for ch in chunks if ch]
    out = {}
    with cf.ThreadPoolExecutor(len(chunks) or 1) as ex:
        for r in ex.map(lambda ch: common.run_impl("impl_c04.py", dict(kind=kind, cases=ch), timeout=timeout), chunks):
            for x in r["results"]:
                out[x["id"]] = x
    return out


class DummyCheck:
    def __init__(self):
        self.cov = dict(samples=[], traces_validated_against_impl=0, phase_s={})

    def count(self, *a, **k):
        pass

    hist = sample = count

    def violation(self, *a, **k):
        return False


class BatchDriver:
    """Runs the extracted driver ONCE for many commands: the evaluation code is executed twice, first with
    collecting=True (every query is recorded and answered with a placeholder), then for real from the batch."""

    def __init__(self, exe):
        self.exe, self.cmds, self.out, self.collecting = exe, [], {}, True

    def __call__(self, cmds):
        if self.collecting:
            self.cmds += cmds
            return ["0 -"] * len(cmds)
        return [self.out[x] for x in cmds]

    def flush(self):
        uniq = list(dict.fromkeys(self.cmds))
        if os.environ.get("VERIF_C04_DUMP"):
            open(os.environ["VERIF_C04_DUMP"], "w").write("\n".join(uniq) + "\n")
        # the commands are independent and the driver is stateless: run WORKERS copies (cost ~ command length)
        order = sorted(range(len(uniq)), key=lambda k: -len(uniq[k]))
        parts = [[uniq[k] for k in order[w::WORKERS]] for w in range(WORKERS)]
        parts = [p for p in parts if p]
        self.out = {}
        if parts:
            with cf.ThreadPoolExecutor(len(parts)) as ex:
                for p, res in zip(parts, ex.map(lambda p: common.run_driver(self.exe, p), parts)):
                    self.out.update(zip(p, res))
        self.collecting = False


def check_planar(c, case, objs, tilts, planars, bpolys):
    """independent checks of the two quantities every planar-box fast path rests on: `_isPlanarBox` must be False for a box whose local z
    axis is tilted against the global one (whatever combination of parentOrientation and own angles produced the tilt), and
    `_boundingPolygon` of a convex object must be the projected hull of its vertices"""
    for k, o in enumerate(objs):
        t = (tilts or [None] * len(objs))[k]
        pl = (planars or [None] * len(objs))[k]
        if t is not None and pl is not None:
            c.hist("planar:" + ("parent-" if "parent" in o else "") + ("tilted" if t > 1e-6 else "upright") + ":" + ("fast" if pl else "general"))
            if pl and t > 1e-6:
                c.violation("planar-classification", "_isPlanarBox holds for a box whose global orientation is tilted",
                            dict(case=case, which=k, tilt=t, obj=o))
            if pl and o["shape"] != "box":
                c.violation("planar-classification", "_isPlanarBox holds for a shape that is not a box", dict(case=case, which=k, obj=o))
        bp = (bpolys or [None] * len(objs))[k]
        if bp is not None:
            c.hist("bounding-polygon:checked")
            if bp[0] > 1e-6 * (1 + bp[1]):
                c.violation("bounding-polygon", "_boundingPolygon differs from the projection of the solid",
                            dict(case=case, which=k, symmetric_difference_area=bp[0], area=bp[1], obj=o, tilt=t))


def cert_cmd(t, A, B):
    if t["kind"] == "sep":
        return "SEP " + " ".join(hx(x) for x in t["n"]) + f" {hx(t['d'])} {hx(t['m'])} {V(A)} {V(B)}"
    # a point in the hull of a SUBSET of the vertices is in the hull: send only the support of the weights
    # (LP vertex solutions have at most 4 non-zero weights), which keeps the exact arithmetic small
    ia = [k for k, w in enumerate(t["la"]) if w > 1e-14]
    ib = [k for k, w in enumerate(t["mu"]) if w > 1e-14]
    return (f"COM {hx(1e-9)} {W([t['la'][k] for k in ia])} {V([A[k] for k in ia])} "
            f"{W([t['mu'][k] for k in ib])} {V([B[k] for k in ib])}")


def main():
    c = Check(PID, "proof")   # partial: see manifest level_note (native kernels only differentially tested)
    c.cov["rule"] = ("seeded generator: pairs over box/cylinder/cone/spheroid and non-convex shapes built from convex boxes (two disjoint bodies, "
                     "L-shaped union), random dimensions, 70% positioned up to 170 units from the origin, poses axis-aligned / planar / general "
                     "yaw-pitch-roll, centre distance 0-3x the sum of half-sizes (60% around contact), planar boxes with equal and different z; "
                     "containers: rotated boxes, spheroids, boxes with a slot cut in (non-convex), footprints of rectangles with a hole; a case is "
                     "non-trivial when its ground truth carries a certificate accepted by the extracted Coq checker (margin > 4e-6); closer "
                     "configurations are skipped and counted")
    common.ensure_parser()
    if not c.proofs():
        c.finish()
    exe = common.build_ocaml(PID)
    quick = c.tier == "quick"
    rng = c.rng
    n_pr, n_ne, n_cn, n_st, n_fh = (120, 60, 110, 32, 20) if quick else (2200, 1100, 1800, 480, 400)
    if os.environ.get("VERIF_C04_N"):      # development aid: "pairs,nested,contain,stack,foothist"
        n_pr, n_ne, n_cn, n_st, n_fh = [int(x) for x in os.environ["VERIF_C04_N"].split(",")]
    pairs = [gen_pair(rng, i) for i in range(n_pr)] + [gen_nested(rng, n_pr + i) for i in range(n_ne)]
    pairs += [gen_stack(rng, n_pr + n_ne + i) for i in range(n_st)]
    conts = [gen_contain(rng, i) for i in range(n_cn)]
    fhists = [gen_foot_history(rng, i) for i in range(n_fh)]
    if c.replay:
        body = json.load(open(c.replay))
        case = body.get("case", {}).get("case")
        if case:
            pairs = [case] if case["id"].startswith("pr") else []
            conts = [case] if case["id"].startswith("cn") else []
            fhists = [case] if case["id"].startswith("fh") else []
    phase = c.cov.setdefault("phase_s", {})

    # The evaluation below is executed twice: a dry pass that only collects the model-driver commands (so that the
    # extracted driver runs once for the whole batch), then the real pass.
    drv = BatchDriver(exe)
    real_c = c
    res_cache = {}
    for c in (DummyCheck(), real_c):
        skipped_close = 0
        # ---------------------------------------------------------------- pairs
        t0 = time.time()
        if "pairs" not in res_cache:
            res_cache["pairs"] = run_chunks("pairs", pairs) if pairs else {}
        res = res_cache["pairs"]
        if drv.collecting:
            phase["pairs_impl"] = round(time.time() - t0, 1)
        for case in pairs:
            r = res.get(case["id"])
            if r is None or "crash" in r:
                c.violation("harness", "implementation driver crashed", dict(case=case, crash=(r or {}).get("crash"), tb=(r or {}).get("tb")), no_input=True)
                continue
            shp = lambda o: o["shape"] + ("-" + o["form"] if "form" in o else "")
            c.hist("pair:shapes:" + "+".join(sorted([shp(case["a"]), shp(case["b"])])))
            if case.get("nested"):
                c.hist("pair:nested:" + case["nested"])
            if "exc" in r:
                c.violation("exception", "an overlap query raised", dict(case=case, exc=r["exc"]))
                continue
            truth = r["truth"]
            if truth["overlap"] is None:
                skipped_close += 1
                c.hist("pair:skip-close")
                truth_val = None
            else:
                # validate the certificate(s) with the extracted checker
                cmds = [cert_cmd(t, r["pieces_a"][t["i"]], r["pieces_b"][t["j"]]) for t in truth["certs"]]
                ok = drv(cmds)
                if not all(x == "1" for x in ok):
                    c.hist("pair:certificate-rejected")
                    skipped_close += 1
                    truth_val = None
                else:
                    truth_val = truth["overlap"]
                    c.hist("pair:truth:" + ("overlap" if truth_val else "disjoint"))
            # nested family: the guest lies strictly inside one convex piece of the host (certificate inside_clear, checked
            # exactly): it overlaps the host (also certified by the common point above) and the host's region contains it
            nc = r.get("nested_cert")
            okc = False
            if nc is not None and nc["slack"] > 4e-6:
                m = nc["slack"] / 2
                okc = drv([f"INC {hx(m)} {hx(m / 4)} {Hs(dict(n=nc['n'], d=nc['d']))} {V(nc['verts'])}"])[0] == "1" and truth_val is not None
                c.hist("pair:nested-certificate:" + ("accepted" if okc else "rejected"))
                if okc:
                    if not truth_val:
                        c.violation("harness", "strict-inside certificate accepted for a pair certified disjoint", dict(case=case), no_input=True)
                    if r.get("host_contains_guest") is False:
                        c.violation("containment", "containsObject of the host's occupiedSpace rejects a guest certified strictly inside one of its convex pieces",
                                    dict(case=case, guest_pos=r.get("guest_pos"), slack=nc["slack"]))
            hc = r.get("host_contains_guest_all")
            if hc is not None:
                c.hist("pair:nested:containsObject-sampled-thrice")
                if len(set(hc)) > 1:
                    c.violation("containment", "containsObject of the host's occupiedSpace depends on the random candidate points drawn (numpy seeds 1,2,3)",
                                dict(case=case, guest_pos=r.get("guest_pos"), answers=hc))
            if case.get("nested") == "in-cavity" and truth_val is False and r.get("host_contains_guest"):
                c.violation("containment", "containsObject of the host's occupiedSpace accepts a guest certified disjoint from it (inside its cavity)",
                            dict(case=case, guest_pos=r.get("guest_pos")))
            c.count((case["a"], case["b"]), nontrivial=truth_val is not None)
            if truth_val is not None:
                c.cov["traces_validated_against_impl"] += 1
                for key in ("obj_intersects", "obj_intersects_rev", "vol_intersects", "vol_intersects_rev"):
                    if r[key] != truth_val:
                        c.violation("overlap", f"{key} disagrees with certified exact geometry",
                                    dict(case=case, query=key, impl=r[key], truth=truth_val, margin=truth["certs"][0].get("margin"), guest_pos=r.get("guest_pos"), oracles=r.get("oracles")))
                md = r["min_dist"]
                if truth_val and md > 0:
                    oo = r.get("oracles") or {}
                    c.violation("min-distance", "positive minimum distance reported for overlapping objects",
                                dict(case=case, impl=md, sub="positive-for-overlapping", nested_clear=bool(okc), guest_pos=r.get("guest_pos"),
                                     some_nonconvex=not (oo.get("a_convex", True) and oo.get("b_convex", True)), surf_collide=oo.get("surf_collide")))
                if not truth_val and "gap" in r and r["gap"][1] - r["gap"][0] < 1e-7:
                    c.hist("pair:gap-certified")
                    if abs(md - r["gap"][1]) > 1e-6:
                        c.violation("min-distance", "minimum distance differs from the certified gap", dict(case=case, impl=md, gap=r["gap"]))
                elif not truth_val and md <= 0:
                    c.violation("min-distance", "non-positive minimum distance reported for disjoint objects", dict(case=case, impl=md))
            if case.get("stack"):
                c.hist("pair:stack-regime:" + case["stack"] + (":overlap" if truth_val else (":disjoint" if truth_val is False else ":close")))
            check_planar(c, case, [case["a"], case["b"]], r.get("tilt"), [(r.get("oracles") or {}).get("a_planar"), (r.get("oracles") or {}).get("b_planar")], r.get("bpoly"))
            # cascade model vs implementation, and every shortcut vs truth / last pass
            o = r.get("oracles")
            if o is None:
                c.hist("pair:oracles-unavailable")
                continue
            bits = " ".join("1" if o[k] else "0" for k in IBITS)
            z_apart = o["z_apart"]
            if o["both_planar_boxes"] and case["a"]["shape"] == "box" and case["b"]["shape"] == "box":
                # the z-interval test is part of the model: evaluated exactly on the numbers (unless within rounding of the threshold)
                za = (r.get("guest_pos") if "rel_local" in case["a"] else case["a"]["pos"])[2]
                zb = (r.get("guest_pos") if "rel_local" in case["b"] else case["b"]["pos"])[2]
                ha, hb = case["a"]["dims"][2], case["b"]["dims"][2]
                if abs(abs(za - zb) - (ha + hb) / 2) > 1e-9 * (1 + abs(za) + abs(zb)):
                    z_apart = drv([f"ZAP {hx(za)} {hx(ha)} {hx(zb)} {hx(hb)}"])[0] == "1"
                    c.hist("pair:z-interval-test:model:" + ("apart" if z_apart else "meet"))
            if drv.collecting:      # the dry pass does not know the model's z-test answer yet: queue both variants
                drv([f"OBJ {int(o['both_planar_boxes'])} {int(not z_apart)} {int(o['polys_intersect'])} " + bits])
            mo = drv(["CASC " + bits, f"OBJ {int(o['both_planar_boxes'])} {int(z_apart)} {int(o['polys_intersect'])} " + bits])
            ans, pas = mo[0].split()
            c.hist("pair:pass:" + pas)
            c.hist("pair:path:" + ("planar-boxes" if o["both_planar_boxes"] else "volume"))
            if (ans == "1") != r["vol_intersects"]:
                c.violation("cascade", "MeshVolumeRegion.intersects differs from the cascade model over its own pass answers",
                            dict(case=case, impl=r["vol_intersects"], model=ans, model_pass=pas, oracles=o))
            if (mo[1] == "1") != r["obj_intersects"]:
                c.violation("cascade", "Object.intersects differs from the cascade model over its own pass answers",
                            dict(case=case, impl=r["obj_intersects"], model=mo[1], oracles=o))
            claims = []
            if o["centre_far"]:
                claims.append(("pass1-centre-far", False))
            if o["both_scaled"] and o["in_near"]:
                claims.append(("pass2A-inradii", True))
            if o["both_scaled"] and o["circ_far"]:
                claims.append(("pass2A-circumradii", False))
            if not o["bbox_overlap"]:
                claims.append(("pass2B-bbox", False))
            if o["surf_collide"]:
                claims.append(("pass3-fcl-hit", True))
            elif o["a_convex"] and o["b_convex"]:
                claims.append(("pass3-fcl-convex", False))
            elif o["single_bodies"]:
                claims.append(("pass4-interior-points", o["a_has_b_point"] or o["b_has_a_point"]))
            claims.append(("pass5-boolean", o["bool_nonempty"]))
            if o["both_planar_boxes"]:
                claims.append(("planar-box-fast-path", (not o["z_apart"]) and o["polys_intersect"]))
            for name, val in claims:
                c.count(n=1)
                c.hist("shortcut:" + name)
                if truth_val is not None and val != truth_val:
                    c.violation("shortcut", f"shortcut {name} contradicts certified exact geometry",
                                dict(case=case, shortcut=name, says=val, truth=truth_val, oracles=o))
                if truth_val is None and name != "pass5-boolean" and val != o["bool_nonempty"] and abs(truth.get("margin", 0)) > 1e-9:
                    c.hist("shortcut:differs-from-last-pass-in-skipped-close-case")
            if len(c.cov["samples"]) < 3 and truth_val is not None:
                c.sample(dict(a=case["a"], b=case["b"], truth=truth_val, impl=r["obj_intersects"], model_pass=pas))
        if drv.collecting:
            phase["pairs_dry"] = round(time.time() - t0, 1)

        # ---------------------------------------------------------------- containment
        t0 = time.time()
        if "contain" not in res_cache:
            res_cache["contain"] = run_chunks("contain", conts) if conts else {}
        res = res_cache["contain"]
        for case in conts:
            r = res.get(case["id"])
            if r is None or "crash" in r:
                c.violation("harness", "implementation driver crashed", dict(case=case, crash=(r or {}).get("crash"), tb=(r or {}).get("tb")), no_input=True)
                continue
            c.hist("contain:container:" + case["container"]["kind"])
            c.hist("contain:obj:" + case["obj"]["shape"])
            if "exc" in r:
                c.violation("exception", "containsObject raised", dict(case=case, exc=r["exc"]))
                continue
            t = r["truth"]
            allv = [p for piece in r["pieces"] for p in piece]
            truth_val = t.get("inside")
            if truth_val is not None:
                cmds = []
                if t["why"] == "vertex-outside":
                    # one violated half-space and one vertex are a complete certificate of non-containment
                    fi, vi = t["worst"]
                    cmds.append(f"OUT {hx(t['m'])} {Hs(dict(n=[r['H']['n'][fi]], d=[r['H']['d'][fi]]))} {V([allv[vi]])}")
                else:
                    cmds.append(f"INS {hx(t['m'])} {Hs(r['H'])} {V(allv)}")
                    for ct in t.get("certs", []):
                        cmds.append(cert_cmd(dict(ct, j=0), r["pieces"][ct["i"]], r["notch"]))
                ok = drv(cmds)
                if not all(x == "1" for x in ok):
                    c.hist("contain:certificate-rejected")
                    truth_val = None
            if truth_val is None:
                skipped_close += 1
                c.hist("contain:skip-close")
            else:
                c.hist("contain:truth:" + t["why"])
                c.cov["traces_validated_against_impl"] += 1
                if r["contains"] != truth_val:
                    c.violation("containment", "containsObject disagrees with certified exact geometry",
                                dict(case=case, impl=r["contains"], truth=truth_val, why=t["why"], min_slack=t["min_slack"], oracles=r.get("oracles") or r.get("foot")))
            c.count((case["obj"], case["container"]), nontrivial=truth_val is not None)
            check_planar(c, case, [case["obj"]], [r.get("tilt")], [r.get("planar")], [r.get("bpoly")])
            o = r.get("oracles")
            if o is not None and (o["c_convex"] or o["c_have_obj_point"]):
                mo = drv(["CONT " + " ".join("1" if o[k] else "0" for k in CBITS)])[0].split()
                c.hist("contain:pass:" + mo[1])
                # passes 4/5 may use a random sample when the container's centre is outside it: only replay the deterministic ones
                if o["c_have_reg_point"] or mo[1] not in ("4", "5"):
                    if (mo[0] == "1") != r["contains"]:
                        c.violation("cascade", "containsObject differs from the cascade model over its own pass answers",
                                    dict(case=case, impl=r["contains"], model=mo, oracles=o))
                claims = []
                if not o["c_bbox_overlap"]:
                    claims.append(("c-pass1-bbox", False))
                if o["c_convex"] and o["c_bb_corners_in"]:
                    claims.append(("c-pass2-bb-corners", True))
                if o["c_convex"]:
                    claims.append(("c-pass2-vertices", o["c_vertices_in"]))
                if o["c_have_obj_point"] and not o["c_obj_point_in"]:
                    claims.append(("c-pass3-point-outside", False))
                if o["c_have_obj_point"] and o["c_obj_point_in"] and o["c_ball_fits"]:
                    claims.append(("c-pass3-ball-fits", True))
                if o["c_have_reg_point"] and o["c_too_far"]:
                    claims.append(("c-pass4-too-far", False))
                claims.append(("c-pass5-difference", o["c_diff_empty"]))
                for name, val in claims:
                    c.count(n=1)
                    c.hist("shortcut:" + name)
                    if truth_val is not None and val != truth_val:
                        c.violation("shortcut", f"shortcut {name} contradicts certified exact geometry",
                                    dict(case=case, shortcut=name, says=val, truth=truth_val, oracles=o))
            f = r.get("foot")
            if f is not None:
                mo = drv([f"FOOT {int(f['f_convex'])} {int(f['f_poly_in'])} {int(f['f_hull_in'])}"])[0]
                c.hist("contain:footprint:" + ("convex" if f["f_convex"] else ("hull" if f["f_hull_in"] else "exact")))
                if (mo == "1") != r["contains"]:
                    c.violation("cascade", "footprint containsObject differs from the cascade model", dict(case=case, impl=r["contains"], model=mo, oracles=f))
                if truth_val is not None and f["f_hull_in"] and not truth_val:
                    c.violation("shortcut", "shortcut footprint-hull contradicts certified exact geometry", dict(case=case, oracles=f, truth=truth_val))
        if drv.collecting:
            phase["contain_impl_and_dry"] = round(time.time() - t0, 1)

        # ---------------------------------------------------------------- histories on one footprint region
        t0 = time.time()
        if "foothist" not in res_cache:
            res_cache["foothist"] = run_chunks("foothist", fhists) if fhists else {}
        res = res_cache["foothist"]
        for case in fhists:
            r = res.get(case["id"])
            if r is None or "crash" in r:
                c.violation("harness", "implementation driver crashed", dict(case=case, crash=(r or {}).get("crash"), tb=(r or {}).get("tb")), no_input=True)
                continue
            reused, prev_cache = 0, None
            for k, (st, rs) in enumerate(zip(case["steps"], r["steps"])):
                rep = dict(case=dict(case, steps=case["steps"][:k + 1]), step=k, query=st["query"], shared=rs.get("shared"), fresh=rs.get("fresh"), cache=rs.get("cache"),
                           huge_slab=bool("req" in rs and 100 * max(1.0, rs["req"][0]) * rs["req"][1] > 2e5))
                if "exc" in rs:
                    c.violation("exception", "an overlap query against a footprint region raised", dict(rep, exc=rs["exc"]))
                    break
                truth = rs["truth"]
                truth_val = truth["overlap"]
                if truth_val is not None:
                    cmds = [cert_cmd(t, rs["pieces_a"][t["i"]], rs["pieces_b"][t["j"]]) for t in truth["certs"]]
                    if not all(x == "1" for x in drv(cmds)):
                        c.hist("foothist:certificate-rejected")
                        truth_val = None
                if truth_val is None:
                    skipped_close += 1
                c.hist("foothist:step:" + st["where"] + ":" + ("close" if truth_val is None else ("overlap" if truth_val else "disjoint")))
                c.hist("foothist:query:" + st["query"])
                c.count(n=1)
                if st["query"] == "flat":
                    c.hist("flat:" + ("planar-box" if rs.get("planar") else "general") + ":" + ("close" if truth_val is None else ("overlap" if truth_val else "disjoint")))
                    rep = dict(rep, zp=st["zp"], object_intersects=rs["shared"], region_intersects=rs["fresh"], region_intersects_rev=rs.get("rev"))
                    if len({rs["shared"], rs["fresh"], rs.get("rev")}) > 1 and truth_val is not None:
                        c.violation("overlap", "Object.intersects and the region-level test disagree about a flat polygonal region", dict(rep, truth=truth_val))
                    elif truth_val is not None and rs["shared"] != truth_val:
                        c.violation("overlap", "overlap with a flat polygonal region disagrees with certified exact geometry", dict(rep, truth=truth_val))
                    if truth_val is not None:
                        c.cov["traces_validated_against_impl"] += 1
                    continue
                if k > 0 and prev_cache is not None and rs.get("cache") == prev_cache:
                    reused += 1
                prev_cache = rs.get("cache")
                if rs["shared"] != rs["fresh"]:
                    c.violation("history", "a footprint region that has answered earlier queries answers differently from a fresh region",
                                dict(rep, truth=truth_val))
                if truth_val is not None and rs["fresh"] != truth_val:
                    c.violation("overlap", "overlap with a polygonal footprint disagrees with certified exact geometry", dict(rep, truth=truth_val))
                elif truth_val is not None and rs["shared"] != truth_val:
                    c.violation("overlap", "overlap with a (reused) polygonal footprint disagrees with certified exact geometry", dict(rep, truth=truth_val))
                if truth_val is not None:
                    c.cov["traces_validated_against_impl"] += 1
            c.hist("foothist:cache-reused-steps", reused)
            # approxBoundFootprint over the same history of requests vs the extracted cache model (run_requests approx)
            rq = [rs for rs in r["steps"] if "req" in rs]
            if len(rq) == sum(1 for st in case["steps"] if st["query"] != "flat") and rq:
                args = str(len(rq)) + " " + " ".join(hx(rs["req"][0]) + " " + hx(rs["req"][1]) for rs in rq)
                lines = drv(["SLAB " + args, "SLABF " + args])      # padding rule of the code / of branch fix-C04-footprint-slab-padding
                if not drv.collecting:
                    verdicts = {}
                    for rule, line in zip(("z-scaled", "flat"), lines):
                        slabs = [[Fraction(int(a.split("/")[0], 0), int(a.split("/")[1], 0)) for a in t.split(":")] for t in line.split()]
                        bad = None
                        for k, (rs, (mc, mh)) in enumerate(zip(rq, slabs)):
                            lo, hi = float(mc - mh / 2), float(mc + mh / 2)
                            tol = 1e-6 + 2e-5 * float(mh)
                            if abs(rs["api_z"][0] - lo) > tol or abs(rs["api_z"][1] - hi) > tol:
                                bad = dict(step_among_footprint_queries=k, request=rs["req"], returned_z=rs["api_z"], model_z=[lo, hi], padding_rule=rule)
                                break
                        verdicts[rule] = (bad, slabs)
                    for k, rs in enumerate(rq):
                        cz, hz = rs["req"]
                        c.count(n=1)
                        if rs["api_z"][0] > cz - hz / 2 + 1e-6 or rs["api_z"][1] < cz + hz / 2 - 1e-6:
                            c.violation("footprint-slab", "approxBoundFootprint returned a region that does not cover the requested z-interval",
                                        dict(case=case, step_among_footprint_queries=k, request=rs["req"], returned_z=rs["api_z"]))
                            break
                    else:
                        ok = [rule for rule in verdicts if verdicts[rule][0] is None]
                        if not ok:
                            c.violation("footprint-slab", "approxBoundFootprint differs from the cache model over the same history of requests (under either padding rule)",
                                        dict(case=case, first_difference=verdicts["z-scaled"][0], first_difference_flat_rule=verdicts["flat"][0]))
                        else:
                            c.hist("foothist:slab-model:" + "+".join(ok))
                            slabs = verdicts[ok[0]][1]
                            for k in range(len(rq)):
                                c.hist("foothist:slab:" + ("first" if k == 0 else ("reused" if slabs[k] == slabs[k - 1] else "rebuilt")))
            elif r["steps"]:
                c.hist("foothist:slab-api-unavailable")
            c.count(("fh", case["footprint"], case["steps"]), nontrivial=reused > 0)
        if drv.collecting:
            phase["foothist_impl_and_dry"] = round(time.time() - t0, 1)
        if drv.collecting:
            t0 = time.time()
            drv.flush()
            phase["model_driver"] = round(time.time() - t0, 1)
            phase["model_commands"] = len(drv.out)
    c = real_c
    c.cov["skipped_within_tolerance"] = skipped_close
    c.assumptions += [
        "ground truth certificates are computed by LP (scipy HiGHS) in floating point and ACCEPTED only if the extracted Coq checker validates them on the exact rational values of the mesh vertices",
        "convex shapes are the convex hulls of their trimesh vertices; non-convex test shapes are unions of boxes whose vertex lists are recomputed by the harness (checked against the mesh bounds)",
        "H-representation of convex containers is taken from the container mesh's face planes",
        "FCL, trimesh (signed distance, contains), manifold3d booleans and shapely are oracles: their answers are read per pass and compared with the certified truth, not modelled",
        "extraction via ExtrOcamlBasic only; OCaml compiler; ~90-line driver incl. exact double->Q conversion and exact normalisation of weights",
    ]
    c.finish()


if __name__ == "__main__":
    main()
