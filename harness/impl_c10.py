"""C10 implementation-side driver (runs under /venv/bin/python with Scenic from $VERIF_REPO).
kinds: "fuzz" (mutants -> parse + compile to a Python AST, never executed; failing mutants also through scenarioFromString,
which raises before any code runs), "inject" (exception injection at each protocol step), "docs" (code samples of docs/reference)."""
import hashlib
import io
import json
import os
import random
import re
import signal
import sys
import tempfile
import time
import traceback

sys.setrecursionlimit(6000)

VOCAB = ["new", "at", "by", "of", "to", "on", "do", "until", "require", "ego", "Object", "facing", "visible", "from", "relative",
         "offset", "deg", "with", "behavior", "take", "wait", "try", "interrupt", "when", "abort", "param", "model", "scenario",
         "setup", "compose", "always", "eventually", "next", "implies", "monitor", "record", "terminate", "mutate", "in", "not",
         "(", ")", "[", "]", "{", "}", ":", ",", ".", "=", "==", "@", "*", "**", "->", ":=", "+", "-", "if", "else", "for", "while",
         "def", "class", "return", "yield", "lambda", "import", "pass", "1", "0.5", "'s'", 'f"{x}"', 'f"{x!r}"', "\n", "    ", "\t", "\\", "#",
         "\"\"\"", "'", "é", "\x00", "\x0c", "$", "?", "`", ";", "...", "~", "<", ">", "|", "&", "%"]
SCENIC_EXPRS = ["new Object at (1, 2)", "new Object", "A relative to B", "x deg", "visible x", "x can see y", "distance from x to y",
                "front of ego", "a @ b", "follow f from p for 3", "not visible ego", "ego offset by (1, 2)", "angle to x",
                "apparent heading of ego", "initial scenario", "x until y", "always x", "new Object facing 3 deg, with foo 4",
                "(relative heading of x) from y", "p offset along d by v", "beyond a by b from c", "altitude from a to b"]
TEMPLATES = ["({e}) = 1", "{e} = 1", "@{e}\ndef f():\n    pass", 'x = f"{{{e}}}"', 'x = f"{{{e}!r:>{{w}}}}"', "for {e} in y:\n    pass", "del {e}",
             "with a as {e}:\n    pass", "{e} += 1", "x = [{e} for {e} in z]", "f = lambda a={e}: a", "import {e}", "global {e}",
             "x: {e} = 3", "def f({e}):\n    pass", "class C({e}):\n    pass", "x = ({e} := 3)", "match x:\n    case {e}:\n        pass",
             "require {e}", "ego = {e}", "param p = {e}", "x = {e} if {e} else {e}", "try:\n    pass\nexcept {e}:\n    pass", "assert {e}, {e}",
             "raise {e} from {e}", "x[{e}] = {e}", "async def f():\n    await {e}", "behavior B():\n    take {e}", "behavior B():\n    do {e} until {e}"]
TAILS = ["(", "[", "{", '"""', "'''", "x = ", "\\", "if x:", "    ", "\t x", "new Object at", "def f(", 'f"{', 'f"{x!', "x = (1,\n", "class C:",
         "behavior B():", "require", "try:\n    pass\ninterrupt when", "\x00", "@", "lambda", "x = 1 if", "for x in", "    pass", ")"]


def mutate(src, rng):
    """One mutant of src; returns (kind, text)."""
    ops = ["del-char", "ins-tok", "rep-tok", "swap-tok", "del-line", "dup-line", "swap-line", "reindent", "truncate", "template",
           "tail", "del-tok", "join-lines", "ins-char"]
    k = rng.choice(ops)
    toks = re.findall(r"\s+|\w+|[^\w\s]", src)
    lines = src.split("\n")
    if k == "del-char" and src:
        i = rng.randrange(len(src)); n = rng.choice([1, 1, 1, 2, 5])
        return k, src[:i] + src[i + n:]
    if k == "ins-char":
        i = rng.randrange(len(src) + 1)
        return k, src[:i] + rng.choice("()[]{}:,.=\"'\\\t \n#@!") + src[i:]
    if k in ("ins-tok", "rep-tok", "del-tok", "swap-tok") and toks:
        i = rng.randrange(len(toks))
        if k == "ins-tok":
            toks.insert(i, " " + rng.choice(VOCAB) + " ")
        elif k == "rep-tok":
            toks[i] = rng.choice(VOCAB)
        elif k == "del-tok":
            del toks[i]
        else:
            j = min(len(toks) - 1, i + rng.choice([1, 2]))
            toks[i], toks[j] = toks[j], toks[i]
        return k, "".join(toks)
    if k in ("del-line", "dup-line", "swap-line", "reindent", "join-lines") and lines:
        i = rng.randrange(len(lines))
        if k == "del-line":
            del lines[i]
        elif k == "dup-line":
            lines.insert(i, lines[i])
        elif k == "swap-line" and len(lines) > 1:
            j = min(len(lines) - 1, i + 1)
            lines[i], lines[j] = lines[j], lines[i]
        elif k == "reindent":
            d = rng.choice([-4, -2, -1, 1, 2, 4, 8, "tab"])
            if d == "tab":
                lines[i] = "\t" + lines[i]
            elif d > 0:
                lines[i] = " " * d + lines[i]
            else:
                lines[i] = lines[i][min(-d, len(lines[i]) - len(lines[i].lstrip())):]
        elif k == "join-lines" and i + 1 < len(lines):
            lines[i] = lines[i] + " " + lines.pop(i + 1).lstrip()
        return k, "\n".join(lines)
    if k == "truncate" and src:
        return k, src[:rng.randrange(len(src))]
    if k == "template":
        e = rng.choice(SCENIC_EXPRS)
        t = rng.choice(TEMPLATES).replace("{e}", e).replace("{{", "{").replace("}}", "}")
        i = rng.randrange(len(lines) + 1)
        ind = ""
        if i < len(lines) and rng.random() < 0.5:
            ind = lines[i][:len(lines[i]) - len(lines[i].lstrip())]
        return k, "\n".join(lines[:i] + [ind + l for l in t.split("\n")] + lines[i:])
    if k == "tail":
        return k, src.rstrip("\n") + rng.choice(["\n", "\n\n", " ", ""]) + rng.choice(TAILS) + rng.choice(["", "\n", "\n\n"])
    return "identity", src


class Timeout(Exception):
    pass


def _alarm(signum, frame):
    raise Timeout()


def classify(e, nlines):
    from scenic.core.errors import ScenicSyntaxError
    import tokenize
    tb = traceback.extract_tb(e.__traceback__)
    fr = [f for f in tb if "/scenic/" in f.filename]
    info = dict(type=type(e).__name__, msg=str(e)[:160], func=fr[-1].name if fr else None,
                file=os.path.basename(fr[-1].filename) if fr else None)
    if isinstance(e, ScenicSyntaxError) or isinstance(e, SyntaxError):
        ln = getattr(e, "lineno", None)
        info["lineno"] = ln
        info["scenic"] = isinstance(e, ScenicSyntaxError)
        if ln is None:
            info["outcome"] = "syntax-error-without-line"
        elif not (1 <= ln <= nlines + 1):
            info["outcome"] = "syntax-error-line-out-of-range"
        else:
            info["outcome"] = "syntax-error"
    elif isinstance(e, tokenize.TokenError):
        info["outcome"] = "token-error"
    elif isinstance(e, Timeout):
        info["outcome"] = "timeout"
    elif isinstance(e, RecursionError):
        info["outcome"] = "recursion-error"
    else:
        info["outcome"] = "crash"
    return info


def veneer_snapshot():
    import scenic.syntax.veneer as v
    import scenic.core.object_types as ot
    return dict(activity=v.activity, stack=len(v.scenarioStack), current=v.currentScenario is not None, mode2D=v.mode2D,
                classes=[v.Point is v._originalConstructibles[0], v.OrientedPoint is v._originalConstructibles[1],
                         v.Object is v._originalConstructibles[2], ot.Object is v._originalConstructibles[2]],
                locked=sorted(v.lockedParameters), lmodel=v.lockedModel, gparams=sorted(map(str, v._globalParameters)),
                scenarios=len(v.scenarios), simf=v.simulatorFactory is not None, evalReq=v.evaluatingRequirement,
                evalGuard=v.evaluatingGuard, sim=v.currentSimulation is not None)


def veneer_reset():
    import scenic.syntax.veneer as v
    import scenic.core.object_types as ot
    v.activity = 0
    v.scenarioStack.clear()
    v.currentScenario = None
    v.mode2D = False
    v.Point, v.OrientedPoint, v.Object = v._originalConstructibles
    ot.Point, ot.OrientedPoint, ot.Object = v._originalConstructibles
    v.lockedParameters = set()
    v.lockedModel = None
    v._globalParameters = {}
    v.scenarios = []
    v.simulatorFactory = None


def front_end(text, full):
    """parse + compile to a Python AST (nothing is executed).  full: also through scenarioFromString when that failed."""
    from scenic.syntax.compiler import compileScenicAST
    from scenic.syntax.parser import parse_string
    nlines = len(text.split("\n"))
    signal.setitimer(signal.ITIMER_VIRTUAL, 25)          # CPU seconds: a hang detector that does not depend on the load
    try:
        tree = parse_string(text, "exec", filename="<mutant>")
        compileScenicAST(tree, filename="<mutant>")
        res = dict(outcome="ok")
    except BaseException as e:
        if isinstance(e, (KeyboardInterrupt, SystemExit)):
            raise
        res = classify(e, nlines)
    finally:
        signal.setitimer(signal.ITIMER_VIRTUAL, 0)
    if full and res["outcome"] not in ("ok", "timeout"):
        import scenic
        before = veneer_snapshot()
        signal.setitimer(signal.ITIMER_VIRTUAL, 40)
        try:
            scenic.scenarioFromString(text)
            res["full"] = "ok"
        except BaseException as e:
            if isinstance(e, (KeyboardInterrupt, SystemExit)):
                raise
            res["full"] = classify(e, nlines)["outcome"] + ":" + type(e).__name__
        finally:
            signal.setitimer(signal.ITIMER_VIRTUAL, 0)
        after = veneer_snapshot()
        res["veneer_restored"] = before == after
        if before != after:
            res["veneer"] = dict(before=before, after=after)
            veneer_reset()
    return res


def fuzz(req):
    signal.signal(signal.SIGVTALRM, _alarm)
    out = []
    budget = req.get("cpu_budget")
    for job in req["jobs"]:
        if budget and time.process_time() > budget:
            out.append(dict(id=job["id"], outcome="skip-time-budget"))
            continue
        if "text" in job:
            kind, text = job.get("mutation", "given"), job["text"]
        else:
            src = open(job["path"], encoding="utf-8").read()
            rng = random.Random(job["seed"])
            kind, text = mutate(src, rng)
            for _ in range(job.get("extra", 0)):
                k2, text = mutate(text, rng)
                kind += "+" + k2
        try:
            text.encode("utf-8")
        except UnicodeEncodeError:
            out.append(dict(id=job["id"], outcome="skip-unencodable"))
            continue
        r = front_end(text, job.get("full", False))
        r.update(id=job["id"], mutation=kind, nlines=len(text.split("\n")), sha=hashlib.sha256(text.encode()).hexdigest()[:12])
        if r["outcome"] not in ("ok", "syntax-error"):
            r["text"] = text
        out.append(r)
    return out


# ----------------------------------------------------------------------------- exception injection
class Injected(Exception):
    pass


def inject(req):
    import contextlib
    import scenic
    import scenic.syntax.translator as tr
    import scenic.syntax.veneer as v
    d = tempfile.mkdtemp(prefix="verif-c10-")
    open(os.path.join(d, "helper.scenic"), "w").write("hparam = 3\nhobj = new Object at (10, 10)\n")
    open(os.path.join(d, "top.scenic"), "w").write("param q = 4\nimport helper\nego = new Object\n")
    open(os.path.join(d, "flat.scenic"), "w").write("ego = new Object\nparam q = 4\n")
    out = []

    def nth(k, orig):
        cnt = [0]

        def f(*a, **kw):
            cnt[0] += 1
            if cnt[0] == k:
                raise Injected("injected")
            return orig(*a, **kw)
        return f

    for case in req["cases"]:
        point, level, params, mode2D = case["point"], case["level"], case.get("params", {}), case.get("mode2D", False)
        k = level + 1           # the (level+1)-th call of the patched function belongs to the module at that nesting level
        veneer_reset()
        before = veneer_snapshot()
        patches = []
        try:
            if point == "RNamespace":
                @contextlib.contextmanager
                def bad(path=None):
                    raise Injected("injected")
                    yield
                patches.append((tr, "topLevelNamespace", tr.topLevelNamespace)); tr.topLevelNamespace = bad
            elif point == "RActEntry":
                orig = v.activate
                patches.append((v, "activate", orig)); v.activate = nth(k, orig)
            elif point == "RActAfterIncr":
                orig = v.DynamicScenario._dummy
                patches.append((v.DynamicScenario, "_dummy", orig)); v.DynamicScenario._dummy = nth(k, orig)
            elif point == "RPreamble":
                # the preamble is a source string: the k-th compile() of it raises
                orig = tr.preamble
                patches.append((tr, "preamble", orig))
                if k == 1:
                    tr.preamble = "raise __import__('impl_c10').Injected('injected')\n"
                else:
                    tr.preamble = orig + "\nimport impl_c10 as _v\n_v._pre = getattr(_v, '_pre', 0) + 1\nif _v._pre == %d:\n    raise _v.Injected('injected')\n" % k
                    sys.modules["impl_c10"]._pre = 0
            else:
                name = dict(RParse="parse_string", RCompile="compileScenicAST", RExec="executeCodeIn", RStore="storeScenarioStateIn",
                            RConstruct="constructScenarioFrom")[point]
                orig = getattr(tr, name)
                patches.append((tr, name, orig)); setattr(tr, name, nth(k, orig))
            exc = None
            try:
                scenic.scenarioFromFile(os.path.join(d, "top.scenic" if case.get("nested", True) else "flat.scenic"),
                                        params=params, mode2D=mode2D)
            except BaseException as e:
                if isinstance(e, (KeyboardInterrupt, SystemExit)):
                    raise
                exc = type(e).__name__
        finally:
            for obj, name, orig in reversed(patches):
                setattr(obj, name, orig)
        after = veneer_snapshot()
        out.append(dict(case=case, exception=exc, restored=before == after, after=after, is_active=v.isActive()))
        veneer_reset()
    return out


# ----------------------------------------------------------------------------- docs samples
def doc_samples(repo):
    res = []
    for name in ("statements", "operators", "specifiers"):
        p = os.path.join(repo, "docs", "reference", name + ".rst")
        lines = open(p, encoding="utf-8").read().split("\n")
        i = 0
        while i < len(lines):
            l = lines[i]
            if re.match(r"\s*\.\. code-block:: *(scenic|python)?\s*$", l) or (l.rstrip().endswith("::") and not l.strip().startswith("..")):
                base = len(l) - len(l.lstrip())
                j = i + 1
                block = []
                while j < len(lines) and (not lines[j].strip() or len(lines[j]) - len(lines[j].lstrip()) > base):
                    block.append(lines[j]); j += 1
                block = [b for b in block if not re.match(r"\s*:\w+:", b)]
                while block and not block[0].strip():
                    block.pop(0)
                while block and not block[-1].strip():
                    block.pop()
                if block:
                    ind = min(len(b) - len(b.lstrip()) for b in block if b.strip())
                    res.append(dict(file=name, line=i + 1, text="\n".join(b[ind:] for b in block) + "\n"))
                i = j
            else:
                # section titles of the reference are grammar forms: instantiate the simple ones (no alternatives / options)
                if i + 1 < len(lines) and re.match(r"^-{4,}\s*$", lines[i + 1]) and name in ("operators", "specifiers") \
                        and re.match(r"^[a-z][A-Za-z *]*$", l.strip()) and "*" in l:
                    form = re.sub(r"\*([A-Za-z ]+?)\*", lambda m: m.group(1).replace(" ", "_") + "_v", l.strip())
                    text = ("ego = new Object\nx = " + form + "\n") if name == "operators" else ("ego = new Object\nnew Object " + form + "\n")
                    res.append(dict(file=name, line=i + 1, text=text, form=True))
                i += 1
    return res


def docs(req):
    signal.signal(signal.SIGVTALRM, _alarm)
    out = []
    for s_ in doc_samples(os.environ.get("VERIF_REPO", "/repo")):
        r = front_end(s_["text"], False)
        out.append(dict(file=s_["file"], line=s_["line"], sha=hashlib.sha256(s_["text"].encode()).hexdigest()[:12],
                        outcome=r["outcome"], msg=r.get("msg"), text=s_["text"]))
    return out


def main():
    req = json.load(sys.stdin)
    k = req["kind"]
    res = dict(fuzz=fuzz, inject=inject, docs=docs)[k](req)
    print(json.dumps(dict(results=res)))


if __name__ == "__main__":
    sys.modules.setdefault("impl_c10", sys.modules["__main__"])
    main()
