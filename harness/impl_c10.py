"""C10 implementation-side driver (runs under /venv/bin/python with Scenic from $VERIF_REPO).
kinds: "fuzz" (mutants -> parse + compile to a Python AST, never executed; failing mutants also through scenarioFromString,
which raises before any code runs), "inject" (exception injection at each protocol step), "docs" (code samples of docs/reference)."""
import hashlib
import io
import json
import os
import random
import re
import signal
import sys
import tempfile
import time
import traceback

sys.setrecursionlimit(6000)

VOCAB = ["new", "at", "by", "of", "to", "on", "do", "until", "require", "ego", "Object", "facing", "visible", "from", "relative",
         "offset", "deg", "with", "behavior", "take", "wait", "try", "interrupt", "when", "abort", "param", "model", "scenario",
         "setup", "compose", "always", "eventually", "next", "implies", "monitor", "record", "terminate", "mutate", "in", "not",
         "(", ")", "[", "]", "{", "}", ":", ",", ".", "=", "==", "@", "*", "**", "->", ":=", "+", "-", "if", "else", "for", "while",
         "def", "class", "return", "yield", "lambda", "import", "pass", "1", "0.5", "'s'", 'f"{x}"', 'f"{x!r}"', "\n", "    ", "\t", "\\", "#",
         "\"\"\"", "'", "é", "\x00", "\x0c", "$", "?", "`", ";", "...", "~", "<", ">", "|", "&", "%"]
SCENIC_EXPRS = ["new Object at (1, 2)", "new Object", "A relative to B", "x deg", "visible x", "x can see y", "distance from x to y",
                "front of ego", "a @ b", "follow f from p for 3", "not visible ego", "ego offset by (1, 2)", "angle to x",
                "apparent heading of ego", "initial scenario", "x until y", "always x", "new Object facing 3 deg, with foo 4",
                "(relative heading of x) from y", "p offset along d by v", "beyond a by b from c", "altitude from a to b"]
# names the compiler tracks / rewrites, in every binding or deleting position Python has
NAME_EXPRS = ["ego", "workspace", "globalParameters", "ego.x", "ego[0]", "(ego)", "*ego", "ego, workspace", "[ego, x]", "(workspace, *r)",
              "str", "int", "float", "self", "simulation", "globalParameters.p", "ego.position.x", "x.ego", "ego()", "_Scenic_current_behavior"]
TEMPLATES = ["({e}) = 1", "{e} = 1", "@{e}\ndef f():\n    pass", 'x = f"{{{e}}}"', 'x = f"{{{e}!r:>{{w}}}}"', "for {e} in y:\n    pass", "del {e}",
             "with a as {e}:\n    pass", "{e} += 1", "x = [{e} for {e} in z]", "f = lambda a={e}: a", "import {e}", "global {e}",
             "x: {e} = 3", "def f({e}):\n    pass", "class C({e}):\n    pass", "x = ({e} := 3)", "match x:\n    case {e}:\n        pass",
             "require {e}", "ego = {e}", "param p = {e}", "x = {e} if {e} else {e}", "try:\n    pass\nexcept {e}:\n    pass", "assert {e}, {e}",
             "raise {e} from {e}", "x[{e}] = {e}", "async def f():\n    await {e}", "behavior B():\n    take {e}", "behavior B():\n    do {e} until {e}",
             # binding / deleting / declaring forms (for the tracked names above and for Scenic expressions alike)
             "import m as {e}", "from m import {e}", "from m import a as {e}", "def f():\n    nonlocal {e}", "def f():\n    global {e}\n    {e} = 1",
             "def {e}():\n    pass", "class {e}:\n    pass", "try:\n    pass\nexcept E as {e}:\n    pass", "match x:\n    case [a, *{e}]:\n        pass",
             "match x:\n    case {{'k': {e}}}:\n        pass", "match x:\n    case C(a={e}):\n        pass", "match x:\n    case 1 | 2 as {e}:\n        pass",
             "f = lambda {e}: 0", "def f(a, {e}=1):\n    pass", "def f(*{e}):\n    pass", "def f(**{e}):\n    pass", "x = {{k: v for {e} in y}}",
             "{e}: int = 3", "{e}: int", "({e}, x) = y", "[{e}, *r] = y", "{e}.a = 1", "{e}[0] = 1", "del {e}.a", "del {e}[0]", "del ({e}, x)", "del [{e}]",
             "type {e} = int", "async def f():\n    async for {e} in y:\n        pass", "async def f():\n    async with a as {e}:\n        pass",
             "x = {e}", "f({e}={e})", "print(*{e})", "f(**{e})", "{e} -= {e}", "x = y = {e}", "{e} = {e} = 1", "for x in y:\n    pass\nelse:\n    del {e}",
             "with ({e} as a, b as {e}):\n    pass", "x = [a for a in b if ({e} := a)]", "while ({e} := f()):\n    pass", "return {e}", "yield {e}",
             "require always {e}", "terminate when {e}", "record {e} as {e}", "mutate {e}", "override {e} with x 1", "param {e} = 1", "model {e}"]
# contexts a template may be placed in (the compiler treats names differently inside each)
CONTEXTS = ["{t}", "{t}", "behavior B_():\n{T}\n    wait", "monitor M_():\n{T}\n    wait", "scenario S_():\n    setup:\n{TT}\n        ego = new Object",
            "scenario S_():\n    compose:\n{TT}\n        wait", "def f_():\n{T}", "class C_:\n{T}", "behavior B_():\n    try:\n{TT}\n        wait\n    interrupt when x:\n{TT}\n        wait",
            "behavior B_():\n    precondition: {e1}\n    wait", "if x:\n{T}"]
# every specifier form: after a bare name (a forgotten `new`) the parser must report a located error
SPECIFIERS = ["at p", "in r", "on r", "contained in r", "offset by v", "offset along d by v", "left of p", "right of p by 1", "ahead of p", "behind p by 2",
              "above p", "below p by 1", "beyond p by v", "beyond p by v from q", "visible", "visible from p", "not visible", "not visible from p",
              "following f for 3", "following f from p for 3", "facing h", "facing toward p", "facing away from p", "facing directly toward p",
              "facing directly away from p", "apparently facing h", "apparently facing h from p", "with prop 3", "with behavior B", "at p, facing h"]
TAILS = ["(", "[", "{", '"""', "'''", "x = ", "\\", "if x:", "    ", "\t x", "new Object at", "def f(", 'f"{', 'f"{x!', "x = (1,\n", "class C:",
         "behavior B():", "require", "try:\n    pass\ninterrupt when", "\x00", "@", "lambda", "x = 1 if", "for x in", "    pass", ")"]


def mutate(src, rng):
    """One mutant of src; returns (kind, text)."""
    ops = ["del-char", "ins-tok", "rep-tok", "swap-tok", "del-line", "dup-line", "swap-line", "reindent", "truncate", "template",
           "tail", "del-tok", "join-lines", "ins-char"]
    k = rng.choice(ops)
    toks = re.findall(r"\s+|\w+|[^\w\s]", src)
    lines = src.split("\n")
    if k == "del-char" and src:
        i = rng.randrange(len(src)); n = rng.choice([1, 1, 1, 2, 5])
        return k, src[:i] + src[i + n:]
    if k == "ins-char":
        i = rng.randrange(len(src) + 1)
        return k, src[:i] + rng.choice("()[]{}:,.=\"'\\\t \n#@!") + src[i:]
    if k in ("ins-tok", "rep-tok", "del-tok", "swap-tok") and toks:
        i = rng.randrange(len(toks))
        if k == "ins-tok":
            toks.insert(i, " " + rng.choice(VOCAB) + " ")
        elif k == "rep-tok":
            toks[i] = rng.choice(VOCAB)
        elif k == "del-tok":
            del toks[i]
        else:
            j = min(len(toks) - 1, i + rng.choice([1, 2]))
            toks[i], toks[j] = toks[j], toks[i]
        return k, "".join(toks)
    if k in ("del-line", "dup-line", "swap-line", "reindent", "join-lines") and lines:
        i = rng.randrange(len(lines))
        if k == "del-line":
            del lines[i]
        elif k == "dup-line":
            lines.insert(i, lines[i])
        elif k == "swap-line" and len(lines) > 1:
            j = min(len(lines) - 1, i + 1)
            lines[i], lines[j] = lines[j], lines[i]
        elif k == "reindent":
            d = rng.choice([-4, -2, -1, 1, 2, 4, 8, "tab"])
            if d == "tab":
                lines[i] = "\t" + lines[i]
            elif d > 0:
                lines[i] = " " * d + lines[i]
            else:
                lines[i] = lines[i][min(-d, len(lines[i]) - len(lines[i].lstrip())):]
        elif k == "join-lines" and i + 1 < len(lines):
            lines[i] = lines[i] + " " + lines.pop(i + 1).lstrip()
        return k, "\n".join(lines)
    if k == "truncate" and src:
        return k, src[:rng.randrange(len(src))]
    if k == "template":
        pool = NAME_EXPRS if rng.random() < 0.4 else SCENIC_EXPRS
        t = rng.choice(TEMPLATES)
        while "{e}" in t:
            t = t.replace("{e}", rng.choice(pool), 1)
        t = t.replace("{{", "{").replace("}}", "}")
        ctx = rng.choice(CONTEXTS)

        def ind(txt, n):
            return "\n".join(" " * n + l for l in txt.split("\n"))
        t = ctx.replace("{t}", t).replace("{TT}", ind(t, 8)).replace("{T}", ind(t, 4)).replace("{e1}", t.split("\n")[0])
        i = rng.randrange(len(lines) + 1)
        ind0 = ""
        if i < len(lines) and rng.random() < 0.5:
            ind0 = lines[i][:len(lines[i]) - len(lines[i].lstrip())]
        return k, "\n".join(lines[:i] + [ind0 + l for l in t.split("\n")] + lines[i:])
    if k == "tail":
        return k, src.rstrip("\n") + rng.choice(["\n", "\n\n", " ", ""]) + rng.choice(TAILS) + rng.choice(["", "\n", "\n\n"])
    return "identity", src


class Timeout(BaseException):
    """Raised by the hang detector (BaseException: no `except Exception` of the code under test can swallow it)."""


class StopBeforeExec(BaseException):
    """Raised instead of executing the translated code: the whole real pipeline runs, nothing of the program does."""


BUDGET = 25                      # CPU seconds per input and route
_G = dict(armed=False, t0=0.0, budget=BUDGET)


def _alarm(signum, frame):
    # An alarm counts only while an input is armed AND that input really used its CPU budget: a signal of the previous
    # input delivered late, or one that fires inside the harness's own bookkeeping, is ignored.
    if _G["armed"] and time.process_time() - _G["t0"] >= 0.9 * _G["budget"]:
        _G["armed"] = False
        raise Timeout()


def _arm(budget):
    _G.update(armed=True, t0=time.process_time(), budget=budget)
    signal.setitimer(signal.ITIMER_VIRTUAL, budget)


def _disarm():
    _G["armed"] = False
    signal.setitimer(signal.ITIMER_VIRTUAL, 0)


def _chain(e):
    seen = []
    while e is not None and e not in seen and len(seen) < 20:
        seen.append(e)
        e = e.__cause__ or e.__context__
    return seen


def classify(e, nlines):
    from scenic.core.errors import ScenicSyntaxError
    import tokenize
    tb = traceback.extract_tb(e.__traceback__)
    fr = [f for f in tb if "/scenic/" in f.filename]
    info = dict(type=type(e).__name__, msg=str(e)[:160], func=fr[-1].name if fr else None,
                file=os.path.basename(fr[-1].filename) if fr else None)
    if any(isinstance(x, Timeout) for x in _chain(e)[1:]):
        info["timeout_in_chain"] = True          # the alarm struck and some handler turned it into another exception
    if isinstance(e, Timeout):
        info["outcome"] = "timeout"
    elif isinstance(e, ScenicSyntaxError) or isinstance(e, SyntaxError):
        ln = getattr(e, "lineno", None)
        info["lineno"] = ln
        info["offset"] = getattr(e, "offset", None)
        info["scenic"] = isinstance(e, ScenicSyntaxError)
        if ln is None:
            info["outcome"] = "syntax-error-without-line"
        elif not (isinstance(ln, int) and 1 <= ln <= nlines + 1):
            info["outcome"] = "syntax-error-line-out-of-range"
        else:
            info["outcome"] = "syntax-error"
    elif isinstance(e, tokenize.TokenError):
        info["outcome"] = "token-error"
    elif isinstance(e, RecursionError):
        info["outcome"] = "recursion-error"
    else:
        info["outcome"] = "crash"
    return info


def veneer_snapshot():
    import scenic.syntax.veneer as v
    import scenic.core.object_types as ot
    return dict(activity=v.activity, stack=len(v.scenarioStack), current=v.currentScenario is not None, mode2D=v.mode2D,
                classes=[v.Point is v._originalConstructibles[0], v.OrientedPoint is v._originalConstructibles[1],
                         v.Object is v._originalConstructibles[2], ot.Object is v._originalConstructibles[2]],
                locked=sorted(v.lockedParameters), lmodel=v.lockedModel, gparams=sorted(map(str, v._globalParameters)),
                scenarios=len(v.scenarios), simf=v.simulatorFactory is not None, evalReq=v.evaluatingRequirement,
                evalGuard=v.evaluatingGuard, sim=v.currentSimulation is not None)


def veneer_reset():
    import scenic.syntax.veneer as v
    import scenic.core.object_types as ot
    v.activity = 0
    v.scenarioStack.clear()
    v.currentScenario = None
    v.mode2D = False
    v.Point, v.OrientedPoint, v.Object = v._originalConstructibles
    ot.Point, ot.OrientedPoint, ot.Object = v._originalConstructibles
    v.lockedParameters = set()
    v.lockedModel = None
    v._globalParameters = {}
    v.scenarios = []
    v.simulatorFactory = None


_TMP = []
_REAL_EXEC = []


def _tmpdir():
    if _TMP and not os.path.isdir(_TMP[0]):
        _TMP.pop()
    if not _TMP:
        _TMP.append(tempfile.mkdtemp(prefix="verif-c10f-"))
    return _TMP[0]


def install_stop():
    """Replace translator.executeCodeIn: the translated code of the input is never run (only the one-line importer
    module the harness itself writes for the `import` route is)."""
    import scenic.syntax.translator as tr
    if _REAL_EXEC:
        return
    _REAL_EXEC.append(tr.executeCodeIn)

    def executeCodeIn(code, namespace):
        if os.path.basename(getattr(code, "co_filename", "")).startswith("c10top_"):
            return _REAL_EXEC[0](code, namespace)
        raise StopBeforeExec()
    tr.executeCodeIn = executeCodeIn


def run_route(route, data, uid, keep=None):
    """Run one input through one entry point of the front end.  data: str (routes ast/string) or bytes (file/import).
    ast    : parse_string -> compileScenicAST -> astToSource -> Python compile() of the translated module
    string : scenic.scenarioFromString            file : scenic.scenarioFromFile on a real file
    import : scenic.scenarioFromFile of a module that imports the input as a .scenic module
    Nothing of the input is executed (StopBeforeExec counts as accepted)."""
    import scenic
    import scenic.syntax.translator as tr
    from scenic.syntax.compiler import compileScenicAST
    from scenic.syntax.parser import parse_string
    text = data if isinstance(data, str) else data.decode("utf-8", "replace")
    nlines = len(text.split("\n"))
    cleanup = []
    if route == "ast":
        def run():
            tree = parse_string(data, "exec", filename="<mutant>")
            if keep is not None:
                keep.update(_tree_facts(tree))
            out, _ = compileScenicAST(tree, filename="<mutant>")
            getattr(tr, "astToSource", lambda t: None)(out)
            fn = getattr(tr, "compileTranslatedTree", None)
            fn(out, "<mutant>") if fn else compile(out, "<mutant>", "exec")
    elif route == "string":
        def run():
            scenic.scenarioFromString(data)
    else:
        d = _tmpdir()
        raw = data if isinstance(data, bytes) else data.encode("utf-8")
        if route == "file":
            path = os.path.join(d, f"c10m_{uid}.scenic")
            with open(path, "wb") as f:
                f.write(raw)
            cleanup.append(path)
        else:
            sub = os.path.join(d, f"c10sub_{uid}.scenic")
            path = os.path.join(d, f"c10top_{uid}.scenic")
            with open(sub, "wb") as f:
                f.write(raw)
            with open(path, "w") as f:
                f.write(f"import c10sub_{uid}\n")
            cleanup += [sub, path]
            import importlib
            importlib.invalidate_caches()

        def run():
            scenic.scenarioFromFile(path)
    before = veneer_snapshot() if route != "ast" else None
    t0 = time.process_time()
    try:
        _arm(BUDGET)
        try:
            run()
            res = dict(outcome="ok")
        except StopBeforeExec:
            _disarm()
            res = dict(outcome="ok")
        except BaseException as e:
            _disarm()
            if isinstance(e, (KeyboardInterrupt, SystemExit)):
                raise
            res = classify(e, nlines)
        finally:
            _disarm()
    except Timeout:                         # struck between the end of run() and _disarm()
        res = dict(outcome="timeout", type="Timeout", late=True)
    res["cpu_s"] = round(time.process_time() - t0, 2)
    res["route"] = route
    res["nlines"] = nlines
    if before is not None:
        after = veneer_snapshot()
        res["veneer_restored"] = before == after
        if before != after:
            res["veneer"] = dict(before=before, after=after)
            veneer_reset()
    for p in cleanup:
        try:
            os.unlink(p)
        except OSError:
            pass
    for m in [m for m in sys.modules if m.startswith("c10sub_")]:
        del sys.modules[m]
    return res


GOOD = ("ok", "syntax-error")


def front_end(text, routes, uid, raw=None):
    """All requested routes; the reported result is the first one that is neither accepted nor a located syntax error."""
    results = []
    for route in routes:
        data = raw if (raw is not None and route in ("file", "import")) else text
        if raw is not None and route in ("ast", "string"):
            continue
        results.append(run_route(route, data, uid))
    bad = [r for r in results if r["outcome"] not in GOOD or r.get("veneer_restored") is False]
    res = dict(bad[0] if bad else results[0])
    res["routes"] = [r["route"] + ":" + r["outcome"] for r in results]
    if any(r.get("veneer_restored") is False for r in results):
        res["veneer_restored"] = False
        res["veneer"] = next(r["veneer"] for r in results if r.get("veneer_restored") is False)
    elif any("veneer_restored" in r for r in results):
        res["veneer_restored"] = True
    return res


def plan_routes(kind, text, job, rng):
    """Which entry points an input goes through.  Every input: `ast` (incl. Python's compile()).  All truncation/tail mutants,
    every input whose error is reported on the last line or beyond, and a share of the rest also go through a REAL FILE
    (scenarioFromFile) with the trailing newline kept / removed / doubled; smaller shares through scenarioFromString and through
    the import of the input as a Scenic module."""
    routes = ["ast"]
    x = rng.random()
    if "truncate" in kind or "tail" in kind or x < 0.12:
        routes.append("file")
    elif x < 0.22:
        routes.append("string")
    elif x < 0.27:
        routes.append("import")
    return routes


def fuzz(req):
    signal.signal(signal.SIGVTALRM, _alarm)
    install_stop()
    out = []
    budget = req.get("cpu_budget")
    for job in req["jobs"]:
        if budget and time.process_time() > budget:
            out.append(dict(id=job["id"], outcome="skip-time-budget"))
            continue
        raw = None
        if "text" in job:
            kind, text = job.get("mutation", "given"), job["text"]
            routes = job.get("routes") or ["ast", "string", "file", "import"]
            if job.get("raw_hex"):
                raw = bytes.fromhex(job["raw_hex"])
                text = raw.decode("utf-8", "replace")
        else:
            src = open(job["path"], encoding="utf-8").read()
            rng = random.Random(job["seed"])
            kind, text = mutate(src, rng)
            for _ in range(job.get("extra", 0)):
                k2, text = mutate(text, rng)
                kind += "+" + k2
            routes = plan_routes(kind, text, job, rng)
            if "file" in routes or "import" in routes:
                v = rng.choice(["as-is", "as-is", "strip-newline", "add-newline", "crlf", "bad-utf8"])
                if v == "strip-newline":
                    text = text.rstrip("\n")
                elif v == "add-newline":
                    text = text + "\n"
                elif v == "crlf":
                    text = text.replace("\n", "\r\n")
                kind += "@" + v
        try:
            enc = text.encode("utf-8")
        except UnicodeEncodeError:
            out.append(dict(id=job["id"], outcome="skip-unencodable"))
            continue
        if "text" not in job and kind.endswith("@bad-utf8"):
            i = rng.randrange(len(enc) + 1)
            raw = enc[:i] + rng.choice([b"\xff", b"\xc3", b"\xe9x", b"\xf0\x9f"]) + enc[i:]
            try:
                raw.decode("utf-8")
                raw = None
            except UnicodeDecodeError:
                routes = [r for r in routes if r in ("file", "import")]
                text = raw.decode("utf-8", "replace")
        r = front_end(text, routes, job["id"], raw=raw)
        if r["outcome"] == "syntax-error" and r["route"] in ("ast", "string") and "file" not in routes and raw is None \
                and isinstance(r.get("lineno"), int) and r["lineno"] >= r["nlines"] - 1:
            # error reported on the last line or past the end of the input: also as a real file (the error text is read back from it)
            r2 = run_route("file", text, job["id"])
            r["routes"].append("file:" + r2["outcome"])
            if r2["outcome"] not in GOOD or r2.get("veneer_restored") is False:
                r2["routes"] = r["routes"]
                r = r2
        r.update(id=job["id"], mutation=kind, sha=hashlib.sha256(raw if raw is not None else enc).hexdigest()[:12])
        if r["outcome"] not in GOOD or r.get("veneer_restored") is False:
            r["text"] = text
            if raw is not None:
                r["raw_hex"] = raw.hex()
        out.append(r)
    if _TMP:
        import shutil
        shutil.rmtree(_TMP.pop(), ignore_errors=True)
    return out


# ----------------------------------------------------------------------------- exception injection
class Injected(Exception):
    pass


def inject(req):
    import contextlib
    import scenic
    import scenic.syntax.translator as tr
    import scenic.syntax.veneer as v
    d = tempfile.mkdtemp(prefix="verif-c10-")
    open(os.path.join(d, "helper.scenic"), "w").write("hparam = 3\nhobj = new Object at (10, 10)\n")
    open(os.path.join(d, "top.scenic"), "w").write("param q = 4\nimport helper\nego = new Object\n")
    open(os.path.join(d, "flat.scenic"), "w").write("ego = new Object\nparam q = 4\n")
    out = []

    def nth(k, orig):
        cnt = [0]

        def f(*a, **kw):
            cnt[0] += 1
            if cnt[0] == k:
                raise Injected("injected")
            return orig(*a, **kw)
        return f

    for case in req["cases"]:
        point, level, params, mode2D = case["point"], case["level"], case.get("params", {}), case.get("mode2D", False)
        k = level + 1           # the (level+1)-th call of the patched function belongs to the module at that nesting level
        veneer_reset()
        before = veneer_snapshot()
        patches = []
        try:
            if point == "RNamespace":
                @contextlib.contextmanager
                def bad(path=None):
                    raise Injected("injected")
                    yield
                patches.append((tr, "topLevelNamespace", tr.topLevelNamespace)); tr.topLevelNamespace = bad
            elif point == "RActEntry":
                orig = v.activate
                patches.append((v, "activate", orig)); v.activate = nth(k, orig)
            elif point == "RActAfterIncr":
                orig = v.DynamicScenario._dummy
                patches.append((v.DynamicScenario, "_dummy", orig)); v.DynamicScenario._dummy = nth(k, orig)
            elif point == "RPreamble":
                # the preamble is a source string: the k-th compile() of it raises
                orig = tr.preamble
                patches.append((tr, "preamble", orig))
                if k == 1:
                    tr.preamble = "raise __import__('impl_c10').Injected('injected')\n"
                else:
                    tr.preamble = orig + "\nimport impl_c10 as _v\n_v._pre = getattr(_v, '_pre', 0) + 1\nif _v._pre == %d:\n    raise _v.Injected('injected')\n" % k
                    sys.modules["impl_c10"]._pre = 0
            else:
                name = dict(RParse="parse_string", RCompile="compileScenicAST", RExec="executeCodeIn", RStore="storeScenarioStateIn",
                            RConstruct="constructScenarioFrom")[point]
                orig = getattr(tr, name)
                patches.append((tr, name, orig)); setattr(tr, name, nth(k, orig))
            exc = None
            try:
                scenic.scenarioFromFile(os.path.join(d, "top.scenic" if case.get("nested", True) else "flat.scenic"),
                                        params=params, mode2D=mode2D)
            except BaseException as e:
                if isinstance(e, (KeyboardInterrupt, SystemExit)):
                    raise
                exc = type(e).__name__
        finally:
            for obj, name, orig in reversed(patches):
                setattr(obj, name, orig)
        after = veneer_snapshot()
        out.append(dict(case=case, exception=exc, restored=before == after, after=after, is_active=v.isActive()))
        veneer_reset()
    return out


# ----------------------------------------------------------------------------- docs samples
def doc_samples(repo):
    res = []
    for name in ("statements", "operators", "specifiers"):
        p = os.path.join(repo, "docs", "reference", name + ".rst")
        lines = open(p, encoding="utf-8").read().split("\n")
        i = 0
        while i < len(lines):
            l = lines[i]
            if re.match(r"\s*\.\. code-block:: *(scenic|python)?\s*$", l) or (l.rstrip().endswith("::") and not l.strip().startswith("..")):
                base = len(l) - len(l.lstrip())
                j = i + 1
                block = []
                while j < len(lines) and (not lines[j].strip() or len(lines[j]) - len(lines[j].lstrip()) > base):
                    block.append(lines[j]); j += 1
                block = [b for b in block if not re.match(r"\s*:\w+:", b)]
                while block and not block[0].strip():
                    block.pop(0)
                while block and not block[-1].strip():
                    block.pop()
                if block:
                    ind = min(len(b) - len(b.lstrip()) for b in block if b.strip())
                    res.append(dict(file=name, line=i + 1, text="\n".join(b[ind:] for b in block) + "\n"))
                i = j
            else:
                # section titles of the reference are grammar forms: instantiate the simple ones (no alternatives / options)
                if i + 1 < len(lines) and re.match(r"^-{4,}\s*$", lines[i + 1]) and name in ("operators", "specifiers") \
                        and re.match(r"^[a-z][A-Za-z *]*$", l.strip()) and "*" in l:
                    form = re.sub(r"\*([A-Za-z ]+?)\*", lambda m: m.group(1).replace(" ", "_") + "_v", l.strip())
                    text = ("ego = new Object\nx = " + form + "\n") if name == "operators" else ("ego = new Object\nnew Object " + form + "\n")
                    res.append(dict(file=name, line=i + 1, text=text, form=True))
                i += 1
    return res


def docs(req):
    signal.signal(signal.SIGVTALRM, _alarm)
    out = []
    for s_ in doc_samples(os.environ.get("VERIF_REPO", "/repo")):
        r = front_end(s_["text"], ["ast"], "doc")
        out.append(dict(file=s_["file"], line=s_["line"], sha=hashlib.sha256(s_["text"].encode()).hexdigest()[:12],
                        outcome=r["outcome"], msg=r.get("msg"), text=s_["text"]))
    return out



# ----------------------------------------------------------------------------- sentence / composition jobs (round 3)
def _tree_facts(tree):
    """location-free dump of a parsed module, class name of the value of its LAST statement and of that node's direct children"""
    import ast
    last = tree.body[-1] if tree.body else tree
    while getattr(last, "body", None) and isinstance(last.body, list) and type(last).__name__ in ("BehaviorDef", "FunctionDef", "ClassDef", "If", "TryInterrupt"):
        last = last.body[0] if type(last).__name__ in ("If",) else last.body[-1]
    node = getattr(last, "value", None) or getattr(last, "cond", None) or last
    kids = [type(k).__name__ for k in ast.iter_child_nodes(node) if not isinstance(k, (ast.expr_context, ast.operator, ast.unaryop, ast.cmpop, ast.boolop))]
    return dict(dump=ast.dump(tree), root=type(node).__name__, kids=kids)


def sent(req):
    """jobs: dict(id, text[, full]).  `text` goes through the `ast` route (parse + compile + Python compile()); when `full` (the same
    tree written with every operator child parenthesised) is given, it is parsed too and the location-free dumps are compared."""
    signal.signal(signal.SIGVTALRM, _alarm)
    install_stop()
    return [_one_sentence(job) for job in req["jobs"]]


def _one_sentence(job):
    from scenic.syntax.parser import parse_string
    if True:
        keep = {} if "full" in job else None
        r = run_route("ast", job["text"], job["id"], keep=keep)
        res = dict(id=job["id"], outcome=r["outcome"], type=r.get("type"), msg=r.get("msg"), func=r.get("func"), file=r.get("file"),
                   lineno=r.get("lineno"), offset=r.get("offset"), nlines=r.get("nlines"), route="ast", cpu_s=r.get("cpu_s"))
        if "full" in job:
            if job["full"] == job["text"]:
                full = keep if "dump" in keep else None
                res["full_outcome"] = "ok" if full else r["outcome"]
            else:
                try:
                    full = _tree_facts(parse_string(job["full"], "exec", filename="<sentence>"))
                    res["full_outcome"] = "ok"
                except BaseException as e:
                    if isinstance(e, (KeyboardInterrupt, SystemExit)):
                        raise
                    res.update(full_outcome=classify(e, job["full"].count("\n") + 1)["outcome"], full_msg=str(e)[:160])
                    full = None
            if full:
                res.update(root=full["root"], kids=full["kids"])
                if "dump" in keep:
                    res["same_tree"] = keep["dump"] == full["dump"]
                    if not res["same_tree"]:
                        res["dump_min"], res["dump_full"] = keep["dump"][:1500], full["dump"][:1500]
        return res


# ----------------------------------------------------------------------------- error-reporting alternatives (round 3)
def _error_alt_lines():
    """(function name, k) for the k-th alternative of every rule method of the generated parser, keyed by the line of the `return`
    that is executed when that alternative matched; read off the generated parser's own source with ast."""
    import ast
    import scenic.syntax.parser as P
    src = open(P.__file__, encoding="utf-8").read()
    tree = ast.parse(src)
    lines, counts = {}, {}
    cls = next(n for n in tree.body if isinstance(n, ast.ClassDef) and n.name == "ScenicParser")
    for fn in cls.body:
        if not isinstance(fn, ast.FunctionDef):
            continue
        k = 0
        for st in fn.body:
            if isinstance(st, ast.If) and st.body and isinstance(st.body[-1], ast.Return):
                lines[st.body[-1].lineno] = (fn.name, k)
                k += 1
        counts[fn.name] = k
    return P.__file__, lines, counts


def invalid(req):
    """jobs: dict(id, text, target=[rule, alt]).  Every text goes through the `ast` route and, when it is rejected, also through
    scenarioFromString; which error-reporting alternatives' ACTIONS ran is recorded (sys.monitoring LINE events on the rule methods
    named in req['rules'] only; sys.settrace before 3.12)."""
    signal.signal(signal.SIGVTALRM, _alarm)
    install_stop()
    import scenic.syntax.parser as P
    pfile, lines, counts = _error_alt_lines()
    want = set(req["rules"])
    hit = {}
    cur = [None]

    def on_line(code, line):
        key = lines.get(line)
        if key is not None and key[0] == code.co_name:
            hit.setdefault("%s:%d" % key, cur[0])
    mon = getattr(sys, "monitoring", None)
    funcs = []
    for n in want:
        f = getattr(P.ScenicParser, n, None)
        while f is not None and hasattr(f, "__wrapped__"):
            f = f.__wrapped__
        if f is not None:
            funcs.append(f.__code__)
    if mon is not None:
        tid = 3
        try:
            mon.use_tool_id(tid, "c10-invalid")
        except ValueError:
            pass
        mon.register_callback(tid, mon.events.LINE, on_line)
        for c in funcs:
            mon.set_local_events(tid, c, mon.events.LINE)
    else:
        names = {c.co_name for c in funcs}

        def tracer(frame, event, arg):
            if event == "call" and frame.f_code.co_filename == pfile and frame.f_code.co_name in names:
                def local(fr, ev, a):
                    if ev == "line":
                        on_line(fr.f_code, fr.f_lineno)
                    return local
                return local
            return None
        sys.settrace(tracer)
    out = []
    try:
        for job in req["jobs"]:
            cur[0] = job["id"]
            before = set(hit)
            if "target" not in job:
                out.append(_one_sentence(job))
                continue
            r = front_end(job["text"], ["ast"], job["id"])
            if r["outcome"] == "syntax-error" and job.get("string"):
                r2 = run_route("string", job["text"], job["id"])
                if r2["outcome"] not in GOOD or r2.get("veneer_restored") is False:
                    r = dict(r2, routes=r.get("routes", []) + ["string:" + r2["outcome"]])
            res = dict(id=job["id"], outcome=r["outcome"], type=r.get("type"), msg=r.get("msg"), func=r.get("func"), file=r.get("file"),
                       lineno=r.get("lineno"), nlines=r.get("nlines"), route=r.get("route"), routes=r.get("routes"), cpu_s=r.get("cpu_s"),
                       reached=sorted(set(hit) - before))
            if "veneer_restored" in r:
                res["veneer_restored"] = r["veneer_restored"]
                res["veneer"] = r.get("veneer")
            out.append(res)
    finally:
        if mon is not None:
            for c in funcs:
                mon.set_local_events(tid, c, 0)
            mon.free_tool_id(tid)
        else:
            sys.settrace(None)
    return dict(results=out, reached=hit, alt_counts={n: counts.get(n) for n in want})


def main():
    req = json.load(sys.stdin)
    k = req["kind"]
    res = dict(fuzz=fuzz, inject=inject, docs=docs, sent=sent, invalid=invalid)[k](req)
    print(json.dumps(res if isinstance(res, dict) else dict(results=res)))


if __name__ == "__main__":
    sys.modules.setdefault("impl_c10", sys.modules["__main__"])
    main()
