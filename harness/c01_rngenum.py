"""Exact enumeration of the outcomes of Python's RNG (shared by C01 and C19).

Scenic calls the generator as module attributes (`random.randint(...)`, `random.choices(...)`,
`random.random()`), so they can be replaced from outside.  An Oracle replays a prefix of branch
numbers and takes the first possible branch afterwards; `enumerate_runs` re-runs a function once
per path, depth first, and returns for every path of positive probability the log of RNG calls,
the exact probability (a Fraction) and the function's result.  Anything the oracle cannot give
an exact finite law to (gauss, continuous uniform, numpy samplers ...) raises Unsupported:
fail-closed."""
import random
from fractions import Fraction


class Unsupported(Exception):
    pass


class TooManyPaths(Exception):
    pass


def qstr(x):
    x = Fraction(x)
    return f"{x.numerator}/{x.denominator}"


class LazyUniform(float):
    """Result of random.random(): ONE exact uniform real U on [0,1) that can only be compared with
    thresholds.  The object remembers the interval [lo, hi) U is known to lie in: the first
    comparison forks with P(U <= p) = P(U < p) = p clipped to [0,1]; every later comparison of the
    SAME draw is answered consistently (decided by the interval, or a fork with the conditional
    probability (p - lo)/(hi - lo)), so that two tests sharing one draw are perfectly correlated,
    exactly as with a real float.  The call is logged at the position of the random() call itself
    (`B,?` until it is first compared, then `B,p,k`); later comparisons of the same draw are logged
    as `B+,p,k`.  It is a float (so that Scenic can record it in a replay log) but refuses
    arithmetic."""

    def __new__(cls, oracle):
        self = super().__new__(cls, 0.5)
        self._o = oracle
        self._lo, self._hi = Fraction(0), Fraction(1)
        self._slot = oracle.reserve("B,?")
        self._compared = False
        return self

    def _bern(self, p, truth_on_below):
        p = Fraction(p)
        if not self._compared:
            self._compared = True
            pc = min(max(p, Fraction(0)), Fraction(1))
            k = self._o.fork("B," + qstr(p), [pc, 1 - pc], slot=self._slot)
        elif p >= self._hi:
            k = self._o.fork("B+," + qstr(p), [Fraction(1), Fraction(0)])
        elif p <= self._lo:
            k = self._o.fork("B+," + qstr(p), [Fraction(0), Fraction(1)])
        else:
            w = self._hi - self._lo
            k = self._o.fork("B+," + qstr(p), [(p - self._lo) / w, (self._hi - p) / w])
        below = k == 0
        pc = min(max(p, Fraction(0)), Fraction(1))
        if below:
            self._hi = min(self._hi, pc)
        else:
            self._lo = max(self._lo, pc)
        return below if truth_on_below else not below

    def __le__(self, p):
        return self._bern(p, True)

    def __lt__(self, p):
        return self._bern(p, True)

    def __ge__(self, p):
        return self._bern(p, False)

    def __gt__(self, p):
        return self._bern(p, False)

    def _no(self, *a):
        raise Unsupported("random.random() used as a number")

    __add__ = __radd__ = __sub__ = __rsub__ = __mul__ = __rmul__ = __truediv__ = __rtruediv__ = _no
    __floordiv__ = __mod__ = __pow__ = __neg__ = __abs__ = __int__ = __round__ = __eq__ = __ne__ = _no
    __hash__ = float.__hash__

    def __repr__(self):
        return "<U[0,1)>"


class Oracle:
    def __init__(self, prefix):
        self.prefix = list(prefix)
        self.pos = 0
        self.path = []      # branch taken at every call
        self.alts = []      # remaining later branches of positive probability at every call
        self.log = []
        self.prob = Fraction(1)

    def reserve(self, placeholder):
        """a log entry for an RNG call whose outcome is decided later (at its first comparison)"""
        self.log.append(placeholder)
        return len(self.log) - 1

    def fork(self, label, probs, slot=None):
        possible = [i for i, p in enumerate(probs) if p > 0]
        if not possible:
            raise Unsupported("RNG call with no possible outcome: " + label)
        if self.pos < len(self.prefix):
            k = self.prefix[self.pos]
            if k not in possible:
                raise Unsupported("replayed branch impossible (non-deterministic program?)")
        else:
            k = possible[0]
        self.pos += 1
        self.path.append(k)
        self.alts.append([i for i in possible if i > k])
        self.prob *= probs[k]
        if slot is None:
            self.log.append(f"{label},{k}")
        else:
            self.log[slot] = f"{label},{k}"
        return k


_current = [None]


def _o():
    if _current[0] is None:
        raise Unsupported("RNG used outside an enumeration")
    return _current[0]


def _random():
    return LazyUniform(_o())


def _uniform(a, b):
    if (a, b) == (0, 1):
        return LazyUniform(_o())
    raise Unsupported(f"random.uniform({a}, {b}): continuous")


def _randint(a, b):
    if int(a) != a or int(b) != b:
        raise Unsupported("randint with non-integer bounds")
    a, b = int(a), int(b)
    if b < a:
        raise ValueError("empty range for randint")
    n = b - a + 1
    k = _o().fork(f"I,{a},{b}", [Fraction(1, n)] * n)
    return a + k


def _randrange(start, stop=None, step=1):
    if stop is None:
        start, stop = 0, start
    if step != 1:
        raise Unsupported("randrange with step")
    n = stop - start
    k = _o().fork(f"N,{n}", [Fraction(1, n)] * n)
    return start + k


def _choice(seq):
    n = len(seq)
    k = _o().fork(f"N,{n}", [Fraction(1, n)] * n)
    return seq[k]


def _choices(population, weights=None, *, cum_weights=None, k=1):
    if k != 1:
        raise Unsupported("choices with k != 1")
    population = list(population)
    if cum_weights is None:
        if weights is None:
            weights = [1] * len(population)
        cum, acc = [], 0
        for w in weights:          # itertools.accumulate, in the arithmetic of the weights' type
            acc = acc + w
            cum.append(acc)
    else:
        cum = list(cum_weights)
    if len(cum) != len(population):
        raise ValueError("The number of weights does not match the population")
    cumq = [Fraction(c) for c in cum]
    total = cumq[-1]
    if total <= 0:
        raise ValueError("Total of weights must be greater than zero")
    probs, prev = [], Fraction(0)
    for c in cumq:                 # bisect(cum, u*total): index i iff cum[i-1] <= u*total < cum[i]
        probs.append(max(c - prev, Fraction(0)) / total)
        prev = max(prev, c)
    i = _o().fork("C," + ":".join(qstr(c) for c in cumq), probs)
    return [population[i]]


def _unsupported(name):
    def f(*a, **k):
        raise Unsupported("random." + name)
    return f


PATCH = dict(random=_random, uniform=_uniform, randint=_randint, randrange=_randrange, choice=_choice,
             choices=_choices)
FORBID = ["gauss", "normalvariate", "triangular", "shuffle", "sample", "betavariate", "expovariate",
          "gammavariate", "lognormvariate", "vonmisesvariate", "paretovariate", "weibullvariate",
          "getrandbits", "randbytes"]
NP_FORBID = ["random", "rand", "randn", "uniform", "normal", "randint", "choice", "random_sample", "shuffle",
             "permutation", "standard_normal"]


class installed:
    """Context manager: patch the random module (and forbid numpy's samplers)."""

    def __enter__(self):
        import numpy
        self.saved = {n: getattr(random, n) for n in list(PATCH) + FORBID}
        self.np_saved = {n: getattr(numpy.random, n) for n in NP_FORBID if hasattr(numpy.random, n)}
        for n, f in PATCH.items():
            setattr(random, n, f)
        for n in FORBID:
            setattr(random, n, _unsupported(n))
        for n in self.np_saved:
            setattr(numpy.random, n, _unsupported("numpy." + n))
        return self

    def __exit__(self, *exc):
        import numpy
        for n, f in self.saved.items():
            setattr(random, n, f)
        for n, f in self.np_saved.items():
            setattr(numpy.random, n, f)
        _current[0] = None
        return False


def enumerate_runs(fn, max_paths=20000):
    """Run fn() once per RNG path.  Returns [(log(list of str), prob(Fraction), result)]."""
    out = []
    prefix = []
    with installed():
        while True:
            o = Oracle(prefix)
            _current[0] = o
            res = fn()
            _current[0] = None
            out.append((o.log, o.prob, res))
            if len(out) > max_paths:
                raise TooManyPaths(len(out))
            # backtrack: last call with a later possible branch
            i = len(o.path) - 1
            while i >= 0 and not o.alts[i]:
                i -= 1
            if i < 0:
                break
            prefix = o.path[:i] + [o.alts[i][0]]
    return out
