"""C06 runtime support, imported *inside* a Scenic program compiled from $VERIF_REPO (see impl_c06.py).

The generated Scenic program defines one function per specifier instance, `def i_k(): return new Object <spec>`,
after rebinding the global name `new` (which compiled Scenic code calls) to `capture`, so that calling
i_k() evaluates the real specifier syntax and returns the fresh Specifier object(s).  A case is then
created with the real `new(cls, [spec, ...])`.  Observations:
  * evaluation order: Specifier.getValuesFor is wrapped to log which specifier is evaluated;
  * which specifier specified / modified each property: Constructible._specify is wrapped to log
    (specifier being evaluated, property);
  * the exception class/message when creation fails, and whether evaluation had started.
"""
import json
import re
import sys

INST = {}      # instance id -> thunk returning [Specifier]
CLASSES = {}   # class name -> class
JOBS = None    # set by impl_c06 before compilation
RESULT = None


class Done(Exception):
    pass


_pub = None    # list of tags logged through public syntax (rt.note in default expressions, rt.lazy specifier values)
_pubvals = None  # round 3: [tag, fingerprint of the value the expression saw/produced] in the same order


def fp(v, depth=0):
    """Structural fingerprint of a property value: exact for concrete values, 'dist' for anything random."""
    try:
        from scenic.core.distributions import needsSampling
        from scenic.core.lazy_eval import needsLazyEvaluation
        from scenic.core.vectors import Vector, Orientation
        if v is None or isinstance(v, (bool, str)):
            return repr(v)
        if isinstance(v, (int, float)):
            return repr(round(float(v), 9) + 0.0)
        if isinstance(v, (tuple, list)) and not isinstance(v, Vector):
            return "(" + ",".join(fp(x, depth + 1) for x in v) + ")" if depth < 3 else "(...)"
        if needsSampling(v) or needsLazyEvaluation(v):
            return "dist"
        if isinstance(v, Vector):
            return "V(" + ",".join(repr(round(float(x), 6) + 0.0) for x in v) + ")"
        if isinstance(v, Orientation):
            return "O(" + ",".join(repr(round(float(x), 6) + 0.0) for x in (v.yaw, v.pitch, v.roll)) + ")"
        return "<" + type(v).__name__ + ">"
    except Exception as e:  # noqa
        return "<?" + type(e).__name__ + ">"


def note(tag, value):
    """Called from the default-value expressions of the catalogue's user classes."""
    if _pub is not None:
        _pub.append(tag)
        if _pubvals is not None:
            _pubvals.append([tag, fp(value)])
    return value


def lazy(tag, value):
    """A specifier value that logs when it is evaluated (a DelayedArgument without dependencies)."""
    from scenic.core.lazy_eval import DelayedArgument

    def evaluate(context):
        if _pub is not None:
            _pub.append(tag)
            if _pubvals is not None:
                _pubvals.append([tag, fp(value)])
        return value

    return DelayedArgument(set(), evaluate)


HOOKS = dict(order=False, assign=False)


def capture(cls, specifiers):
    return list(specifiers)


_cur = []       # stack of labels of specifiers being evaluated
_log = None     # dict(order=[], assign=[])
_labels = {}    # id(spec) -> label


def _install():
    import scenic.core.specifiers as S
    import scenic.core.object_types as OT

    if getattr(S.Specifier, "_verif_wrapped", False):
        return
    # The two internal observation points are optional: when a refactoring renames them the check goes on with what
    # public syntax shows (error class, success, rt.note / rt.lazy logs) instead of raising a false alarm.
    orig_get = getattr(S.Specifier, "getValuesFor", None)
    sp = OT.Constructible.__dict__.get("_specify")
    if orig_get is None or not isinstance(sp, classmethod):
        S.Specifier._verif_wrapped = True
        return
    HOOKS["order"] = HOOKS["assign"] = True

    def getValuesFor(self, obj):
        lab = _labels.get(id(self))
        if lab is None:
            lab = "default:" + ",".join(self.priorities) if self.name == "PropertyDefault" else "?" + self.name
        if _log is not None:
            _log["order"].append(lab)
        _cur.append(lab)
        try:
            return orig_get(self, obj)
        finally:
            _cur.pop()
            _last[0] = lab

    S.Specifier.getValuesFor = getValuesFor
    S.Specifier._verif_wrapped = True

    orig_specify = OT.Constructible.__dict__["_specify"].__func__

    def _specify(cls, context, prop, value):
        if _log is not None:
            _log["assign"].append([_last[0], prop])
        return orig_specify(cls, context, prop, value)

    OT.Constructible._specify = classmethod(_specify)


_last = [None]

KINDS = [
    (r"to modify itself", "ESelfModify"),
    (r"specified twice with the same priority", "EAmbiguous"),
    (r"cannot be directly specified", "EFinal"),
    (r"modified twice", "EModifiedTwice"),
    (r"depends on itself", "ECycle"),
    (r"is not specified", "EMissingDep"),
]


def describe(spec):
    import scenic.core.specifiers as S

    return dict(
        name=spec.name,
        prios=[[p, int(k)] for p, k in spec.priorities.items()],
        deps=list(spec.requiredProperties),
        mod=isinstance(spec, S.ModifyingSpecifier),
        modifiable=sorted(getattr(spec, "modifiable_props", []) or []),
    )


def class_info(cls, OT=None):
    """What the class contributes to resolution (cls._defaults, _finalProperties) and the raw
    per-class definitions along the MRO (for the merge_defaults model)."""
    import scenic.core.specifiers as S
    if OT is None:
        import scenic.core.object_types as OT

    defaults = [[p, describe(s)] for p, s in cls._defaults.items()]
    mro = []
    for sc in cls.__mro__:
        if isinstance(sc, type) and issubclass(sc, OT.Constructible) and hasattr(sc, "_scenic_properties"):
            props = []
            for p, v in sc._scenic_properties.items():
                d = S.PropertyDefault.forValue(v)
                props.append([p, dict(deps=sorted(d.requiredProperties), additive=bool(d.isAdditive),
                                      dynamic=bool(d.isDynamic), final=bool(d.isFinal))])
            mro.append([sc.__name__, props])
    return dict(defaults=defaults, finals=sorted(cls._finalProperties), mro=mro,
                dynamics=sorted(cls._dynamicProperties))


def tolerant_import():
    """scenic.core.object_types, even when a class statement further down the module fails (a defect in
    __init_subclass__/resolveFor can make Scenic's own 2D classes unloadable): the partially executed module still
    has Constructible and the classes defined before the failure.  -> (module, error or None)"""
    import importlib
    import importlib.util
    try:
        return importlib.import_module("scenic.core.object_types"), None
    except Exception as e:  # noqa
        err = f"{type(e).__name__}: {str(e)[:200]}"
    name = "scenic.core.object_types"
    spec = importlib.util.find_spec(name)
    mod = importlib.util.module_from_spec(spec)
    sys.modules[name] = mod
    try:
        spec.loader.exec_module(mod)
    except Exception:  # noqa
        pass
    finally:
        sys.modules.pop(name, None)
    return mod, err


def merge_cases(hiers):
    """Class-level merging of defaults on its own (no Scenic program is compiled): Scenic's built-in classes as far
    as they load, plus generated class hierarchies created with type(name, bases, {'_scenic_properties': ...}).
    hiers: [[ [name, [base names], [[prop, [deps], additive, dynamic, final], ...]], ... ], ...]"""
    OT, import_error = tolerant_import()
    import scenic.core.specifiers as S
    out = dict(import_error=import_error, builtin={}, hiers=[])
    for name, obj in list(vars(OT).items()):
        if isinstance(obj, type) and hasattr(OT, "Constructible") and issubclass(obj, OT.Constructible) \
                and obj.__module__ == "scenic.core.object_types" and "_defaults" in obj.__dict__:
            try:
                out["builtin"][name] = class_info(obj, OT)
            except Exception as e:  # noqa
                out["builtin"][name] = dict(error=f"{type(e).__name__}: {e}")
    for hier in hiers:
        real, shadow, res = {}, {}, []
        for name, bases, props in hier:
            shadow[name] = type(name, tuple(shadow[b] for b in bases) or (object,), {})
            mro_names = [c.__name__ for c in shadow[name].__mro__ if c is not object]
            d = {}
            for p, deps, add, dyn, fin in props:
                attrs = set(a for a, on in (("additive", add), ("dynamic", dyn), ("final", fin)) if on)
                d[p] = S.PropertyDefault(tuple(deps), attrs, (lambda self: 0)) if (deps or attrs or len(p) % 2) else 0
            rec = dict(name=name, mro=mro_names)
            if any(b not in real for b in bases):
                rec["skipped"] = "a base class could not be created"
                res.append(rec)
                continue
            try:
                cls = type(name, tuple(real[b] for b in bases) or (OT.Constructible,), {"_scenic_properties": d})
                real[name] = cls
                rec["info"] = class_info(cls, OT)
            except Exception as e:  # noqa
                rec["error"] = type(e).__name__
                rec["msg"] = str(e)[:200]
            res.append(rec)
        out["hiers"].append(res)
    return out


def run_case(cls, inst_ids):
    """Create one object from the given instances in the given order; return the observation."""
    global _log, _pub, _pubvals
    import scenic.syntax.veneer as veneer
    from scenic.core.errors import SpecifierError

    specs, table = [], {}
    _labels.clear()
    try:
        for k in inst_ids:
            got = INST[k]()
            if len(got) != 1:
                return dict(stage="construct", exc="NotOneSpecifier", msg=str(len(got)))
            _labels[id(got[0])] = k
            table[k] = describe(got[0])
            specs.append(got[0])
    except Exception as e:
        return dict(stage="construct", exc=type(e).__name__, msg=str(e)[:200])
    _log = dict(order=[], assign=[])
    _last[0] = None
    obs = dict(table=table)
    _pub = []
    _pubvals = []
    try:
        obj = veneer.new(cls, specs)
        obs.update(stage="ok", props=sorted(obj.properties))
        obs["vals"] = {p: fp(getattr(obj, p, None)) for p in sorted(obj.properties) if not p.startswith("_")}
    except Exception as e:
        started = bool(_log["order"]) or bool(_pub)
        kind = None
        if isinstance(e, SpecifierError):
            for rx, k in KINDS:
                if re.search(rx, str(e)):
                    kind = k
                    break
        obs.update(stage="eval" if started else "resolve", exc=type(e).__name__, msg=str(e)[:200], kind=kind,
                   is_specifier_error=isinstance(e, SpecifierError))
    obs["order"] = _log["order"]
    obs["assign"] = _log["assign"]
    obs["pub"] = _pub
    obs["pubvals"] = _pubvals
    obs["hooks"] = HOOKS["order"] and HOOKS["assign"]
    _pub = None
    _pubvals = None
    _log = None
    _labels.clear()
    return obs


def main():
    """Called at the end of the generated Scenic program."""
    global RESULT
    _install()
    out = dict(classes={}, table={}, cases=[], hooks=dict(HOOKS))
    for name, cls in CLASSES.items():
        try:
            out["classes"][name] = class_info(cls)
        except Exception as e:  # class could not be introspected
            out["classes"][name] = dict(error=f"{type(e).__name__}: {e}")
    for k, thunk in INST.items():
        try:
            got = thunk()
            out["table"][k] = [describe(s) for s in got]
        except Exception as e:
            out["table"][k] = dict(error=f"{type(e).__name__}: {str(e)[:160]}")
    for job in JOBS or []:
        cls = CLASSES[job["cls"]]
        out["cases"].append(run_case(cls, job["insts"]))
    RESULT = out
    raise Done()
