"""Launcher behind ./check: runs harness/<id>.py, streams its output, and guarantees the interface:
exit 0, or exit 1 with at least one `VIOLATION property=<id> replay=<path>` line.  If the harness itself
dies (exception, timeout), that is reported as a violation with no failing input (the property is no
longer shown to hold) and a replay file naming what broke; a minimal evidence file is written if the
harness did not get that far."""
import json
import os
import subprocess
import sys
import time

V = os.path.dirname(os.path.dirname(os.path.abspath(__file__)))


def main():
    pid = sys.argv[1]
    args = sys.argv[2:]
    script = os.path.join(V, "harness", pid.lower() + ".py")
    t0 = time.time()
    ev = os.path.join(V, "evidence", pid + os.environ.get("VERIF_EVID_SUFFIX", "") + ".json")
    before = os.path.getmtime(ev) if os.path.exists(ev) else None
    p = subprocess.Popen(["/venv/bin/python", script] + args, cwd=V, stdout=subprocess.PIPE, stderr=subprocess.STDOUT, text=True)
    saw_violation = False
    tail = []
    for line in p.stdout:
        sys.stdout.write(line)
        sys.stdout.flush()
        if line.startswith("VIOLATION property="):
            saw_violation = True
        tail.append(line)
        tail = tail[-60:]
    rc = p.wait()
    if rc == 0 and not saw_violation:
        sys.exit(0)
    if rc == 1 and saw_violation:
        sys.exit(1)
    if rc == 0 and saw_violation:
        sys.exit(1)
    # the harness died
    os.makedirs(os.path.join(V, "replays"), exist_ok=True)
    rp = os.path.join(V, "replays", f"{pid}-harness-died-{int(t0)}.json")
    tier = "thorough" if "thorough" in " ".join(args) else os.environ.get("VERIF_TIER", "quick")
    json.dump(dict(property=pid, kind="harness-died", what="the check's own machinery failed before reaching a verdict: the correspondence between model and implementation is no longer checked",
                   exit_code=rc, output_tail="".join(tail)), open(rp, "w"), indent=1)
    print(f"VIOLATION property={pid} replay={rp} no-failing-input-found")
    after = os.path.getmtime(ev) if os.path.exists(ev) else None
    if after == before:
        level = "other"
        try:
            level = json.load(open(os.path.join(V, "manifest.d", pid + ".json")))["level_claimed"]["category"]
        except Exception:
            pass
        os.makedirs(os.path.dirname(ev), exist_ok=True)
        json.dump(dict(property_id=pid, tier=tier if tier in ("quick", "thorough") else "quick", seed=int(os.environ.get("VERIF_SEED", "0")), level=level,
                       coverage=dict(evaluations=0, distinct_nontrivial=0, rule="harness died before exploring anything", samples=[],
                                     explanation="harness died: see " + rp, obligations=0, discharged=0, checker_cmd="n/a", trusted_base=[],
                                     programs=0, disagreements_checked=0),
                       wall_s=round(time.time() - t0, 2), violations=1), open(ev, "w"), indent=1)
    sys.exit(1)


if __name__ == "__main__":
    main()
