"""C09 — fine syntactic feature vector of a Python module (CPython's ast + tokenize).  The quick-tier sample of the
corpus is chosen so that every feature that occurs anywhere in the corpus is covered k times (greedy set cover in
harness/c09.py); the synthetic sentences of c09_sentences.py are indexed with the same function.
Features are strings, the set is open-ended: every node type (`n:<Type>`), expression contexts and binding positions,
parameter-list shapes (which kinds of parameters carry defaults), statement shapes, call / subscript / slice shapes,
comprehension shapes, match patterns, f-string fields, and token-level facts (string prefixes, implicit concatenation
on one line / across lines, numeric literal forms, layout)."""
import ast
import io
import tokenize

FEATURE_VERSION = 4
TRACKED = ("ego", "workspace", "globalParameters")
LIFT = ("str", "int", "float")


def _argfeats(a, tag, fs):
    """ast.arguments: which kinds of parameters, which of them carry defaults / annotations"""
    npos = len(a.posonlyargs) + len(a.args)
    nd = len(a.defaults)
    if a.posonlyargs:
        fs.add(tag + ":posonly")
        d_pos = max(0, nd - len(a.args))                      # defaults that belong to positional-only parameters
        d_reg = min(nd, len(a.args))
        if d_pos:
            fs.add(tag + ":posonly-default")
        if d_pos and d_reg:
            fs.add(tag + ":defaults-on-both-sides-of-slash")
        if d_pos and not a.args:
            fs.add(tag + ":posonly-default-only")
        if a.args and not d_pos and d_reg:
            fs.add(tag + ":posonly-then-regular-default")
    if nd:
        fs.add(tag + ":default")
        if nd < npos:
            fs.add(tag + ":some-defaults")
        if nd >= 2:
            fs.add(tag + ":many-defaults")
    if a.vararg:
        fs.add(tag + ":vararg")
        if a.vararg.annotation is not None:
            fs.add(tag + ":vararg-annotated")
            if isinstance(a.vararg.annotation, ast.Starred):
                fs.add(tag + ":vararg-star-annotation")
    if a.kwonlyargs:
        fs.add(tag + ":kwonly" + ("-after-vararg" if a.vararg else "-bare-star"))
        some = [d is not None for d in a.kw_defaults]
        if any(some):
            fs.add(tag + ":kwonly-default")
        if any(some) and not all(some):
            fs.add(tag + ":kwonly-mixed-defaults")
            if some[0] and not some[-1]:
                fs.add(tag + ":kwonly-default-before-required")
    if a.kwarg:
        fs.add(tag + ":kwarg")
    if any(x.annotation is not None for x in a.posonlyargs + a.args + a.kwonlyargs):
        fs.add(tag + ":annotated")
    if nd and a.kwonlyargs and any(d is not None for d in a.kw_defaults):
        fs.add(tag + ":default+kwonly-default")


def _kind(n):
    return type(n).__name__


COMPS = (ast.ListComp, ast.SetComp, ast.DictComp, ast.GeneratorExp)


def features2(tree, src):
    fs = set()
    parents = {}
    for n in ast.walk(tree):
        for c in ast.iter_child_nodes(n):
            parents[id(c)] = n
    for n in ast.walk(tree):
        k = _kind(n)
        fs.add("n:" + k)
        p = parents.get(id(n))
        ctx = getattr(n, "ctx", None)
        if ctx is not None:
            fs.add(f"ctx:{k}:{_kind(ctx)}")
            if isinstance(ctx, (ast.Store, ast.Del)) and p is not None:
                fs.add(f"target:{_kind(p)}:{k}:{_kind(ctx)}")
        if isinstance(n, (ast.FunctionDef, ast.AsyncFunctionDef)):
            _argfeats(n.args, "def", fs)
            for d in n.decorator_list:
                fs.add("decorator:" + _kind(d))
            if n.returns is not None:
                fs.add("def:returns")
            for tp in getattr(n, "type_params", None) or []:
                fs.add("typeparam:def:" + _kind(tp) + (":bound" if getattr(tp, "bound", None) is not None else ""))
            if n.body and isinstance(n.body[0], ast.Expr) and isinstance(n.body[0].value, ast.Constant) and isinstance(n.body[0].value.value, str):
                fs.add("docstring:def")
            if n.lineno == n.body[0].lineno:
                fs.add("block:same-line:def")
            if isinstance(p, (ast.FunctionDef, ast.AsyncFunctionDef)):
                fs.add("def:nested")
        elif isinstance(n, ast.Lambda):
            _argfeats(n.args, "lambda", fs)
            if isinstance(p, ast.Lambda):
                fs.add("lambda:nested")
            if isinstance(p, ast.IfExp):
                fs.add("lambda:in-ifexp")
            if isinstance(p, ast.keyword):
                fs.add("lambda:as-keyword-argument")
            if isinstance(p, ast.arguments):
                fs.add("lambda:as-default")
        elif isinstance(n, ast.ClassDef):
            fs.add("class:bases-%d" % min(len(n.bases), 3))
            if n.keywords:
                fs.add("class:keywords")
            for d in n.decorator_list:
                fs.add("decorator:class:" + _kind(d))
            for tp in getattr(n, "type_params", None) or []:
                fs.add("typeparam:class:" + _kind(tp))
            if any(isinstance(b, ast.Starred) for b in n.bases):
                fs.add("class:star-bases")
            if isinstance(p, ast.ClassDef):
                fs.add("class:nested")
            if isinstance(p, (ast.FunctionDef, ast.AsyncFunctionDef)):
                fs.add("class:in-def")
        elif isinstance(n, ast.Assign):
            if len(n.targets) > 1:
                fs.add("assign:chained")
            for t in n.targets:
                fs.add("assign:target:" + _kind(t))
                if isinstance(t, (ast.Tuple, ast.List)):
                    if any(isinstance(e, ast.Starred) for e in t.elts):
                        fs.add("assign:starred-target")
                    if any(isinstance(e, (ast.Tuple, ast.List)) for e in t.elts):
                        fs.add("assign:nested-unpack")
            fs.add("assign:value:" + _kind(n.value))
        elif isinstance(n, ast.AugAssign):
            fs.add(f"augassign:{_kind(n.op)}:{_kind(n.target)}")
        elif isinstance(n, ast.AnnAssign):
            fs.add(f"annassign:{_kind(n.target)}:{'value' if n.value is not None else 'bare'}:simple{n.simple}")
        elif isinstance(n, (ast.For, ast.AsyncFor)):
            fs.add(f"for:target:{_kind(n.target)}")
            if n.orelse:
                fs.add("for:else")
            if isinstance(n.iter, ast.Tuple):
                fs.add("for:iter-tuple")
            if isinstance(n.target, (ast.Tuple, ast.List)) and any(isinstance(e, ast.Starred) for e in n.target.elts):
                fs.add("for:starred-target")
        elif isinstance(n, ast.While):
            if n.orelse:
                fs.add("while:else")
            if isinstance(n.test, ast.NamedExpr):
                fs.add("walrus:while")
        elif isinstance(n, ast.If):
            if n.orelse:
                fs.add("if:elif" if len(n.orelse) == 1 and isinstance(n.orelse[0], ast.If) and n.orelse[0].col_offset == n.col_offset else "if:else")
            if isinstance(n.test, ast.NamedExpr):
                fs.add("walrus:if")
            if n.body and n.body[0].lineno == n.lineno:
                fs.add("block:same-line:if")
        elif isinstance(n, (ast.With, ast.AsyncWith)):
            fs.add("with:items-%d" % min(len(n.items), 3))
            for it in n.items:
                fs.add("with:target:" + (_kind(it.optional_vars) if it.optional_vars is not None else "none"))
            if len({("as" if it.optional_vars is not None else "plain") for it in n.items}) == 2:
                fs.add("with:mixed-as")
            if n.items[0].context_expr.lineno != n.items[-1].context_expr.lineno:
                fs.add("with:multi-line-items")
        elif isinstance(n, (ast.Try, getattr(ast, "TryStar", ast.Try))):
            fs.add("try:" + k + ":h%d" % min(len(n.handlers), 3) + (":else" if n.orelse else "") + (":finally" if n.finalbody else ""))
            for h in n.handlers:
                fs.add("except:" + ("bare" if h.type is None else _kind(h.type)) + (":as" if h.name else ""))
        elif isinstance(n, ast.Raise):
            fs.add("raise:" + ("bare" if n.exc is None else "from" if n.cause is not None else "exc"))
        elif isinstance(n, ast.Assert):
            fs.add("assert:" + ("msg" if n.msg is not None else "plain"))
        elif isinstance(n, ast.Delete):
            for t in n.targets:
                fs.add("del:" + _kind(t))
            if len(n.targets) > 1:
                fs.add("del:many")
        elif isinstance(n, ast.Import):
            if any(a.asname for a in n.names):
                fs.add("import:as")
            if any("." in a.name for a in n.names):
                fs.add("import:dotted")
            if len(n.names) > 1:
                fs.add("import:many")
        elif isinstance(n, ast.ImportFrom):
            fs.add("importfrom:level-%d" % min(n.level, 3) + (":module" if n.module else ":bare"))
            if any(a.name == "*" for a in n.names):
                fs.add("importfrom:star")
            if any(a.asname for a in n.names):
                fs.add("importfrom:as")
            if n.end_lineno != n.lineno:
                fs.add("importfrom:multi-line")
        elif isinstance(n, ast.Return):
            fs.add("return:" + ("bare" if n.value is None else _kind(n.value)))
        elif isinstance(n, ast.Yield):
            fs.add("yield:" + ("bare" if n.value is None else "value") + ":" + _kind(p))
        elif isinstance(n, ast.Await):
            fs.add("await:in:" + _kind(p))
        elif isinstance(n, ast.NamedExpr):
            fs.add("walrus:in:" + _kind(p))
        elif isinstance(n, ast.IfExp):
            for f_ in ("test", "body", "orelse"):
                c = getattr(n, f_)
                if isinstance(c, (ast.IfExp, ast.Lambda)):
                    fs.add(f"ifexp:{_kind(c)}-in-{f_}")
            if n.lineno != n.end_lineno:
                fs.add("ifexp:multi-line")
        elif isinstance(n, ast.BoolOp):
            fs.add("boolop:%s:%d" % (_kind(n.op), min(len(n.values), 4)))
            if any(isinstance(v, ast.BoolOp) for v in n.values):
                fs.add("boolop:mixed")
        elif isinstance(n, ast.UnaryOp):
            fs.add(f"unary:{_kind(n.op)}:{_kind(n.operand)}")
        elif isinstance(n, ast.BinOp):
            fs.add("binop:" + _kind(n.op))
            if isinstance(n.op, ast.Pow) and isinstance(n.right, ast.UnaryOp):
                fs.add("binop:pow-unary-exponent")
            if isinstance(n.op, ast.Pow) and isinstance(n.left, ast.Await):
                fs.add("binop:pow-await")
            if isinstance(n.op, ast.Mod) and isinstance(n.left, ast.Constant) and isinstance(n.left.value, str):
                fs.add("binop:percent-format")
            if n.lineno != n.end_lineno:
                fs.add("binop:multi-line")
        elif isinstance(n, ast.Compare):
            fs.add("compare:ops-%d" % min(len(n.ops), 3))
            for o in n.ops:
                fs.add("compare:" + _kind(o))
        elif isinstance(n, ast.Call):
            st = [i for i, a in enumerate(n.args) if isinstance(a, ast.Starred)]
            if st:
                fs.add("call:star")
                if len(st) > 1:
                    fs.add("call:many-stars")
                if st[0] < len(n.args) - 1:
                    fs.add("call:positional-after-star")
            ds = [i for i, kw in enumerate(n.keywords) if kw.arg is None]
            if ds:
                fs.add("call:doublestar")
                if ds[0] < len(n.keywords) - 1:
                    fs.add("call:keyword-after-doublestar")
                if len(ds) > 1:
                    fs.add("call:many-doublestars")
            if n.keywords and n.args:
                fs.add("call:positional+keyword")
            if st and any(kw.arg is not None and (kw.value.lineno, kw.value.col_offset) < (n.args[st[-1]].lineno, n.args[st[-1]].col_offset)
                          for kw in n.keywords):
                fs.add("call:star-after-keyword")
            if len(n.args) == 1 and isinstance(n.args[0], ast.GeneratorExp) and not n.keywords:
                fs.add("call:sole-genexp")
            if isinstance(n.func, ast.Call):
                fs.add("call:of-call")
            if isinstance(n.func, ast.Name) and n.func.id in LIFT:
                fs.add("call:lifted-" + n.func.id)
            if any(isinstance(a, ast.NamedExpr) for a in n.args):
                fs.add("walrus:argument")
            if n.lineno != n.end_lineno:
                fs.add("call:multi-line")
            fs.add("call:func:" + _kind(n.func))
        elif isinstance(n, ast.Subscript):
            sl = n.slice
            fs.add("subscript:" + _kind(sl))
            if isinstance(sl, ast.Tuple):
                for e in sl.elts:
                    fs.add("subscript:tuple-elt:" + _kind(e))
            for x in ([sl] if isinstance(sl, ast.Slice) else [e for e in getattr(sl, "elts", []) if isinstance(e, ast.Slice)]):
                fs.add("slice:" + "".join("x" if getattr(x, f_) is not None else "-" for f_ in ("lower", "upper", "step")))
        elif isinstance(n, ast.Dict):
            if any(key is None for key in n.keys):
                fs.add("dict:unpack")
            if not n.keys:
                fs.add("dict:empty")
            if n.lineno != n.end_lineno:
                fs.add("dict:multi-line")
        elif isinstance(n, (ast.List, ast.Tuple, ast.Set)):
            if isinstance(getattr(n, "ctx", None), (type(None), ast.Load)):
                if any(isinstance(e, ast.Starred) for e in n.elts):
                    fs.add("display:star:" + k)
                if not n.elts:
                    fs.add("display:empty:" + k)
                if len(n.elts) == 1 and k == "Tuple":
                    fs.add("tuple:singleton")
                if n.lineno != n.end_lineno:
                    fs.add("display:multi-line:" + k)
            if k == "Tuple" and isinstance(p, (ast.Return, ast.Assign, ast.Yield, ast.For, ast.Subscript, ast.Expr)):
                fs.add("tuple:child-of:" + _kind(p))
        elif isinstance(n, COMPS):
            fs.add(f"comp:{k}:fors-{min(len(n.generators), 3)}")
            for g_ in n.generators:
                fs.add(f"comp:ifs-{min(len(g_.ifs), 3)}")
                fs.add("comp:target:" + _kind(g_.target))
                if g_.is_async:
                    fs.add("comp:async:" + k)
            if isinstance(p, COMPS + (ast.comprehension,)):
                fs.add("comp:nested")
        elif isinstance(n, ast.Starred):
            fs.add("starred:in:" + _kind(p))
        elif isinstance(n, ast.JoinedStr):
            if n.lineno != n.end_lineno:
                fs.add("fstring:multi-line")
            if isinstance(p, ast.FormattedValue):
                fs.add("fstring:nested-format-spec" if p.format_spec is n else "fstring:nested-in-field")
            if sum(isinstance(v, ast.FormattedValue) for v in n.values) > 1:
                fs.add("fstring:many-fields")
            if not n.values:
                fs.add("fstring:empty")
            for v in n.values:
                if isinstance(v, ast.Constant) and isinstance(v.value, str):
                    if "{" in v.value or "}" in v.value:
                        fs.add("fstring:escaped-brace")
                    if "\n" in v.value or "\t" in v.value or "\\" in v.value:
                        fs.add("fstring:literal-with-control-or-backslash")
                    if not v.value.isascii():
                        fs.add("fstring:non-ascii-literal")
        elif isinstance(n, ast.FormattedValue):
            fs.add("fstring:conversion:" + (chr(n.conversion) if n.conversion != -1 else "none"))
            fs.add("fstring:field:" + _kind(n.value))
            if n.format_spec is not None:
                sp = n.format_spec.values
                fs.add("fstring:spec:" + ("nested-field" if any(isinstance(v, ast.FormattedValue) for v in sp) else "literal" if sp else "empty"))
                if n.conversion != -1:
                    fs.add("fstring:conversion+spec")
                if sum(isinstance(v, ast.FormattedValue) for v in sp) > 1:
                    fs.add("fstring:spec:many-nested-fields")
        elif isinstance(n, ast.Constant):
            v = n.value
            fs.add("const:" + ("Ellipsis" if v is Ellipsis else type(v).__name__))
            if n.kind:
                fs.add("const:u-prefix")
            if isinstance(v, (str, bytes)) and n.lineno != n.end_lineno:
                fs.add("const:multi-line-" + type(v).__name__)
            if isinstance(v, str) and not v.isascii():
                fs.add("const:non-ascii-str")
            if isinstance(v, int) and not isinstance(v, bool) and abs(v) >= 2 ** 63:
                fs.add("const:big-int")
        elif isinstance(n, ast.Name):
            if n.id in TRACKED:
                fs.add("name:" + n.id + ":" + _kind(n.ctx))
            if not n.id.isascii():
                fs.add("name:non-ascii")
            if n.id in ("match", "case", "type", "_"):
                fs.add("name:soft-keyword:" + n.id)
        elif isinstance(n, ast.Attribute):
            if n.attr in ("match", "case", "type"):
                fs.add("attr:soft-keyword")
            if n.lineno != n.end_lineno:
                fs.add("attr:multi-line-chain")
        elif isinstance(n, (ast.Global, ast.Nonlocal)):
            if len(n.names) > 1:
                fs.add(k.lower() + ":many")
        elif isinstance(n, ast.MatchClass):
            fs.add("match:class:" + (("pos" if n.patterns else "") + ("kw" if n.kwd_patterns else "") or "empty"))
        elif isinstance(n, ast.MatchMapping):
            fs.add("match:mapping:" + ("rest" if n.rest else "norest") + (":empty" if not n.keys else ""))
            for key in n.keys:
                fs.add("match:mapping-key:" + _kind(key))
        elif isinstance(n, ast.MatchAs):
            fs.add("match:as:" + ("pattern" if n.pattern is not None else "capture" if n.name else "wildcard"))
        elif isinstance(n, ast.MatchStar):
            fs.add("match:star:" + ("capture" if n.name else "wildcard"))
        elif isinstance(n, ast.MatchValue):
            fs.add("match:value:" + _kind(n.value))
        elif isinstance(n, ast.MatchSequence):
            fs.add("match:sequence-%d" % min(len(n.patterns), 3))
        elif isinstance(n, ast.MatchOr):
            fs.add("match:or-%d" % min(len(n.patterns), 3))
        elif isinstance(n, ast.MatchSingleton):
            fs.add("match:singleton:" + repr(n.value))
        elif isinstance(n, ast.match_case):
            if n.guard is not None:
                fs.add("match:guard")
        elif isinstance(n, ast.Match):
            fs.add("match:subject:" + _kind(n.subject))
        elif isinstance(n, ast.Module):
            if n.body and isinstance(n.body[0], ast.Expr) and isinstance(n.body[0].value, ast.Constant) and isinstance(n.body[0].value.value, str):
                fs.add("docstring:module")
            if not n.body:
                fs.add("module:empty")
    # token-level: string prefixes, implicit concatenation (same line / across lines), numeric literal forms, layout
    try:
        toks = list(tokenize.generate_tokens(io.StringIO(src).readline))
    except (tokenize.TokenError, IndentationError, SyntaxError):
        toks = []
    FS, FE = getattr(tokenize, "FSTRING_START", -1), getattr(tokenize, "FSTRING_END", -2)
    prev = None          # (end line, start column, kind, is already a continuation) of the string literal just before
    depth_f = 0
    fstart = None
    for t in toks:
        if t.type in (tokenize.NL, tokenize.COMMENT):
            continue
        if t.type in (tokenize.STRING, FS) and depth_f == 0:
            q = t.string
            i = 0
            while i < len(q) and q[i] not in "'\"":
                i += 1
            fs.add("str-prefix:" + ("".join(sorted(q[:i].lower())) or "none"))
            if q[i:i + 3] in ("'''", '"""'):
                fs.add("str:triple-quoted" + (":f" if t.type == FS else ""))
            if prev is not None:
                kinds = "+".join(sorted({prev[2], "f" if t.type == FS else "s"}))
                fs.add("concat:" + ("same-line" if prev[0] == t.start[0] else "across-lines") + ":" + kinds)
                if prev[0] != t.start[0] and t.start[1] != prev[1]:
                    fs.add("concat:across-lines:different-columns")
                if prev[3]:
                    fs.add("concat:three-or-more" + (":across-lines" if prev[0] != t.start[0] else ""))
            if t.type == tokenize.STRING:
                prev = (t.end[0], t.start[1], "s", prev is not None)
        if t.type == FS:
            if depth_f == 0:
                fstart = (t.start[1], prev is not None)
            depth_f += 1
        elif t.type == FE:
            depth_f -= 1
            if depth_f == 0:
                prev = (t.end[0], fstart[0], "f", fstart[1])
        elif t.type != tokenize.STRING and depth_f == 0:
            prev = None
        if t.type == tokenize.NUMBER:
            z = t.string.lower()
            fs.add("num:" + ("hex" if z.startswith("0x") else "oct" if z.startswith("0o") else "bin" if z.startswith("0b") else
                             "imag" if z.endswith("j") else "exp" if "e" in z else "float" if "." in z else "int"))
            if "_" in z:
                fs.add("num:underscore")
            if z.startswith(".") or (z.endswith(".") and "e" not in z):
                fs.add("num:dot-edge")
        elif t.type == tokenize.OP and t.string == ";":
            fs.add("layout:semicolon")
    if "\\\n" in src:
        fs.add("layout:backslash-continuation")
    if "\t" in src:
        fs.add("layout:tab")
    if "\f" in src:
        fs.add("layout:form-feed")
    if "\r" in src:
        fs.add("layout:carriage-return")
    if src and not src.endswith("\n"):
        fs.add("layout:no-final-newline")
    if not src.isascii():
        fs.add("layout:non-ascii")
    return sorted(fs)
