"""C18 — encoded scenes and simulations decode and replay to the same thing.
Proof layer: coq/Properties/C18.v.  Correspondence: the extracted codec model vs the real
Scenario.sceneToBytes/sceneFromBytes bit-exactly, every truncation, sampled corruptions, replays."""
import concurrent.futures as cf
import json
import os
import sys

sys.path.insert(0, os.path.dirname(os.path.abspath(__file__)))
import common
from common import Check

PID = "C18"


# ------------------------------------------------------------------ program generator
def gen_expr(rng, names, depth):
    kinds = ["range", "drange", "uniform", "options", "normal", "tnormal", "name", "arith", "const", "nested"]
    if depth <= 0:
        kinds = ["range", "drange", "const", "name"]
    k = rng.choice(kinds)
    if k == "name" and not names:
        k = "range"
    if k == "range":
        a = rng.randint(-50, 50)
        return f"Range({a}, {a + rng.randint(1, 20)})"
    if k == "drange":
        a = rng.choice([-3, 0, 1, 250, 32760, -32770, 2147483640])
        return f"DiscreteRange({a}, {a + rng.randint(1, 12)})"
    if k == "uniform":
        n = rng.randint(2, 4)
        return "Uniform(" + ", ".join(gen_expr(rng, names, depth - 1) for _ in range(n)) + ")"
    if k == "options":
        n = rng.randint(2, 3)
        return "Options({" + ", ".join(f"{gen_expr(rng, names, depth - 1)}: {rng.randint(1, 5)}" for _ in range(n)) + "})"
    if k == "normal":
        return f"Normal({rng.randint(-5, 5)}, {rng.randint(1, 3)})"
    if k == "tnormal":
        return f"TruncatedNormal({rng.randint(-5, 5)}, {rng.randint(1, 3)}, -20, 20)"
    if k == "name":
        return rng.choice(names)
    if k == "arith":
        return f"({gen_expr(rng, names, depth - 1)} {rng.choice('+-*')} {gen_expr(rng, names, depth - 1)})"
    if k == "nested":
        a = gen_expr(rng, names, depth - 1)
        return f"Uniform({a}, Options({{{gen_expr(rng, names, depth - 1)}: 1, {a}: 2}}))"
    return str(rng.choice([0, 1, 7, -2, 2.5]))


def gen_program(rng, idx, dynamic):
    L = ["from verif_c18_helpers import BigInt, RandStr, RandBytes, RandBool, RandNone"]
    names = []
    for i in range(rng.randint(0, 4)):
        L.append(f"v{i} = {gen_expr(rng, names, 2)}")
        names.append(f"v{i}")
    if dynamic:
        L += ["behavior Foo(k):",
              "    while True:",
              f"        take {rng.choice(['Range(0, 1)', 'Uniform(1, 2, 3)', 'DiscreteRange(0, 300)', 'k + Normal(0, 1)', 'Options({Range(0,1): 1, 5: 2})'])}",
              f"        x = {rng.choice(['Uniform(1, 2)', 'Range(-1, 1)', 'DiscreteRange(-400, 400)'])}",
              "        if x > 0:",
              "            take x, Range(2, 3)",
              ]
    nobj = rng.randint(1, 3)
    for j in range(nobj):
        spec = [f"at ({gen_expr(rng, names, 1)} + {100 * j}, {gen_expr(rng, names, 1)})"]
        if rng.random() < 0.6:
            spec.append(f"facing {gen_expr(rng, names, 1)} deg")
        if rng.random() < 0.6:
            spec.append(f"with foo {gen_expr(rng, names, 2)}")
        if rng.random() < 0.4:
            spec.append(f"with bar {rng.choice(['BigInt()', 'RandStr()', 'RandBytes()', 'RandBool()', 'RandNone()'])}")
        if rng.random() < 0.3:
            spec.append("with baz (" + gen_expr(rng, names, 1) + ", [" + gen_expr(rng, names, 1) + ", 3])")
        if dynamic and j == 0:
            spec.append(f"with behavior Foo({gen_expr(rng, names, 1)})")
        spec.append("with allowCollisions True")
        L.append(("ego = " if j == 0 else "") + "new Object " + ", ".join(spec))
    for i in range(rng.randint(0, 3)):
        L.append(f"param p{i} = {rng.choice(['BigInt()', 'RandStr()', 'RandBytes()', 'RandBool()', gen_expr(rng, names, 2), '(' + gen_expr(rng, names, 1) + ', BigInt())'])}")
    if names and rng.random() < 0.3:
        L.append(f"require {names[0]} > -1000")
    if rng.random() < 0.25 and nobj >= 1:
        L.append("mutate ego")
    src = "\n".join(L) + "\n"
    job = dict(name=f"prog{idx}", src=src, seed=rng.randint(0, 10 ** 6), mode2D=rng.random() < 0.3, dynamic=dynamic)
    if dynamic:
        job["steps"] = rng.randint(2, 8)
        job["div_cases"] = [[rng.choice([-1, 1]) * rng.choice([0, 1, 2, 3, 5, 8, 100]), rng.choice([0, 1, 2, 4, 8])] for _ in range(6)]
    return job


def dag_tokens(d):
    t = [str(len(d["nodes"]))]
    for n in d["nodes"]:
        if n[0] == "F":
            t.append("F")
        elif n[0] == "P":
            t += ["P", n[1]]
        elif n[0] == "D":
            t += ["D", str(len(n[1]))] + [str(x) for x in n[1]]
        elif n[0] == "M":
            t += ["M", str(n[1]), str(len(n[2]))] + [str(x) for x in n[2]]
    return t


def norm_line(s):
    """Canonicalise integers in an 'OK <int> <rest>' line (decimal vs 0b binary)."""
    p = s.split()
    if len(p) >= 2 and p[0] == "OK" and p[1] not in ("S", "I", "X", "B", "N"):
        p[1] = str(int(p[1], 0))
    return " ".join(p)


def zstr(s):
    z = int(s)
    return str(z) if abs(z) < 2 ** 60 else ("-" if z < 0 else "") + "0b" + bin(abs(z))[2:]


def val_tokens(v):
    if v[0] == "I":
        return ["I", zstr(v[1])]
    return list(v)


def main():
    c = Check(PID, "proof")
    c.cov["rule"] = ("programs drawn from a seeded generator (random values of every codec type, nested/conditional "
                     "distributions, shared values, big integers at every width boundary, behaviours drawing at run time); "
                     "a case is non-trivial when its encoding has a body (at least one sampled value) and distinct by the hash "
                     "of (program, sample bytes)")
    common.ensure_parser()
    if not c.proofs():
        c.finish()
    exe = common.build_ocaml(PID)
    quick = c.tier == "quick"
    nprog = 48 if quick else 1200
    rng = c.rng
    # corpus first
    jobs = []
    corpus_dir = os.path.join(common.VERIF, "corpus", PID)
    if os.path.isdir(corpus_dir):
        for f in sorted(os.listdir(corpus_dir)):
            if f.endswith(".json"):
                jobs.append(json.load(open(os.path.join(corpus_dir, f))))
    jobs += [gen_program(rng, i, dynamic=(i % 3 == 0)) for i in range(nprog)]
    for j in jobs:
        j.setdefault("npos", 50 if quick else 200)
        j.setdefault("alts", 5 if quick else 16)
        j.setdefault("max_cuts", 150 if quick else 600)
    if c.replay:
        body = json.load(open(c.replay))
        jobs = [body["case"]["job"]] if "job" in body.get("case", {}) else jobs[:4]

    # ---- (1) direct codec sweep: integers across all width boundaries, truncated ints
    ints = set()
    for b in [0, 252, 253, 255, 256, 2 ** 15, 2 ** 16, 2 ** 31, 2 ** 32, 2 ** 63, 2 ** 64, 2 ** 255, 2 ** 2031, 2 ** 2032, 2 ** 2039, 2 ** 2040]:
        for d in range(-3, 4):
            ints.update([b + d, -b + d])
    for _ in range(200 if quick else 5000):
        ints.add(rng.randint(-(2 ** rng.randint(1, 2100)), 2 ** rng.randint(1, 2100)))
    ints = sorted(ints)
    cases = [["WI", str(z)] for z in ints]
    impl = common.run_impl("impl_c18.py", dict(kind="codec", cases=cases))["results"]
    model = common.run_driver(exe, ["WI " + zstr(str(z)) for z in ints])
    rcases, mlines = [], []
    for z, a, m in zip(ints, impl, model):
        c.count(("WI", z), nontrivial=True)
        c.hist("codec:write_int")
        if a != m:
            c.violation("correspondence", "write_int differs between model and implementation", dict(op="WI", z=str(z), impl=a, model=m))
        if a.startswith("SOME"):
            h = a.split()[1]
            for cut in range(0, len(h) // 2 + 1):
                rcases.append(["RI", h[:2 * cut] or "-"])
            rcases.append(["RI", h + "ab"])
    # random byte strings into readInt / readBytes
    for _ in range(300 if quick else 20000):
        n = rng.randint(0, 12)
        h = bytes([rng.choice([253, 254, 255, rng.randint(0, 255)])] + [rng.randint(0, 255) for _ in range(n)]).hex()
        rcases.append(["RI", h])
        rcases.append(["RB", h])
    impl = common.run_impl("impl_c18.py", dict(kind="codec", cases=rcases))["results"]
    model = common.run_driver(exe, [("RI " + a) if k == "RI" else ("RV bytes " + a) for k, a in rcases])
    for (k, arg), a, m in zip(rcases, impl, model):
        c.count((k, arg), nontrivial=True)
        c.hist("codec:" + ("read_int" if k == "RI" else "read_bytes"))
        if norm_line(a) != norm_line(m):
            c.violation("correspondence", f"{k} differs between model and implementation", dict(op=k, data=arg, impl=a, model=m))
    c.sample(dict(op=rcases[0], impl=impl[0], model=model[0]))

    # ---- (2) programs through the real scenario codec
    chunks = [jobs[i::common.NCPU] for i in range(common.NCPU)]
    chunks = [ch for ch in chunks if ch]
    results = []
    with cf.ThreadPoolExecutor(len(chunks)) as ex:
        for r in ex.map(lambda ch: common.run_impl("impl_c18.py", dict(kind="programs", programs=ch), timeout=7000), chunks):
            results += r["results"]
    by_name = {j["name"]: j for j in jobs}
    skipped = 0
    for r in results:
        job = by_name.get(r.get("name"))
        if "crash" in r:
            c.violation("harness", "implementation driver crashed", dict(job=job, crash=r["crash"]), no_input=True)
            continue
        if "skip" in r:
            skipped += 1
            c.hist("skip:" + r["skip"].split(":")[0])
            continue
        d = r["dag"]
        data = r["bytes"]
        body = data[20:]
        c.count((job["src"], data), nontrivial=len(body) > 0)
        c.cov["traces_validated_against_impl"] += 1
        c.hist("programs")
        c.hist("body_bytes<=16" if len(body) <= 32 else ("body_bytes<=128" if len(body) <= 256 else "body_bytes>128"))
        for n in d["nodes"]:
            c.hist("node:" + n[0] + (":" + n[1] if n[0] == "P" else ""))
        # hypothesis wf_dag of C18_sample_roundtrip: dependencies are numbered before their users
        wf = all(all(x < i for x in (n[1] if n[0] == "D" else ([n[1]] + n[2] if n[0] == "M" else []))) for i, n in enumerate(d["nodes"]))
        if not wf:
            c.violation("correspondence", "exported DAG violates wf_dag (exporter no longer post-order?)", dict(job=job), no_input=True)
        if d["unsupported"]:
            c.hist("unsupported-node", len(d["unsupported"]))
            continue
        # property oracle
        if not r["roundtrip_equal"]:
            POSE = {"position", "heading", "yaw", "pitch", "roll", "orientation"}
            diffs = r.get("roundtrip_diff") or []
            only_mut = bool(diffs) and all(d[0] in r.get("mutated", []) and d[1] in POSE for d in diffs)
            c.violation("roundtrip", "decoded scene differs from the original",
                        dict(job=job, outcome=r["roundtrip_outcome"], diff=diffs, diff_only_pose_of_mutated_objects=only_mut))
        if r.get("other_program") not in ("SerializationError",):
            c.violation("foreign-data", "scene from a different program was not refused", dict(job=job, outcome=r.get("other_program")))
        if r.get("other_options") not in ("SerializationError", None):
            c.violation("foreign-data", "scene with different compile options was not refused", dict(job=job, outcome=r.get("other_options")))
        # model: encode and decode
        toks = dag_tokens(d)
        pv = []
        for k, v in d["pvals"].items():
            pv += [str(k)] + val_tokens(v)
        enc_cmd = "ENC " + " ".join(toks + [str(len(d["pvals"]))] + pv + [str(len(d["deps"]))] + [str(x) for x in d["deps"]])
        dec_prefix = "DEC " + " ".join(toks + [str(len(d["deps"]))] + [str(x) for x in d["deps"]]) + " "
        hdr = r["header"]
        hdr_prefix = f"HDR {hdr['version']} {hdr['ast']} {hdr['opts']} "
        cmds = [enc_cmd, dec_prefix + (body or "-")]
        cuts = [t[0] for t in r["trunc"]]
        for cut in cuts:
            p = data[:2 * cut]
            if cut < 10:
                cmds.append(hdr_prefix + (p or "-"))
            else:
                cmds.append(dec_prefix + (p[20:] or "-"))
        for pos, b, oc in r["corrupt"]:
            d2 = data[:2 * pos] + "%02x" % b + data[2 * pos + 2:]
            cmds.append((hdr_prefix + d2) if pos < 10 else (dec_prefix + (d2[20:] or "-")))
        out = common.run_driver(exe, cmds)
        if out[0] != "SOME " + (body or "-"):
            c.violation("correspondence", "model encodes the sample to different bytes", dict(job=job, impl=body, model=out[0]))
        want = " ; ".join(f"{k} {' '.join(val_tokens(v))}" for k, v in sorted(((int(k), v) for k, v in d["pvals"].items())))
        got = out[1]
        # the decoder only sees the values that were written (used values)
        if not got.startswith("OK ") or not got.endswith("| -"):
            c.violation("correspondence", "model fails to decode the implementation's bytes", dict(job=job, model=got))
        else:
            dec = dict()
            for item in got[3:-3].strip().split(" ; "):
                if item.strip():
                    parts = item.split()
                    dec[int(parts[0])] = parts[1:]
            for k, v in dec.items():
                if val_tokens(d["pvals"][str(k)]) != v:
                    c.violation("correspondence", "model decodes a different value", dict(job=job, node=k, impl=d["pvals"][str(k)], model=v))
        o = 2
        for (cut, oc), m in zip(r["trunc"], out[o:o + len(cuts)]):
            c.count(n=1)
            c.hist("trunc:" + oc)
            if oc != "SerializationError":
                c.violation("truncation", "truncated data not refused with SerializationError", dict(job=job, cut=cut, outcome=oc, model=m, info=r.get("trunc_info")))
            if not m.startswith("ERR"):
                c.violation("correspondence", "model accepts a truncated encoding", dict(job=job, cut=cut, model=m))
        o += len(cuts)
        for (pos, b, oc), m in zip(r["corrupt"], out[o:]):
            c.count(n=1)
            c.hist("corrupt:" + oc.split(":")[0])
            if oc.startswith("other"):
                c.violation("corruption", "corrupted data fails with something other than SerializationError", dict(job=job, pos=pos, byte=b, outcome=oc, info=r.get("corrupt_info")))
            if m.startswith("ERR") and oc == "ok":
                c.violation("correspondence", "implementation decodes a corruption the model refuses", dict(job=job, pos=pos, byte=b, model=m))
        c.sample(dict(program=job["src"], bytes=data, dag_nodes=len(d["nodes"]), truncations=len(cuts), corruptions=len(r["corrupt"])), limit=3)
        # replay
        rp = r.get("replay")
        if rp and "skip" not in rp:
            c.hist("replays")
            c.count(("replay", job["src"], job["seed"]), nontrivial=rp.get("nbytes", 0) > 30)
            if not rp["equal"]:
                c.violation("replay", "replayed simulation differs from the original",
                            dict(job=job, outcome=rp["outcome"], diff=rp.get("diff"), scene_has_mutated_objects=bool(r.get("mutated"))))
            for key in ("rerecord_equal", "gen2_equal", "extended_prefix_equal", "extended_gen2_equal"):
                if key in rp:
                    c.hist("replay:" + key)
                    if not rp[key] and not r.get("mutated"):
                        c.violation("replay", f"second-generation replay check failed: {key}", dict(job=job, which=key, detail={k: rp.get(k) for k in ("gen2_outcome", "extended_outcome")}, scene_has_mutated_objects=bool(r.get("mutated"))))
            divs = rp.get("div", [])
            mo = common.run_driver(exe, [f"DIV 0 {dk} {tk}" for dk, tk, _ in divs]) if divs else []
            for (dk, tk, got_), m in zip(divs, mo):
                c.count(("div", dk, tk), nontrivial=True)
                c.hist("divergence:" + ("neg" if dk < 0 else "pos" if dk > 0 else "zero"))
                spec = abs(dk) > tk
                if got_ is not spec:
                    c.violation("divergence", "divergence beyond the tolerance not reported (or reported within it)", dict(job=job, delta_1024=dk, tol_1024=tk, impl=got_, spec=spec))
                if (m == "1") != spec:
                    c.violation("correspondence", "model divergence predicate disagrees with |a-e|>tol", dict(delta=dk, tol=tk, model=m))
            for t in rp.get("trunc", []):
                c.hist("replay-trunc:" + t[1].split(":")[0])
                if t[1].startswith("other"):
                    c.violation("truncation", "truncated replay fails with something other than SerializationError", dict(job=job, cut=t[0], outcome=t[1], info=t[2:] ))
        elif rp:
            c.hist("replay-skip")
    c.cov["programs"] = len(results) - skipped
    c.cov["skipped_programs"] = skipped
    c.assumptions += [
        "struct's IEEE-754 encoding of floats/Vectors/Orientations is opaque: 8/24/32 bytes compared bit-exactly",
        "extraction via ExtrOcamlBasic only; OCaml compiler; 120-line driver",
        "model = hand-written Gallina (coq/C18/Codec.v) tied to the code by this differential run only",
    ]
    c.finish()


if __name__ == "__main__":
    main()
