"""C18 — encoded scenes and simulations decode and replay to the same thing.
Proof layer: coq/Properties/C18.v.  Correspondence: the extracted codec model vs the real
Scenario.sceneToBytes/sceneFromBytes bit-exactly, every truncation, sampled corruptions, replays."""
import concurrent.futures as cf
import time
import json
import os
import sys

sys.path.insert(0, os.path.dirname(os.path.abspath(__file__)))
import common
from common import Check

PID = "C18"


# ------------------------------------------------------------------ program generator
def gen_expr(rng, names, depth):
    kinds = ["range", "drange", "uniform", "options", "normal", "tnormal", "name", "arith", "const", "nested"]
    if depth <= 0:
        kinds = ["range", "drange", "const", "name"]
    k = rng.choice(kinds)
    if k == "name" and not names:
        k = "range"
    if k == "range":
        a = rng.randint(-50, 50)
        return f"Range({a}, {a + rng.randint(1, 20)})"
    if k == "drange":
        a = rng.choice([-3, 0, 1, 250, 32760, -32770, 2147483640])
        return f"DiscreteRange({a}, {a + rng.randint(1, 12)})"
    if k == "uniform":
        n = rng.randint(2, 4)
        return "Uniform(" + ", ".join(gen_expr(rng, names, depth - 1) for _ in range(n)) + ")"
    if k == "options":
        n = rng.randint(2, 3)
        return "Options({" + ", ".join(f"{gen_expr(rng, names, depth - 1)}: {rng.randint(1, 5)}" for _ in range(n)) + "})"
    if k == "normal":
        return f"Normal({rng.randint(-5, 5)}, {rng.randint(1, 3)})"
    if k == "tnormal":
        return f"TruncatedNormal({rng.randint(-5, 5)}, {rng.randint(1, 3)}, -20, 20)"
    if k == "name":
        return rng.choice(names)
    if k == "arith":
        return f"({gen_expr(rng, names, depth - 1)} {rng.choice('+-*')} {gen_expr(rng, names, depth - 1)})"
    if k == "nested":
        a = gen_expr(rng, names, depth - 1)
        return f"Uniform({a}, Options({{{gen_expr(rng, names, depth - 1)}: 1, {a}: 2}}))"
    return str(rng.choice([0, 1, 7, -2, 2.5]))


RUNTIME_DRAWS = ["Range(0, 1)", "Uniform(1, 2, 3)", "DiscreteRange(0, 300)", "k + Normal(0, 1)",
                 "Options({Range(0,1): 1, 5: 2})", "BigInt()", "SRandStr()", "SRandBytes()", "RandBool()", "RandNone()",
                 "RandVec()", "RandOri()", "TruncatedNormal(0, 1, -2, 2)", "Uniform(RandVec(), 3, SRandStr())",
                 "DiscreteRange(-40000, 40000)", "Uniform(Range(0, 1), Range(2, 3))"]
SHARED_DRAWS = ["Uniform(dd[1], 3)", "dd[1] + Range(0, 1)", "Uniform(dd[2], dd[1])", "dd[2] * DiscreteRange(1, 3)"]
BUILTIN_DYN = [("position", "vec"), ("velocity", "vec"), ("angularVelocity", "vec"), ("yaw", "float"), ("pitch", "float"),
               ("roll", "float"), ("speed", "float"), ("angularSpeed", "float")]
CUSTOM_DYN = [("cnt", "int"), ("tag", "str"), ("flag", "bool"), ("vv", "vec"), ("oo", "ori")]
TRIPLES = [(3, 4, 0), (0, 3, 4), (1, 2, 2), (2, 3, 6), (4, 4, 7), (1, 0, 0), (0, 0, 2), (0, 0, 0), (6, 8, 0), (2, 6, 9)]


def gen_perturb(rng, nobj, steps, custom):
    prop, ty = rng.choice(BUILTIN_DYN + (CUSTOM_DYN if custom else []))
    if ty == "vec":
        t = rng.choice(TRIPLES)
        sg = [rng.choice([-1, 1]) for _ in range(3)]
        dk = [a * b for a, b in zip(t, sg)]
        norm = round(sum(x * x for x in dk) ** 0.5)
        delta = [x / 1024.0 for x in dk]
        tolk = rng.choice([0, norm, max(norm - 1, 0), norm + 1, 1, 2, 5, 20])
        tol = tolk / 1024.0
    elif ty == "float":
        k = rng.choice([-1, 1]) * rng.choice([0, 1, 2, 3, 5, 8, 100])
        delta = [k / 1024.0]
        tol = rng.choice([0, abs(k), max(abs(k) - 1, 0), abs(k) + 1, 1, 4, 8]) / 1024.0
    elif ty == "int":
        k = rng.choice([-1, 1]) * rng.choice([0, 1, 2, 3, 7])
        delta = [k]
        tol = float(rng.choice([0, abs(k), max(abs(k) - 1, 0), abs(k) + 1, 0.5, 2.5]))
    else:   # bool / str / ori: `!=`
        delta = [rng.choice([0, 1])]
        tol = float(rng.choice([0, 1, 2, 0.5]))
    if rng.random() < 0.08:
        tol = -tol - 1 / 1024.0
    return dict(obj=rng.randrange(nobj), call=rng.randint(0, steps), prop=prop, ty=ty, delta=delta, tol=tol,
                cont=rng.random() < 0.25, wr=rng.random() < 0.7)


def gen_program(rng, idx, dynamic, cond=False):
    L = ["from verif_c18_helpers import BigInt, RandStr, RandBytes, RandBool, RandNone, SRandStr, SRandBytes, RandVec, RandOri"]
    names = []
    features = []
    for i in range(rng.randint(0, 4)):
        L.append(f"v{i} = {gen_expr(rng, names, 2)}")
        names.append(f"v{i}")
    custom = dynamic and rng.random() < 0.35
    shared = dynamic and rng.random() < 0.2
    if custom:
        features.append("custom-dynamic")
        L += ["class Thing(Object):", "    cnt[dynamic]: 3", "    tag[dynamic]: 'a'", "    flag[dynamic]: True",
              "    vv[dynamic]: Vector(1, 2, 3)", "    oo[dynamic]: Orientation.fromEuler(0.5, 0, 0)"]
    if shared:
        features.append("shared-dep")
        L.append("dd = {1: Range(0, 1), 2: DiscreteRange(0, 5)}")
    if dynamic:
        pool = RUNTIME_DRAWS + (SHARED_DRAWS * 3 if shared else [])
        L += ["behavior Foo(k):", "    while True:"]
        for _ in range(rng.randint(1, 3)):
            L.append(f"        take {rng.choice(pool)}")
        L += [f"        x = {rng.choice(['Uniform(1, 2)', 'Range(-1, 1)', 'DiscreteRange(-400, 400)'])}",
              "        if x > 0:",
              f"            take x, {rng.choice(pool)}"]
    nobj = rng.randint(1, 3)
    for j in range(nobj):
        spec = [f"at ({gen_expr(rng, names, 1)} + {100 * j}, {gen_expr(rng, names, 1)})"]
        if rng.random() < 0.6:
            spec.append(f"facing {gen_expr(rng, names, 1)} deg")
        if rng.random() < 0.6:
            spec.append(f"with foo {gen_expr(rng, names, 2)}")
        if rng.random() < 0.4:
            spec.append(f"with bar {rng.choice(['BigInt()', 'RandStr()', 'RandBytes()', 'RandBool()', 'RandNone()', 'RandVec()', 'RandOri()'])}")
        if rng.random() < 0.3:
            spec.append("with baz (" + gen_expr(rng, names, 1) + ", [" + gen_expr(rng, names, 1) + ", 3])")
        if dynamic and (j == 0 or rng.random() < 0.3):
            spec.append(f"with behavior Foo({gen_expr(rng, names, 1)})")
        spec.append("with allowCollisions True")
        L.append(("ego = " if j == 0 else "") + f"new {'Thing' if custom else 'Object'} " + ", ".join(spec))
    for i in range(rng.randint(0, 3)):
        L.append(f"param p{i} = {rng.choice(['BigInt()', 'RandStr()', 'RandBytes()', 'RandBool()', gen_expr(rng, names, 2), '(' + gen_expr(rng, names, 1) + ', BigInt())'])}")
    if names and rng.random() < 0.3:
        L.append(f"require {names[0]} > -1000")
    job = dict(name=f"prog{idx}", seed=rng.randint(0, 10 ** 6), mode2D=rng.random() < 0.3, dynamic=dynamic, features=features)
    if cond:
        gen_condition(rng, job, L, nobj)
        L.append(f"new Object at (s0 * 10 + 500, {gen_expr(rng, names, 1)}), with qux (s0 + 1), with allowCollisions True")
    elif rng.random() < 0.25 and nobj >= 1:
        L.append(rng.choice(["mutate ego", "mutate", "mutate ego by 3"]))
        features.append("mutate")
    src = "\n".join(L) + "\n"
    job["src"] = src
    if dynamic:
        job["steps"] = rng.randint(2, 8)
        job["wr"] = rng.random() < 0.85
        job["perturbs"] = [gen_perturb(rng, nobj, job["steps"], custom) for _ in range(6)]
    return job


COND_PARAMS = {
    "cf": "s0",
    "ci": "DiscreteRange(0, 300)",
    "cd": "s0 * 2 + Range(1, 2)",
    "ct": "(Range(0, 1), DiscreteRange(1, 5))",
    "cm": "Uniform(Range(0, 1), Range(5, 6))",
    "cc": "4",
}


def gen_cond_value(rng, name, allow_defects):
    """A type-compatible new value for a conditioned parameter: constants (falsy, negative, huge) and
    distributions (primitive, deterministic with random dependencies).  `allow_defects`: also the two forms
    whose encoding is known to be broken (findings F23 / F24)."""
    if name == "cf":
        return rng.choice([["const", 0.25], ["const", 0.0], ["const", -1.5], ["const", 1e6], ["expr", "Range(10, 11)"],
                           ["expr", "Range(10, 11) + Range(0, 1)"], ["expr", "Uniform(Range(0, 1), Range(3, 4))"]])
    if name == "ci":
        return rng.choice([["const", 0], ["const", 7], ["const", 300], ["const", -40000], ["const", 2 ** 40],
                           ["expr", "DiscreteRange(5, 9)"], ["expr", "DiscreteRange(-70000, -69990)"]])
    if name == "cd":
        return rng.choice([["const", 2.5], ["const", 0.0], ["expr", "Range(0, 1) + Range(2, 3)"], ["expr", "Range(0, 1) * DiscreteRange(2, 3)"],
                           ["expr", "Uniform(Range(0, 1), Range(3, 4))"]] + ([["expr", "Range(10, 11)"]] * 2 if allow_defects else []))
    if name == "ct":
        return rng.choice([["const", [0.5, 2]], ["const", []], ["expr", "Range(0, 1) + Range(2, 3)"]] + ([["expr", "DiscreteRange(10, 11)"]] if allow_defects else []))
    if name == "cm":
        return rng.choice([["const", 3.0], ["expr", "Range(7, 8) + Range(0, 1)"]])
    return rng.choice([["const", 9], ["const", "abc"], ["const", 0], ["const", None]])


def gen_condition(rng, job, L, nobj):
    """Adds parameters to condition on and the sequence of Scenario.conditionOn calls (stages on the same scenario object)."""
    defects = rng.random() < 0.3
    names = [n for n in COND_PARAMS if n != "cm" and rng.random() < 0.6] or ["cf"]
    if defects and rng.random() < 0.5:
        names.append("cm")
    L.append("s0 = Range(0, 1)")
    for n in names:
        L.append(f"param {n} = {COND_PARAMS[n]}")
    stages = []
    for _ in range(rng.randint(1, 3)):
        objs = sorted(rng.sample(range(nobj), rng.randint(0, nobj)))
        ps = {n: gen_cond_value(rng, n, defects) for n in names if rng.random() < 0.5}
        if not objs and not ps:
            objs = [0]
        stages.append(dict(objects=objs, params=ps, scenes=rng.choice([1, 1, 2])))
    job["condition"] = stages
    job["features"].append("condition")


def gen_region(rng, cx, cy, size):
    k = rng.choice(["rect", "rect", "circle", "poly"])
    if k == "rect":
        return f"RectangularRegion(({cx}, {cy}), {rng.choice([0, 0, 0.5, 7])}, {size}, {size + rng.randint(0, 10)})"
    if k == "circle":
        return f"CircularRegion(({cx}, {cy}), {size / 2})"
    h = size / 2
    return f"PolygonalRegion([({cx - h}, {cy - h}), ({cx + h}, {cy - h}), ({cx + h + rng.randint(0, 5)}, {cy + h}), ({cx}, {cy + h + rng.randint(1, 6)}), ({cx - h}, {cy + h})])"


def gen_prune_program(rng, idx, dynamic=False):
    """Programs in which PRUNING conditions positions at compile time (containers, visibility): objects placed
    uniformly in regions that stick out of the workspace / of the ego's view, optionally conditioned further."""
    L = ["from verif_c18_helpers import BigInt, RandStr, RandBytes, RandBool, RandNone, SRandStr, SRandBytes, RandVec, RandOri"]
    features = ["prune"]
    mode2D = rng.random() < 0.5
    names = []
    for i in range(rng.randint(0, 2)):
        L.append(f"v{i} = {gen_expr(rng, names, 1)}")
        names.append(f"v{i}")
    if not mode2D and rng.random() < 0.3:
        L.append(f"workspace = Workspace(BoxRegion(dimensions=({rng.randint(20, 30)}, {rng.randint(20, 30)}, {rng.randint(10, 30)})))")
        box = True
    else:
        L.append(f"workspace = Workspace({gen_region(rng, 0, 0, rng.randint(20, 30))})")
        box = False
    nobj = rng.randint(1, 3)
    if dynamic:
        L += ["behavior Foo(k):", "    while True:", f"        take {rng.choice(RUNTIME_DRAWS)}", "        take k + Range(0, 1)"]
    for j in range(nobj):
        reg = f"BoxRegion(position=({rng.randint(-8, 8)}, {rng.randint(-8, 8)}, 0), dimensions=({rng.randint(25, 50)}, {rng.randint(25, 50)}, {rng.randint(4, 8)}))" \
            if box and rng.random() < 0.7 else gen_region(rng, rng.randint(-8, 8), rng.randint(-8, 8), rng.randint(25, 50))
        L.append(f"big{j} = {reg}")
        forms = ["in big%d" % j] * 3
        if j > 0:
            forms += ["visible, in big%d" % j, "in big%d, with requireVisible True" % j]
        if not mode2D and not box:
            forms += ["on big%d" % j] * 2
        spec = [rng.choice(forms)]
        if rng.random() < 0.5:
            spec.append(f"facing {gen_expr(rng, names, 1)} deg")
        if j == 0:
            spec.append(f"with visibleDistance {rng.choice([8, 12, 20, 50])}")
            if rng.random() < 0.5:
                spec.append(f"with viewAngle {rng.choice([90, 140, 200])} deg")
        if rng.random() < 0.5:
            spec.append(f"with foo {gen_expr(rng, names, 1)}")
        if dynamic and j == 0:
            spec.append(f"with behavior Foo({gen_expr(rng, names, 1)})")
        spec.append("with allowCollisions True")
        L.append(("ego = " if j == 0 else "") + "new Object " + ", ".join(spec))
    job = dict(name=f"prune{idx}", seed=rng.randint(0, 10 ** 6), mode2D=mode2D, dynamic=dynamic, features=features,
               max_iterations=3000, fresh_compile=True)
    if rng.random() < 0.5:
        gen_condition(rng, job, L, nobj)
    job["src"] = "\n".join(L) + "\n"
    if dynamic:
        job["steps"] = rng.randint(2, 5)
        job["wr"] = rng.random() < 0.85
        job["perturbs"] = [gen_perturb(rng, nobj, job["steps"], False) for _ in range(3)]
    return job


def dag_tokens(d):
    t = [str(len(d["nodes"]))]
    for n in d["nodes"]:
        if n[0] == "F":
            t.append("F")
        elif n[0] == "P":
            t += ["P", n[1]]
        elif n[0] == "D":
            t += ["D", str(len(n[1]))] + [str(x) for x in n[1]] + [str(len(n[2]))] + [str(x) for x in n[2]]
        elif n[0] == "M":
            t += ["M", str(n[1]), str(len(n[2]))] + [str(x) for x in n[2]]
    return t


def norm_line(s):
    """Canonicalise integers in an 'OK <int> <rest>' line (decimal vs 0b binary)."""
    p = s.split()
    if len(p) >= 2 and p[0] == "OK" and p[1] not in ("S", "I", "X", "B", "N"):
        p[1] = str(int(p[1], 0))
    return " ".join(p)


def zstr(s):
    z = int(s)
    return str(z) if abs(z) < 2 ** 60 else ("-" if z < 0 else "") + "0b" + bin(abs(z))[2:]


def val_tokens(v):
    if v[0] == "I":
        return ["I", zstr(v[1])]
    return list(v)


def byte_roles(d, line):
    """Role of every body byte: 'index' (selector of a multiplexer) or 'payload:<type>'."""
    if line.startswith("ERR") or not line.strip():
        return []
    idx_nodes = {n[1] for n in d["nodes"] if n[0] == "M"}
    roles = []
    for item in line.split(","):
        i, l = item.split(":")
        i, l = int(i), int(l)
        roles += [("index" if i in idx_nodes else "payload:" + d["nodes"][i][1])] * l
    return roles


def sim_command(events, rec):
    """The SIM command replaying one logged run through the extracted model; None if something in the
    log is outside the model (unsupported value type / overridden codec)."""
    steps, tables = [], []
    for i in rec["log"]:
        ev = events[i]
        if ev.get("unsupported"):
            return None
        if ev["k"] == "D":
            if "nodes" not in ev:
                return None
            steps.append("D " + " ".join(dag_tokens(dict(nodes=ev["nodes"]))) + " " + str(ev["root"]))
            if not ev.get("replayed"):
                t = [str(len(ev["pvals"]))]
                for k, v in ev["pvals"].items():
                    t += [str(k)] + val_tokens(v)
                tables.append(" ".join(t))
        else:
            t = ["U", str(len(ev["props"]))]
            for pr in ev["props"]:
                t += [pr[1]] + val_tokens(pr[2:])
            steps.append(" ".join(t))
    return " ".join(["SIM", "1" if rec["wr"] else "0", "1" if rec["cont"] else "0", zstr(rec["tol"][0]), zstr(rec["tol"][1]),
                     str(len(steps))] + steps + [str(len(tables))] + tables + [rec["replay"] or "-"])


def exact_vals(pr):
    """Exact rational components of a logged dynamic property value [prop, ty, tag, payload]."""
    import struct
    from fractions import Fraction
    ty, tag = pr[1], pr[2]
    if ty == "float":
        return [Fraction(struct.unpack("<d", bytes.fromhex(pr[3]))[0])]
    if ty == "vec":
        return [Fraction(x) for x in struct.unpack("<ddd", bytes.fromhex(pr[3]))]
    if ty in ("int", "bool"):
        return [Fraction(int(pr[3]))]
    return None


def spec_diverged(e, a, tol):
    """The property's reading of valuesHaveDiverged in exact arithmetic: differs by more than tol."""
    from fractions import Fraction
    ev, av = exact_vals(e), exact_vals(a)
    if ev is None:
        return e[2:] != a[2:]
    d2 = sum((x - y) ** 2 for x, y in zip(av, ev))
    if d2 == 0:
        return False
    return tol < 0 or d2 > tol * tol


def spec_first_divergence(events, rec0, rec, tol):
    """Walk the recording's and the replaying run's logs in parallel; True if some dynamic property of the replaying
    run differs from the recorded one by more than tol while recorded data remains."""
    u0 = [events[i] for i in rec0["log"] if events[i]["k"] == "U"]
    u1 = [events[i] for i in rec["log"] if events[i]["k"] == "U"]
    for x, y in zip(u0, u1):
        for e, a in zip(x["props"], y["props"]):
            if spec_diverged(e, a, tol):
                return True
    return False


def cg_tokens(d):
    t = [str(len(d["cg"]))]
    for own, proxy in d["cg"]:
        t += dag_tokens(dict(nodes=[own]))[1:]
        t += ["-"] if proxy is None else ["C", str(len(proxy))] + [str(x) for x in proxy]
    return t


def scene_commands(r):
    """[ENC, VIEW] and, when the implementation produced bytes, [DEC, cuts..., corruptions..., ROLES]."""
    d = r["dag"]
    toks = dag_tokens(d)
    pv = []
    for k, v in d["pvals"].items():
        pv += [str(k)] + val_tokens(v)
    enc_cmd = "ENC " + " ".join(toks + [str(len(d["pvals"]))] + pv + [str(len(d["deps"]))] + [str(x) for x in d["deps"]])
    cmds = [enc_cmd, "VIEW " + " ".join(cg_tokens(d))]
    dec_prefix = "DEC " + " ".join(toks + [str(len(d["deps"]))] + [str(x) for x in d["deps"]]) + " "
    hdr = r["header"]
    hdr_prefix = f"HDR {hdr['version']} {hdr['ast']} {hdr['opts']} "
    if "bytes" not in r:
        return cmds, dec_prefix, hdr_prefix
    data = r["bytes"]
    body = data[20:]
    cmds.append(dec_prefix + (body or "-"))
    cuts = [t[0] for t in r["trunc"]]
    for cut in cuts:
        p = data[:2 * cut]
        if cut < 10:
            cmds.append(hdr_prefix + (p or "-"))
        else:
            cmds.append(dec_prefix + (p[20:] or "-"))
    for pos, b, oc in r["corrupt"]:
        d2 = data[:2 * pos] + "%02x" % b + data[2 * pos + 2:]
        cmds.append((hdr_prefix + d2) if pos < 10 else (dec_prefix + (d2[20:] or "-")))
    cmds.append("ROLES " + dec_prefix[4:] + (body or "-"))
    return cmds, dec_prefix, hdr_prefix


def replay_commands(rp):
    cmds, idx = [], []
    for n, rec in enumerate(rp["runs"]):
        cmd = sim_command(rp["events"], rec)
        if cmd is not None:
            cmds.append(cmd)
            idx.append(n)
    return cmds, idx


def model_all(exe, results, nshards):
    """All driver work, sharded over `nshards` driver processes (one process per shard, commands of many
    programs batched: starting a driver per program costs 1-2 s each on a loaded machine)."""
    work = []
    for r in results:
        if "crash" in r or "skip" in r or r["dag"]["unsupported"]:
            continue
        sc = scene_commands(r)[0]
        rp = r.get("replay")
        rc, idx = replay_commands(rp) if rp and "skip" not in rp else ([], [])
        work.append((r["name"], sc, rc, idx, sum(len(x) for x in sc) + sum(len(x) for x in rc)))
    work.sort(key=lambda w: -w[4])
    shards = [[] for _ in range(max(1, nshards))]
    load = [0] * len(shards)
    for w in work:
        k = load.index(min(load))
        shards[k].append(w)
        load[k] += w[4] + 20000
    shards = [sh for sh in shards if sh]

    def run(sh):
        lines = []
        for _, sc, rc, _, _ in sh:
            lines += sc + rc
        outs = common.run_driver(exe, lines) if lines else []
        res, o = {}, 0
        for name, sc, rc, idx, _ in sh:
            res[name] = (outs[o:o + len(sc)], dict(zip(idx, outs[o + len(sc):o + len(sc) + len(rc)])))
            o += len(sc) + len(rc)
        return res

    out = {}
    if shards:
        with cf.ThreadPoolExecutor(len(shards)) as ex:
            for res in ex.map(run, shards):
                out.update(res)
    return out


def check_replay(c, exe, job, r, rp, model):
    from fractions import Fraction
    c.hist("replays")
    c.count(("replay", job["src"], job["seed"]), nontrivial=rp.get("ndraws", 0) > 0)
    shared = "shared-dep" in job.get("features", [])
    mutated = bool(r.get("mutated"))
    base = dict(job=job, scene_has_mutated_objects=mutated, shared_unsampled_dependency=shared)
    if not rp["equal"]:
        c.violation("replay", "replayed simulation differs from the original", dict(base, outcome=rp["outcome"], diff=rp.get("diff")))
    for key in ("api_rerecord_equal", "rerecord_equal", "replay_equal", "otherflag_equal", "gen2_equal", "extended_prefix_equal", "extended_gen2_equal"):
        if key in rp:
            c.hist("replay:" + key)
            if not rp[key] and not mutated:
                c.violation("replay", f"replay check failed: {key}", dict(base, which=key, detail={k: rp.get(k) for k in ("gen2_outcome", "extended_outcome")}))
    events, runs = rp["events"], rp["runs"]
    for n, rec in enumerate(runs):
        if n not in model:
            c.hist("replay-model-skip:" + rec["kind"])
    rec0 = runs[0]
    for n, rec in enumerate(runs):
        kind, oc = rec["kind"], rec["outcome"]
        c.count(n=1)
        c.hist(f"replay-run:{kind}:{oc.split(':')[0]}")
        info = dict(base, run={k: v for k, v in rec.items() if k not in ("log",)}, run_index=n)
        # property oracles on the implementation
        if oc.startswith("other") or oc == "rejected":
            vk = "truncation" if kind == "trunc" else ("corruption" if kind == "corrupt" else "replay")
            c.violation(vk, f"{kind} replay fails with something other than SerializationError/DivergenceError", dict(info, byte_role=replay_byte_role(events, rec0, rec.get("pos"))))
            continue
        if kind in ("record", "replay", "replay-otherflag", "gen2", "extended", "extended-gen2") and oc != "ok" and not mutated:
            c.violation("replay", f"{kind} run did not complete: {oc}", info)
        if kind == "trunc" and oc == "DivergenceError":
            c.violation("truncation", "truncated replay reported as divergent", info)
        if kind == "corrupt":
            c.hist("replay-corrupt-role:" + replay_byte_role(events, rec0, rec["pos"]) + ":" + oc)
        if kind == "perturb":
            pt = rec["pt"]
            spec = spec_first_divergence(events, rec0, rec, Fraction(pt["tol"]))
            want = ("ok" if pt["cont"] else "DivergenceError") if spec else "ok"
            c.count(("perturb", pt["prop"], str(pt["delta"]), pt["tol"]), nontrivial=True)
            c.hist(f"divergence:{pt['ty']}:{'beyond' if spec else 'within'}")
            if oc != want:
                c.violation("divergence", "divergence beyond the tolerance not reported (or reported within it)", dict(info, spec_diverged=spec, expected_outcome=want))
        # the extracted model on the same requests
        if n in model:
            m = model[n].split(" | ")
            mo = m[0].split()[0]
            want = {"ok": "OK", "SerializationError": "FAIL", "DivergenceError": "DIVERGED"}.get(oc)
            c.cov["traces_validated_against_impl"] += 1
            blob = json.dumps([events[i].get("nodes", "") for i in rec["log"]]) + json.dumps([[pr[1] for pr in events[i].get("props", [])] for i in rec["log"]])
            validated = '"str"' in blob or '"ori"' in blob
            if kind == "corrupt" and oc == "SerializationError" and mo in ("OK", "DIVERGED") and validated:
                # the model does not validate UTF-8 nor quaternions: the implementation refuses more
                c.hist("replay-corrupt:payload-refused-by-impl-only")
            elif mo != want:
                c.violation("correspondence", "replay model and implementation end differently", dict(info, model=model[n][:300]))
            elif oc == "ok" and m[2] != (rec.get("out") or "-"):
                c.violation("correspondence", "replay model records different bytes than the implementation", dict(info, model_out=m[2][:2000]))
    c.sample(dict(replay_program=job["src"], runs=len(runs), replay_bytes=len(rec0.get("out", "")) // 2, events=len(events)), limit=5)


def replay_byte_role(events, rec0, pos):
    """header / draw:<index|payload> / divergence-data, for a byte offset of the recorded replay."""
    if pos is None:
        return "-"
    if pos < 6:
        return "header"
    off = 6
    for i in rec0["log"]:
        ev = events[i]
        if ev["k"] == "D":
            ln = 0
            for k, v in ev["pvals"].items():
                pass
            # length of this draw's bytes is not logged; approximate by re-encoding the primitive values
            ln = sum(val_len(v) for v in ev["pvals"].values()) if len(ev["nodes"]) == 1 else None
            if ln is None:
                return "draw"
            if pos < off + ln:
                return "draw:" + ev["nodes"][0][1]
            off += ln
        elif rec0["wr"]:
            for pr in ev["props"]:
                ln = val_len(pr[2:])
                if pos < off + ln:
                    return "divergence-data:" + pr[1]
                off += ln
    return "beyond"


def val_len(v):
    if v[0] == "I":
        z = int(v[1])
        if 0 <= z <= 252:
            return 1
        if -32768 <= z <= 32767:
            return 3
        if -2 ** 31 <= z < 2 ** 31:
            return 5
        return 2 + max(1, -(-(z.bit_length() + 1) // 8))
    if v[0] == "B":
        return 1
    if v[0] == "X":
        return len(v[1]) // 2
    if v[0] == "S":
        n = 0 if v[1] == "-" else len(v[1]) // 2
        return n + val_len(["I", str(n)])
    return 0


def main():
    c = Check(PID, "proof")
    c.cov["rule"] = ("programs drawn from a seeded generator (random values of every codec type, nested/conditional "
                     "distributions, shared values, big integers at every width boundary, behaviours drawing at run time; "
                     "scenarios conditioned by sequences of Scenario.conditionOn on objects/parameters and by pruning of "
                     "positions - every stage of the same scenario object is a case); "
                     "a case is non-trivial when its encoding has a body (at least one sampled value) and distinct by the hash "
                     "of (program, sample bytes)")
    phase = {}
    t0 = time.time()
    common.ensure_parser()
    if not c.proofs():
        c.finish()
    exe = common.build_ocaml(PID)
    phase["proofs+build"] = round(time.time() - t0, 1)
    t0 = time.time()
    quick = c.tier == "quick"
    nprog = 48 if quick else 220
    rng = c.rng
    # corpus first
    jobs = []
    corpus_dir = os.path.join(common.VERIF, "corpus", PID)
    if os.path.isdir(corpus_dir):
        for f in sorted(os.listdir(corpus_dir)):
            if f.endswith(".json"):
                jobs.append(json.load(open(os.path.join(corpus_dir, f))))
    jobs += [gen_program(rng, i, dynamic=(i % 3 == 0), cond=(i % 4 == 1 or i % 12 == 6)) for i in range(nprog)]
    nprune = 14 if quick else 70
    jobs += [gen_prune_program(rng, i, dynamic=(i % 5 == 4)) for i in range(nprune)]
    for j in jobs:
        j.setdefault("npos", 50 if quick else 200)
        j.setdefault("alts", 5 if quick else 16)
        j.setdefault("max_cuts", 150 if quick else 600)
        j.setdefault("replay_cuts", 25 if quick else 500)      # thorough: EVERY cut of replays up to 500 bytes
        j.setdefault("replay_corruptions", 12 if quick else 40)
    if c.replay:
        body = json.load(open(c.replay))
        jobs = [body["case"]["job"]] if "job" in body.get("case", {}) else jobs[:4]

    # the implementation runs of the generated programs start now and proceed while the codec sweep runs
    nw = int(os.environ.get("VERIF_WORKERS", common.NCPU))   # dev knob: fewer implementation processes on a shared machine
    jobs_by_cost = sorted(jobs, key=lambda j: -(3 * bool(j.get("dynamic")) + len(j.get("condition", [])) + 1))
    chunks = [jobs_by_cost[i::nw] for i in range(nw)]
    chunks = [ch for ch in chunks if ch]
    impl_pool = cf.ThreadPoolExecutor(len(chunks))
    impl_futures = [impl_pool.submit(common.run_impl, "impl_c18.py", dict(kind="programs", programs=ch), 7000) for ch in chunks]

    # ---- (1) direct codec sweep: integers across all width boundaries, truncated ints
    ints = set()
    for b in [0, 252, 253, 255, 256, 2 ** 15, 2 ** 16, 2 ** 31, 2 ** 32, 2 ** 63, 2 ** 64, 2 ** 255, 2 ** 2031, 2 ** 2032, 2 ** 2039, 2 ** 2040]:
        for d in range(-3, 4):
            ints.update([b + d, -b + d])
    for _ in range(200 if quick else 5000):
        ints.add(rng.randint(-(2 ** rng.randint(1, 2100)), 2 ** rng.randint(1, 2100)))
    ints = sorted(ints)
    cases = [["WI", str(z)] for z in ints]
    def sharded_driver(lines, k=4):
        """one driver process per shard, concurrently (extracted arithmetic on inductive integers is slow)"""
        parts = [lines[i::k] for i in range(k)]
        with cf.ThreadPoolExecutor(k) as ex:
            outs = list(ex.map(lambda p: common.run_driver(exe, p) if p else [], parts))
        res = [None] * len(lines)
        for i, o in enumerate(outs):
            res[i::k] = o
        return res

    with cf.ThreadPoolExecutor(1) as ex1:
        fut = ex1.submit(sharded_driver, ["WI " + zstr(str(z)) for z in ints])
        impl = common.run_impl("impl_c18.py", dict(kind="codec", cases=cases))["results"]
        model = fut.result()
    rcases, mlines = [], []
    for z, a, m in zip(ints, impl, model):
        c.count(("WI", z), nontrivial=True)
        c.hist("codec:write_int")
        if a != m:
            c.violation("correspondence", "write_int differs between model and implementation", dict(op="WI", z=str(z), impl=a, model=m))
        if a.startswith("SOME"):
            h = a.split()[1]
            L = len(h) // 2
            # every truncation of short encodings; for the long (up to 257-byte) ones the first 12, the last 3 and 10 random cuts
            cutset = range(0, L + 1) if L <= 24 else sorted(set(list(range(12)) + [L - 2, L - 1, L] + rng.sample(range(12, L - 2), 10)))
            for cut in cutset:
                rcases.append(["RI", h[:2 * cut] or "-"])
            rcases.append(["RI", h + "ab"])
    # random byte strings into readInt / readBytes
    for _ in range(300 if quick else 20000):
        n = rng.randint(0, 12)
        h = bytes([rng.choice([253, 254, 255, rng.randint(0, 255)])] + [rng.randint(0, 255) for _ in range(n)]).hex()
        rcases.append(["RI", h])
        rcases.append(["RB", h])
    with cf.ThreadPoolExecutor(1) as ex1:
        fut = ex1.submit(sharded_driver, [("RI " + a) if k == "RI" else ("RV bytes " + a) for k, a in rcases])
        impl = common.run_impl("impl_c18.py", dict(kind="codec", cases=rcases))["results"]
        model = fut.result()
    for (k, arg), a, m in zip(rcases, impl, model):
        c.count((k, arg), nontrivial=True)
        c.hist("codec:" + ("read_int" if k == "RI" else "read_bytes"))
        if norm_line(a) != norm_line(m):
            c.violation("correspondence", f"{k} differs between model and implementation", dict(op=k, data=arg, impl=a, model=m))
    c.sample(dict(op=rcases[0], impl=impl[0], model=model[0]))

    phase["codec-sweep"] = round(time.time() - t0, 1)
    t0 = time.time()
    # ---- (2) programs through the real scenario codec
    results = []
    for fu in impl_futures:
        results += fu.result()["results"]
    impl_pool.shutdown()
    phase["implementation"] = round(time.time() - t0, 1)
    t0 = time.time()
    by_name = {j["name"]: j for j in jobs}
    skipped = 0
    mouts = model_all(exe, results, min(8, int(os.environ.get("VERIF_WORKERS", 8))))
    phase["model"] = round(time.time() - t0, 1)
    t0 = time.time()
    for r in results:
        job = by_name.get(r.get("job_name"))
        stage = r.get("stage")
        if "crash" in r:
            c.violation("harness", "implementation driver crashed", dict(job=job, crash=r["crash"]), no_input=True)
            continue
        if "skip" in r:
            skipped += 1
            c.hist("skip:" + r["skip"].split(":")[0] + (":" + r["skip"].split(":")[1].strip() if r["skip"].startswith("condition:") else ""))
            continue
        d = r["dag"]
        cond = r.get("cond", {})
        # what the matchers of the open findings look at (structure of the case, not the input text)
        base = dict(job=job, stage=stage, condition=r.get("condition"), conditioned_nodes=cond.get("cond"),
                    deterministic_value_conditioned_to_random_proxy=bool(cond.get("random_proxy")),
                    conditioned_multiplexer=bool(cond.get("cond_mux")))
        # parameters conditioned (at this or an earlier stage) to a bare primitive distribution
        import re
        nst = 0 if stage == "plain" else int(stage[4:].split(".")[0]) + 1
        rnd = {n for st in (job.get("condition") or [])[:nst] for n, sp in st.get("params", {}).items()
               if sp[0] == "expr" and re.fullmatch(r"(Range|DiscreteRange|Normal|TruncatedNormal)\([^()]*\)", sp[1])}
        diffs_ = r.get("roundtrip_diff")
        base["diff_only_params_conditioned_to_random"] = bool(rnd) and all(x[0] == "param" and x[1] in rnd for x in (diffs_ or []))
        base["encode_fails"] = "bytes" not in r
        c.hist("programs")
        c.hist("stage:" + ("plain" if stage == "plain" else "conditioned"))
        c.hist("conditioned-nodes:" + ("0" if not cond.get("ncond") else ("1" if cond["ncond"] == 1 else "2+")))
        for k in cond.get("cond", []):
            c.hist("cond:" + k.split(":")[0])
        for n in d["nodes"]:
            c.hist("node:" + n[0] + (":" + n[1] if n[0] == "P" else ""))
        # hypotheses of C18_conditioned_roundtrip: dag_ordered (dependencies are numbered before their users) ...
        kids = lambda n: (n[1] + n[2]) if n[0] == "D" else ([n[1]] + n[2] if n[0] == "M" else [])
        if not all(all(x < i for x in kids(n)) for i, n in enumerate(d["nodes"])):
            c.violation("correspondence", "exported DAG violates dag_ordered (exporter no longer post-order?)", dict(job=job), no_input=True)
        if d["unsupported"]:
            c.hist("unsupported-node", len(d["unsupported"]))
            continue
        # ... and conditioned_consistent: the encoder's and the decoder's walk of every deterministic node agree
        incons = [(i, n[1], n[2]) for i, n in enumerate(d["nodes"]) if n[0] == "D" and n[1] != n[2]]
        if incons:
            c.violation("correspondence", "encoder and decoder walk different dependency lists at a deterministic node "
                        "(hypothesis conditioned_consistent of the round-trip theorem fails)", dict(base, nodes=incons[:5]))
        out = list(mouts[r["name"]][0])
        # the model's code_view of (own dependencies, proxy dependencies) is the DAG the code was seen to walk
        want_view = " ".join(dag_tokens(d))
        if out[1] != want_view:
            c.violation("correspondence", "the walks observed on the implementation are not the model's code_view of the conditioned DAG",
                        dict(base, model=out[1][:600], impl=want_view[:600]))
        if "bytes" not in r:
            # the implementation cannot encode its own scene
            c.count((job["src"], stage, "encode-fails"), nontrivial=True)
            c.violation("roundtrip", "a scene of the scenario cannot be encoded: " + r["encode_outcome"], dict(base, info=r.get("encode_info")))
            if out[0] != "NONE":
                c.violation("correspondence", "model encodes a sample the implementation fails to encode", dict(base, model=out[0][:200]))
            continue
        data = r["bytes"]
        body = data[20:]
        c.count((job["src"], stage, data), nontrivial=len(body) > 0)
        c.cov["traces_validated_against_impl"] += 1
        if cond.get("ncond"):
            c.count(("conditioned", job["src"], stage, data), nontrivial=True)
        c.hist("body_bytes<=16" if len(body) <= 32 else ("body_bytes<=128" if len(body) <= 256 else "body_bytes>128"))
        # property oracle
        if not r["roundtrip_equal"]:
            POSE = {"position", "heading", "yaw", "pitch", "roll", "orientation"}
            diffs = r.get("roundtrip_diff") or []
            only_mut = bool(diffs) and all(d[0] in r.get("mutated", []) and d[1] in POSE for d in diffs)
            c.violation("roundtrip", "decoded scene differs from the original",
                        dict(base, outcome=r["roundtrip_outcome"], diff=diffs, diff_only_pose_of_mutated_objects=only_mut))
        for key, what in (("reencode_equal", "re-encoding the decoded scene gives different bytes"),
                          ("redecode_equal", "decoding the same bytes twice gives different scenes"),
                          ("fresh_equal", "a fresh compilation of the same program decodes the bytes to a different scene")):
            if key in r:
                c.hist("oracle:" + key)
                if not r[key] and not (r.get("mutated") and key != "reencode_equal"):
                    c.violation("roundtrip", what, dict(base, which=key, outcome=r.get("fresh_outcome")))
        if "other_program" in r and r.get("other_program") not in ("SerializationError",):
            c.violation("foreign-data", "scene from a different program was not refused", dict(job=job, outcome=r.get("other_program")))
        if r.get("other_options") not in ("SerializationError", None):
            c.violation("foreign-data", "scene with different compile options was not refused", dict(job=job, outcome=r.get("other_options")))
        # model: encode and decode (driver output computed in parallel above)
        cuts = [t[0] for t in r["trunc"]]
        roles = byte_roles(d, out.pop())
        if out[0] != "SOME " + (body or "-"):
            c.violation("correspondence", "model encodes the sample to different bytes", dict(base, impl=body, model=out[0]))
        got = out[2]
        # the decoder only sees the values that were written (used values)
        if not got.startswith("OK ") or not got.endswith("| -"):
            c.violation("correspondence", "model fails to decode the implementation's bytes", dict(base, model=got))
        else:
            dec = dict()
            for item in got[3:-3].strip().split(" ; "):
                if item.strip():
                    parts = item.split()
                    dec[int(parts[0])] = parts[1:]
            for k, v in dec.items():
                if str(k) not in d["pvals"] or val_tokens(d["pvals"][str(k)]) != v:
                    c.violation("correspondence", "model decodes a different value", dict(base, node=k, impl=d["pvals"].get(str(k)), model=v))
        o = 3
        for (cut, oc), m in zip(r["trunc"], out[o:o + len(cuts)]):
            c.count(n=1)
            c.hist("trunc:" + oc)
            if oc != "SerializationError":
                c.violation("truncation", "truncated data not refused with SerializationError", dict(base, cut=cut, outcome=oc, model=m, info=r.get("trunc_info")))
            if not m.startswith("ERR"):
                c.violation("correspondence", "model accepts a truncated encoding", dict(base, cut=cut, model=m))
        o += len(cuts)
        for (pos, b, oc), m in zip(r["corrupt"], out[o:]):
            c.count(n=1)
            c.hist("corrupt:" + oc.split(":")[0])
            c.hist("corrupt-role:" + (roles[pos - 10] if pos >= 10 and pos - 10 < len(roles) else "header") + ":" + oc.split(":")[0])
            if oc.startswith("other"):
                c.violation("corruption", "corrupted data fails with something other than SerializationError", dict(base, pos=pos, byte=b, outcome=oc, info=r.get("corrupt_info")))
            if m.startswith("ERR") and oc == "ok":
                c.violation("correspondence", "implementation decodes a corruption the model refuses", dict(base, pos=pos, byte=b, model=m))
        c.sample(dict(program=job["src"], stage=stage, condition=r.get("condition"), conditioned=cond.get("cond"), bytes=data,
                      dag_nodes=len(d["nodes"]), truncations=len(cuts), corruptions=len(r["corrupt"])), limit=3 if stage == "plain" else 6)
        # replay
        rp = r.get("replay")
        if rp and "skip" not in rp:
            check_replay(c, exe, job, r, rp, mouts[r["name"]][1])
        elif rp:
            c.hist("replay-skip")
    phase["compare"] = round(time.time() - t0, 1)
    c.cov["phase_s"] = phase
    c.cov["programs"] = len(results) - skipped
    c.cov["skipped_programs"] = skipped
    c.assumptions += [
        "struct's IEEE-754 encoding of floats/Vectors/Orientations is opaque: 8/24/32 bytes compared bit-exactly",
        "extraction via ExtrOcamlBasic only; OCaml compiler; 120-line driver",
        "model = hand-written Gallina (coq/C18/Codec.v) tied to the code by this differential run only",
    ]
    c.finish()


if __name__ == "__main__":
    main()
