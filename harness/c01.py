"""C01 — scenes are drawn from exactly the program's conditional distribution.
Proof layer: coq/Properties/C01.v.  Three-way tie on generated programs of the finite-discrete
fragment: (a) the implementation's exact outcome distribution by enumeration of every RNG path of
Scenario._generateInner, (b) the extracted Coq model run on the DAG exported from the compiled
Scenario (same RNG calls, same values, same probabilities, path by path), (c) the specified law
computed from the generator's own AST (prior, conditioning, soft-requirement mixture, closed-form
rejection law).  (a) != (c): property violation.  (a) != (b): correspondence break."""
import concurrent.futures as cf
import json
import os
import sys
from fractions import Fraction

sys.path.insert(0, os.path.dirname(os.path.abspath(__file__)))
import common
from common import Check
import c01_progs as P

PID = "C01"
WORKERS = min(8, common.NCPU)


def gen_line(dag, n):
    toks = ["GEN", str(n), str(len(dag["nodes"]))]
    for nd in dag["nodes"]:
        toks += nd
    toks += [str(len(dag["deps"]))] + [str(d) for d in dag["deps"]]
    toks += [str(len(dag["reqs"]))]
    for r in dag["reqs"]:
        toks += r
    return " ".join(toks)


def parse_model(line, dag):
    """-> (hdr dict, {log: (prob, outcome)}) with outcome 'REJ' or [iters, {obs}]"""
    if line.startswith("FAIL"):
        raise ValueError(line)
    hdr_s, _, body = line.partition(" # ")
    hdr = dict(x.split("=", 1) for x in hdr_s.split())
    out = {}
    for item in body.split(" ; "):
        lg, p, o = [x.strip() for x in item.split(" | ")]
        if o == "REJ":
            res = "REJ"
        else:
            parts = o.split(" ")
            memo = parts[1:]
            res = [int(parts[0]), {lab: (memo[node] if node is not None else cv) for lab, node, cv in dag["obs"]}]
        if lg in out:
            raise ValueError("model produced the same call log twice: " + lg)
        out[lg] = (p, res)
    return hdr, out


def qparse(s):
    a, b = s.split("/")
    return Fraction(int(a), int(b))


def aggregate(runs):
    d = {}
    for lg, p, res in runs:
        key = "REJ" if res == "REJ" else (res[0], json.dumps(res[1], sort_keys=True))
        d[key] = d.get(key, Fraction(0)) + qparse(p)
    return d


def shrink(prog, fails, budget=10):
    """greedy statement dropping while the failure persists"""
    cur = prog
    changed = True
    while changed and budget > 0:
        changed = False
        for i in range(len(cur["stmts"]) - 1, -1, -1):
            if cur["stmts"][i][0] == "object" and sum(1 for s in cur["stmts"] if s[0] == "object") == 1:
                continue
            cand = dict(stmts=cur["stmts"][:i] + cur["stmts"][i + 1:])
            try:
                P.Spec(cand)
            except Exception:
                continue
            budget -= 1
            if budget <= 0:
                break
            try:
                if fails(cand):
                    cur, changed = cand, True
                    break
            except Exception:
                continue
    return cur


def make_job(prog, name, mode2D, maxits, max_paths):
    reqs = [json.loads(json.dumps(P.to_json(st[2]))) for st in prog["stmts"] if st[0] == "require"]
    return dict(name=name, src=P.source(prog), mode2D=mode2D, maxits=maxits, reqs=reqs, max_paths=max_paths,
                ast=P.to_json(prog))


def judge_star(args):
    return judge(*args)


def judge(exe, job, res, pre=None):
    """Compare implementation / model / spec for one program.  Returns (list of (kind, what, detail),
    dict(hist=[keys], traces=int)); pure (runs in worker processes)."""
    bad = []
    rec = dict(hist=[], traces=0)
    prog = P.from_json(job["ast"])
    if "crash" in res:
        # A program some needed variable of which raises under some joint assignment (zero divisor met on a branch that
        # creation order would have rejected earlier, ...) has no specified law: outside the fragment.  The generator
        # filters these (Spec.check_total); a replayed / corpus program that is partial BY THE SPEC'S OWN EVALUATION is
        # counted as skipped.  A crash of a program the spec finds total stays a violation.
        try:
            P.Spec(prog).check_total()
        except Exception as e:
            rec["hist"].append(f"skipped:outside-fragment:partial-program({type(e).__name__})")
            rec["skipped"] = True
            return bad, rec
    for k in ("compile_error", "walk_error", "unsupported", "crash"):
        if k in res:
            kind = "correspondence" if k in ("walk_error", "unsupported") else "harness"
            bad.append((kind, f"{k}: the compiled scenario could not be tied to the model", dict(error=res[k])))
            return bad, rec
    dag = res["dag"]
    spec = P.Spec(prog)
    for n_s, runs in res["runs"].items():
        n = int(n_s)
        if runs == "too-many-paths":
            rec["hist"].append("skipped:too-many-paths")
            continue
        # (b) model
        try:
            line = pre[(job["name"], n)] if pre and (job["name"], n) in pre else common.run_driver(exe, [gen_line(dag, n)])[0]
            if isinstance(line, Exception):
                raise line
            hdr, model = parse_model(line, dag)
        except Exception as e:
            bad.append(("correspondence", "model driver failed on the exported DAG", dict(error=str(e)[:500], n=n)))
            continue
        if hdr.get("wf") != "1" or hdr.get("reach") != "1" or hdr.get("good") != "1":
            bad.append(("model-hypothesis", "exported DAG violates a hypothesis of sampler_is_prior / rejection_probability "
                        "(creation order / needed set / well-formed cumulative weights)",
                        dict(hdr=hdr, n=n)))
        impl = {lg: (p, r) for lg, p, r in runs}
        if len(impl) != len(runs):
            bad.append(("harness", "implementation produced the same call log on two paths", dict(n=n)))
        for lg, (p, r) in impl.items():
            m = model.get(lg)
            if m is None:
                bad.append(("correspondence", "implementation took an RNG path the model does not have",
                            dict(n=n, path=lg, impl=[p, r], model_paths=len(model))))
                break
            if m[0] != p or m[1] != r:
                bad.append(("correspondence", "model and implementation differ on the same RNG path",
                            dict(n=n, path=lg, impl=[p, r], model=list(m))))
                break
        else:
            extra = [lg for lg in model if lg not in impl]
            if extra:
                bad.append(("correspondence", "model has an RNG path the implementation does not take",
                            dict(n=n, path=extra[0], model=list(model[extra[0]]))))
        # (c) spec
        want = spec.distribution(n)
        got = aggregate(runs)
        if want != got:
            keys = sorted(set(want) | set(got), key=str)
            diff = [(str(k), str(want.get(k, 0)), str(got.get(k, 0))) for k in keys if want.get(k, 0) != got.get(k, 0)]
            wit = None
            for lg, p, r in runs:
                key = "REJ" if r == "REJ" else (r[0], json.dumps(r[1], sort_keys=True))
                if want.get(key, 0) != got.get(key, 0):
                    wit = dict(path=lg, prob=p, outcome=r)
                    break
            bad.append(("distribution", "the implementation's exact outcome distribution differs from the program's conditional prior",
                        dict(n=n, differing_outcomes=diff[:6], n_differing=len(diff), witness_path=wit)))
        rec["traces"] += len(runs)
        rec["hist"].append(f"paths<={10 ** len(str(len(runs)))}")
        rec["hist"].append(f"maxIterations={n}")
    return bad, rec


def run_jobs(jobs):
    chunks = [jobs[i::WORKERS] for i in range(WORKERS)]
    chunks = [ch for ch in chunks if ch]
    results = []
    with cf.ThreadPoolExecutor(len(chunks)) as ex:
        for r in ex.map(lambda ch: common.run_impl("impl_c01.py", dict(programs=ch), timeout=7000), chunks):
            results += r["results"]
    return {r["name"]: r for r in results}


def oracle_selftest():
    """The RNG oracle is trusted by both comparisons: check on two tiny functions that one random.random() value
    compared with two thresholds is ONE real (comonotone answers) while two calls are independent."""
    import random
    import c01_rngenum as R

    def shared():
        u = random.random()
        return (u <= 0.5, u <= 0.25)

    def indep():
        return (random.random() <= 0.5, random.random() <= 0.25)
    a = {r: p for _, p, r in R.enumerate_runs(shared)}
    b = {r: p for _, p, r in R.enumerate_runs(indep)}
    return (a == {(True, True): Fraction(1, 4), (True, False): Fraction(1, 4), (False, False): Fraction(1, 2)}
            and b == {(True, True): Fraction(1, 8), (True, False): Fraction(3, 8), (False, True): Fraction(1, 8),
                      (False, False): Fraction(3, 8)})


def main():
    c = Check(PID, "proof")
    c.cov["rule"] = ("programs of the finite-discrete fragment drawn from a seeded generator over a spec AST (weighted/uniform "
                     "choices, integer ranges with random bounds, shared values, resample, lifted operators/attributes/calls/"
                     "containers/star-unpacking, 0-4 hard and soft requirements (p in 1/8..3/4, 0, 1; ~30% of the programs have >= 2 "
                     "requirements with 0 < p < 1, see proper_soft_requirements=k), rebinding after require, params and object "
                     "properties, 2D and 3D); every RNG path of _generateInner enumerated exactly.  A case is non-trivial when "
                     "the scene depends on >= 2 random draws and has > 1 RNG path; distinct by hash of (source, maxIterations)")
    common.ensure_parser()
    if not os.environ.get("VERIF_DEV_NOPROOFS") and not c.proofs():
        c.finish()
    exe = common.build_ocaml(PID)
    if not oracle_selftest():
        c.violation("harness", "RNG oracle self-test failed (a shared random.random() value must be one real)",
                    dict(test="c01.oracle_selftest"), no_input=True)
    quick = c.tier == "quick"
    nprog = int(os.environ.get("VERIF_C01_N", 64 if quick else 800))
    shrunk_kinds = set()
    rng = c.rng
    jobs = []
    corpus_dir = os.path.join(common.VERIF, "corpus", PID)
    if os.path.isdir(corpus_dir):
        for f in sorted(os.listdir(corpus_dir)):
            if f.endswith(".json"):
                jobs.append(json.load(open(os.path.join(corpus_dir, f))))
    for i in range(nprog):
        prog, sp = P.gen_program(rng)
        if quick:
            maxits = [1] if i % 3 else [1, 2]
        else:
            maxits = [1, 2, 3] if i % 4 == 0 else [1, 2]
        jobs.append(make_job(prog, f"prog{i}", mode2D=(i % 2 == 0), maxits=maxits, max_paths=4000 if quick else 20000))
    if c.replay:
        body = json.load(open(c.replay))
        case = body.get("case", {})
        jobs = [case["job"]] if "job" in case else jobs[:3]
    results = run_jobs(jobs)
    todo = [job for job in jobs if results.get(job["name"]) is not None]
    with cf.ProcessPoolExecutor(WORKERS) as ex:      # model driver + spec evaluator per program, in parallel
        judged = dict(zip([j["name"] for j in todo],
                          ex.map(judge_star, [(exe, j, results[j["name"]]) for j in todo], chunksize=2)))
    for job in jobs:
        res = results.get(job["name"])
        if res is None:
            c.violation("harness", "no result for program", dict(job=job), no_input=True)
            continue
        bad, rec = judged[job["name"]]
        c.cov["traces_validated_against_impl"] += rec["traces"]
        for k in rec["hist"]:
            c.hist(k)
        prog = P.from_json(job["ast"])
        sp = P.Spec(prog)
        nr = sp.n_random()
        npaths = max([len(r) for r in res.get("runs", {}).values() if isinstance(r, list)] + [0])
        for n in job["maxits"]:
            c.count((job["src"], n), nontrivial=(nr >= 2 and npaths > 1 and not rec.get("skipped")))
        c.hist(f"random_nodes={nr}")
        c.hist("mode2D" if job["mode2D"] else "mode3D")
        for st in prog["stmts"]:
            if st[0] == "require":
                c.hist("require-soft" if st[1] is not None else "require-hard")
        nsoft = sum(1 for st in prog["stmts"] if st[0] == "require" and st[1] is not None and 0 < st[1] < 1)
        c.hist(f"proper_soft_requirements={min(nsoft, 3)}{'+' if nsoft >= 3 else ''}")
        for kd in res.get("dag", {}).get("kinds", []):
            if kd != "const":
                c.hist("node:" + kd)
        if len(c.cov["samples"]) < 3 and nr >= 3:
            c.sample(dict(program=job["src"], paths=npaths, maxits=job["maxits"],
                          outcomes=len(sp.distribution(job["maxits"][-1]))), limit=3)
        seen = set()
        for kind, what, detail in bad:
            if kind in seen:
                continue
            seen.add(kind)
            c.cov["disagreements_checked"] += 1
            small = job
            if kind in ("distribution", "correspondence") and not c.replay and kind not in shrunk_kinds \
                    and not os.environ.get("VERIF_NOSHRINK"):
                shrunk_kinds.add(kind)
                def fails(cand, kind=kind):
                    j2 = make_job(cand, job["name"], job["mode2D"], [detail.get("n", job["maxits"][0])], job["max_paths"])
                    r2 = run_jobs([j2])[job["name"]]
                    return any(k2 == kind for k2, _, _ in judge(exe, j2, r2)[0])
                try:
                    sprog = shrink(prog, fails)
                    if sprog is not prog:
                        small = make_job(sprog, job["name"], job["mode2D"], [detail.get("n", job["maxits"][0])], job["max_paths"])
                        r2 = run_jobs([small])[job["name"]]
                        for k2, w2, d2 in judge(exe, small, r2)[0]:
                            if k2 == kind:
                                detail = d2
                                break
                except Exception as e:          # shrinking is best effort
                    detail = dict(detail, shrink_error=str(e)[:200])
            c.violation(kind, what, dict(job=small, program=small["src"], detail=detail))
    c.assumptions += [
        "random.random() is an exact uniform real on [0,1) and RNG calls are independent (P(random() <= p) = p)",
        "weights are dyadic rationals so that itertools.accumulate on floats is exact",
        "requirement conditions reach the model from the generator's AST; their name bindings from the compiled closure",
        "extraction via ExtrOcamlBasic only; OCaml compiler; ocaml/c01/driver.ml",
    ]
    c.finish()


if __name__ == "__main__":
    main()
