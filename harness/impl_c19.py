"""C19 implementation side: compile each dynamic program, generate its (deterministic) scene, and
enumerate every RNG path of a whole DummySimulator run -> exact distribution over action logs."""
import json
import random
import sys
import traceback
from fractions import Fraction

import c01_rngenum as R


def run_program(job):
    import scenic
    from scenic.core.simulators import DummySimulator
    res = dict(name=job["name"])
    try:
        scenario = scenic.scenarioFromString(job["src"], mode2D=job.get("mode2D", False))
        random.seed(0)
        scene, _ = scenario.generate(maxIterations=1)
    except Exception as e:
        res["compile_error"] = f"{type(e).__name__}: {e}"
        return res

    comp = job.get("form", "behavior") == "compose"
    if comp:
        import verif_c19_helpers as H

    def once():
        sim = DummySimulator()
        if comp:
            H.LOG.clear()
        s = sim.simulate(scene, maxSteps=job["maxSteps"], maxIterations=1)
        if s is None:
            return "REJ"
        if comp:      # no agent: the sub-scenarios log (step, value) themselves
            if any(a for step in s.result.actions for v in step.values() for a in v):
                return "MULTI"
            return ",".join(f"{t}:{a}" for t, a in H.LOG) or "-"
        items = []
        for t, step in enumerate(s.result.actions):
            acts = [a for v in step.values() for a in v]
            if len(acts) > 1:
                return "MULTI"
            if acts:
                items.append(f"{t}:{int(acts[0])}")
        return ",".join(items) or "-"
    try:
        runs = R.enumerate_runs(once, job.get("max_paths", 5000))
    except R.TooManyPaths:
        res["runs"] = "too-many-paths"
        return res
    except R.Unsupported as e:
        res["unsupported"] = str(e)
        return res
    except Exception as e:
        res["crash"] = f"{type(e).__name__}: {e}\n" + traceback.format_exc()[-1500:]
        return res
    res["runs"] = [[" ".join(lg), f"{p.numerator}/{p.denominator}", r] for lg, p, r in runs]
    return res


def main():
    payload = json.load(sys.stdin)
    out = []
    for job in payload["programs"]:
        try:
            out.append(run_program(job))
        except Exception as e:
            out.append(dict(name=job.get("name"), crash=f"{type(e).__name__}: {e}\n" + traceback.format_exc()[-1500:]))
    print(json.dumps(dict(results=out)))


if __name__ == "__main__":
    main()
