"""C17 implementation side: runs inside /venv/bin/python with Scenic from $VERIF_REPO.
JSON job on stdin, JSON result as the last stdout line.  Only observable behaviour of Scenic is
recorded (canSee answers, visibleRegion membership, accept/reject of scenarios); the geometric facts
used by the oracles (camera position, rotation matrix, ray/mesh hits, in/circum radii) are computed
here with numpy/trimesh directly, not through scenic.core.visibility."""
import itertools
import json
import math
import sys
import warnings

warnings.filterwarnings("ignore")
import numpy as np
import trimesh


def vec(a):
    from scenic.core.vectors import Vector
    return Vector(*a)


def make_shape(s):
    from scenic.core import shapes
    k = s.get("shape", "box")
    if k == "box":
        return shapes.BoxShape()
    if k == "cylinder":
        return shapes.CylinderShape()
    if k == "cone":
        return shapes.ConeShape()
    if k == "spheroid":
        return shapes.SpheroidShape()
    if k == "annulus":
        m = trimesh.creation.annulus(r_min=s["r_min"], r_max=s["r_max"], height=s["ann_h"], sections=s.get("sections", 32))
        return shapes.MeshShape(m)
    raise ValueError(k)


def make_obj(o):
    from scenic.core.object_types import Object
    kw = dict(position=vec(o["pos"]), yaw=o.get("yaw", 0.0), pitch=o.get("pitch", 0.0), roll=o.get("roll", 0.0),
              shape=make_shape(o), occluding=o.get("occluding", True))
    if o.get("shape") != "annulus":
        kw.update(width=o["dims"][0], length=o["dims"][1], height=o["dims"][2])
    return Object._with(**kw)


def make_viewer(v):
    from scenic.core.object_types import Object, OrientedPoint, Point
    kw = dict(position=vec(v["pos"]), visibleDistance=v["d"])
    for k in ("viewRayDensity", "viewRayCount", "viewRayDistanceScaling"):
        if k in v and v[k] is not None:
            kw[k] = tuple(v[k]) if isinstance(v[k], list) else v[k]
    if v["cls"] == "Point":
        return Point._with(**kw)
    kw.update(yaw=v["yaw"], pitch=v["pitch"], roll=v["roll"], viewAngles=tuple(v["va"]))
    if v["cls"] == "OrientedPoint":
        return OrientedPoint._with(**kw)
    kw.update(cameraOffset=vec(v.get("cam", (0, 0, 0))), width=v.get("dims", (1, 1, 1))[0],
              length=v.get("dims", (1, 1, 1))[1], height=v.get("dims", (1, 1, 1))[2])
    return Object._with(**kw)


def viewer_frame(v, viewer):
    """camera position, rotation matrix (rows) or None, effective distance and view angles"""
    pos = np.array(v["pos"], dtype=float)
    if v["cls"] == "Point":
        return pos, None, float(viewer.visibleDistance), (math.tau, math.pi)
    R = viewer.orientation.getRotation().as_matrix()
    c = pos
    if v["cls"] == "Object":
        c = pos + R @ np.array(v.get("cam", (0, 0, 0)), dtype=float)
    # the effective angles follow the documented rule (never more than (tau, pi)) applied to the REQUESTED angles; what the
    # object stores after construction is reported separately (`va_obj`) and compared with the model's truncation
    return c, R, float(viewer.visibleDistance), (min(float(v["va"][0]), math.tau), min(float(v["va"][1]), math.pi))


def stored_angles(v, viewer):
    if v["cls"] == "Point":
        return None
    va = viewer.viewAngles
    return [float(va[0]), float(va[1])]


def ray_hits(mesh, origin, direction):
    n = np.linalg.norm(direction)
    if not np.isfinite(n) or n == 0:
        return []
    locs, _, _ = mesh.ray.intersects_location(ray_origins=[origin], ray_directions=[direction / n])
    if len(locs) == 0:
        return []
    return sorted(float(x) for x in np.linalg.norm(locs - origin, axis=1))


def mesh_facts(obj, ball_local=None):
    """centre, circumradius about it, and an inscribed ball (centre, radius) of the object's mesh"""
    mesh = obj.occupiedSpace.mesh
    centre = np.array(obj.position.coordinates, dtype=float)
    rho = float(np.max(np.linalg.norm(mesh.vertices - centre, axis=1)))
    bc = centre
    if ball_local is not None:
        R = obj.orientation.getRotation().as_matrix()
        bc = centre + R @ np.array(ball_local, dtype=float)
    try:
        rin = float(trimesh.proximity.signed_distance(mesh, [bc])[0])
    except Exception:
        rin = 0.0
    return dict(centre=centre.tolist(), rho=rho, ball_c=bc.tolist(), ball_r=max(0.0, rin))


def run_point(case):
    viewer = make_viewer(case["viewer"])
    occs = [make_obj(o) for o in case["occ"]]
    c, R, d, va = viewer_frame(case["viewer"], viewer)
    p = np.array(case["target"]["pos"], dtype=float)
    tk = case["target"]["kind"]
    from scenic.core.object_types import OrientedPoint, Point
    if tk == "vector":
        target = vec(case["target"]["pos"])
    elif tk == "point":
        target = Point._with(position=vec(case["target"]["pos"]))
    else:
        target = OrientedPoint._with(position=vec(case["target"]["pos"]), yaw=case["target"].get("yaw", 0.3))
    out = dict(c=c.tolist(), R=None if R is None else R.tolist(), d=d, va=list(va), p=p.tolist(),
               va_obj=stored_angles(case["viewer"], viewer))
    try:
        out["res"] = bool(viewer.canSee(target, occludingObjects=tuple(occs)))
    except Exception as e:
        out["exc"] = type(e).__name__ + ": " + str(e)[:200]
    # oracle data: hits of each occluder along the true ray and along the ray of the old transform
    new_dir = p - c
    if R is not None:
        tl = R.T @ p - c
        old_dir = R @ tl
    else:
        old_dir = new_dir
    cv = vec(c.tolist())
    occ = []
    for o in occs:
        m = o.occupiedSpace.mesh
        occ.append(dict(odist=float(cv.distanceTo(o)), new=ray_hits(m, c, new_dir), old=ray_hits(m, c, old_dir)))
    out["occ"] = occ
    try:
        out["vr"] = bool(viewer.visibleRegion.containsPoint(vec(case["target"]["pos"])))
    except Exception as e:
        out["vr_exc"] = type(e).__name__ + ": " + str(e)[:200]
    return out


def run_object(case):
    viewer = make_viewer(case["viewer"])
    occs = [make_obj(o) for o in case["occ"]]
    target = make_obj(case["target"])
    c, R, d, va = viewer_frame(case["viewer"], viewer)
    out = dict(c=c.tolist(), R=None if R is None else R.tolist(), d=d, va=list(va), va_obj=stored_angles(case["viewer"], viewer))
    out["target"] = mesh_facts(target, case["target"].get("ball_local"))
    out["target"]["containsCenter"] = bool(target.shape.containsCenter)
    out["occ"] = [mesh_facts(o) for o in occs]
    # data to decide whether the old point transform (F14) applied to the target's centre explains an answer
    tc = np.array(target.position.coordinates, dtype=float)
    old_dir = (R @ (R.T @ tc - c)) if R is not None else (tc - c)
    cv = vec(c.tolist())
    out["centre_old"] = [dict(odist=float(cv.distanceTo(o)), old=ray_hits(o.occupiedSpace.mesh, c, old_dir)) for o in occs]
    n = len(occs)
    res = {}
    try:
        for mask in range(1 << n):
            sub = tuple(occs[i] for i in range(n) if mask >> i & 1)
            res[str(mask)] = bool(viewer.canSee(target, occludingObjects=sub))
    except Exception as e:
        out["exc"] = type(e).__name__ + ": " + str(e)[:200]
    out["res"] = res
    # the same occluders handed over in other ORDERS (the answer must not depend on the order)
    perm = {}
    try:
        for order in case.get("orders", []):
            perm[",".join(map(str, order))] = bool(viewer.canSee(target, occludingObjects=tuple(occs[i] for i in order)))
    except Exception as e:
        out["exc"] = type(e).__name__ + ": " + str(e)[:200]
    out["perm"] = perm
    if case.get("grid", True):
        try:
            out["grid"] = record_grid(case, c, R, d)
        except Exception as e:
            import traceback
            out["grid"] = dict(crash=type(e).__name__ + ": " + str(e)[:200], tb=traceback.format_exc()[-600:])
    return out


def record_grid(case, c, R, d):
    """Observe, at the trimesh boundary, every ray direction canSee casts at the target when nothing is ever hit (so that no
    batch returns early): a fresh viewer/target, a dummy occluder that blocks the centre ray (so the quick centre test never
    answers), and a stub RayMeshIntersector.intersects_location.  Returns the per-row summary of the rays in the viewer
    frame + the mesh (viewer-frame vertices, edges) the model needs."""
    import trimesh.ray.ray_triangle as rt
    viewer = make_viewer(case["viewer"])
    target = make_obj(case["target"])
    dummy = make_obj(dict(shape="box", dims=[0.01, 0.01, 0.01], pos=[float(x) for x in c], occluding=True))
    tmesh = target.occupiedSpace.mesh
    rec = []
    orig = rt.RayMeshIntersector.intersects_location

    def fake(self, ray_origins, ray_directions, **kw):
        dirs = np.asarray(ray_directions, dtype=float)
        if self.mesh is tmesh:
            rec.append(dirs.copy())
            return np.zeros((0, 3)), np.zeros(0, dtype=int), np.zeros(0, dtype=int)
        o = np.asarray(ray_origins, dtype=float)
        return o.copy(), np.arange(len(o)), np.zeros(len(o), dtype=int)
    orig_contains = rt.RayMeshIntersector.contains_points

    def contains(self, points):
        # point-in-mesh tests (distanceTo) cast rays of their own: not part of the grid, answered by the real code
        rt.RayMeshIntersector.intersects_location = orig
        try:
            return orig_contains(self, points)
        finally:
            rt.RayMeshIntersector.intersects_location = fake
    out = {}
    rt.RayMeshIntersector.intersects_location = fake
    rt.RayMeshIntersector.contains_points = contains
    try:
        try:
            out["res"] = bool(viewer.canSee(target, occludingObjects=(dummy,)))
        except AssertionError:
            out["exc"] = "AssertionError"
        except Exception as e:
            out["exc"] = type(e).__name__ + ": " + str(e)[:200]
    finally:
        rt.RayMeshIntersector.intersects_location = orig
        rt.RayMeshIntersector.contains_points = orig_contains
    V = np.asarray(tmesh.vertices, dtype=float) - c
    if R is not None:
        V = V @ R                      # rows: R^T (v - c)
    out["verts"] = V.tolist()
    out["edges"] = np.asarray(tmesh.edges_unique).tolist()   # each undirected mesh edge once (mesh.edges lists both directions; flags and windows do not depend on the direction)
    out["surface_dist"] = float(trimesh.proximity.closest_point(tmesh, [c])[1][0])
    out["cam_inside"] = bool(tmesh.contains([c])[0]) if tmesh.is_watertight else False
    if rec:
        W = np.concatenate(rec, axis=0)
        if R is not None:
            W = W @ R
        az = np.arctan2(-W[:, 0], W[:, 1])
        az = np.where(az < -math.pi + 1e-6, az + 2 * math.pi, az)     # -pi and +pi are the same direction
        alt = np.arctan2(W[:, 2], np.hypot(W[:, 0], W[:, 1]))
        order = np.argsort(alt, kind="stable")
        az, alt = az[order], alt[order]
        rows = []
        i = 0
        while i < len(alt):
            j = i
            while j + 1 < len(alt) and alt[j + 1] - alt[j] < 1e-9:
                j += 1
            a = az[i:j + 1]
            rows.append([float(np.mean(alt[i:j + 1])), int(j - i + 1), float(a.min()), float(a.max()), float(a.sum()), float((a * a).sum())])
            i = j + 1
        out["nrays"] = int(len(alt))
        out["rows"] = rows
    else:
        out["nrays"] = 0
        out["rows"] = []
    return out


def _crc(*parts):
    import zlib
    return zlib.crc32(b"|".join(p if isinstance(p, bytes) else str(p).encode() for p in parts))


def script_tables(script, key, n, d):
    """scripted hit tables of one ray (a pure function of the script and of the ray direction's bytes): distances at which
    the ray hits the target, and each of the n occluders.  Target hits within range lie in [2, 4], blocking occluder hits in
    [0.5, 1.5], non-blocking ones beyond 4.5 (so no comparison is ever close)."""
    seed, pat, m = script["seed"], script["pattern"], script["m"]
    u = _crc(seed, "T", key) % 12
    if pat in ("partition", "nested") and u < 2:
        u += 2
    if u == 0:
        th = []
    elif u == 1:
        th = [d + 1.0]                      # hits the target only beyond the visible distance
    elif u == 2:
        th = [d + 2.0, 3.0]                 # a hit beyond the distance listed before one within it
    elif u == 3:
        th = [3.5, 2.5]                     # two hits, the farther one first
    else:
        th = [2.0 + 0.5 * (u % 5)]
    k = _crc(seed, "K", key) % m
    oh = []
    for j in range(n):
        x = _crc(seed, "O", j, key)
        if pat == "partition":
            blocks = (k == j)
        elif pat == "nested":
            blocks = (k <= j)
        elif pat == "first":
            blocks = (j == 0) or (x % 3 == 0)
        else:
            blocks = (x % 100) < script["p"][j]
        hs = []
        if (x >> 8) % 4 == 0:
            hs.append(4.75 + 0.25 * ((x >> 12) % 3))      # behind the target: does not block
        if blocks:
            hs.append(0.5 + 0.25 * ((x >> 16) % 5))
        if (x >> 20) % 5 == 0:
            hs.append(d + 3.0)
        oh.append(hs)
    return th, oh


def run_scripted(case):
    """exact correspondence for the occluder loop: trimesh's intersector is replaced by scripted hit tables, the verdict of
    canSee for every ordered list of occluders is compared (by the harness) with the model run on the same tables"""
    import trimesh.ray.ray_triangle as rt
    viewer = make_viewer(case["viewer"])
    target = make_obj(case["target"])
    occs = [make_obj(o) for o in case["occ"]]
    c, R, d, va = viewer_frame(case["viewer"], viewer)
    n = len(occs)
    tmesh = target.occupiedSpace.mesh
    omesh = {id(o.occupiedSpace.mesh): j for j, o in enumerate(occs)}
    script = case["script"]
    state = dict(mode="record", in_grid=False, rec=[])
    orig = rt.RayMeshIntersector.intersects_location
    orig_contains = rt.RayMeshIntersector.contains_points
    empty = lambda: (np.zeros((0, 3)), np.zeros(0, dtype=int), np.zeros(0, dtype=int))

    def fake(self, ray_origins, ray_directions, **kw):
        dirs = np.asarray(ray_directions, dtype=float).reshape(-1, 3)
        orgs = np.asarray(ray_origins, dtype=float).reshape(-1, 3)
        is_t = self.mesh is tmesh
        if is_t:
            state["in_grid"] = True
            if state["mode"] == "record":
                state["rec"].append(dirs.copy())
                return empty()
        elif not state["in_grid"]:
            # the quick test of the target's centre: always blocked, so that the ray-casting path decides
            return orgs.copy(), np.arange(len(orgs)), np.zeros(len(orgs), dtype=int)
        j = None if is_t else omesh.get(id(self.mesh))
        locs, idx = [], []
        for i in range(len(dirs)):
            th, oh = script_tables(script, dirs[i].tobytes(), n, d)
            for h in (th if is_t else (oh[j] if j is not None else [])):
                locs.append(orgs[i] + h * dirs[i])
                idx.append(i)
        if not locs:
            return empty()
        return np.array(locs), np.array(idx, dtype=int), np.zeros(len(idx), dtype=int)

    def contains(self, points):
        rt.RayMeshIntersector.intersects_location = orig
        try:
            return orig_contains(self, points)
        finally:
            rt.RayMeshIntersector.intersects_location = fake
    out = dict(c=c.tolist(), d=d, va=list(va), lists={}, va_obj=stored_angles(case["viewer"], viewer))
    rt.RayMeshIntersector.intersects_location = fake
    rt.RayMeshIntersector.contains_points = contains
    try:
        try:
            viewer.canSee(target, occludingObjects=tuple(occs))          # recording pass: nothing is hit, every batch is cast
            state["mode"] = "script"
            for order in case["orders"]:
                state["in_grid"] = False
                out["lists"][",".join(map(str, order))] = bool(viewer.canSee(target, occludingObjects=tuple(occs[i] for i in order)))
        except Exception as e:
            out["exc"] = type(e).__name__ + ": " + str(e)[:200]
    finally:
        rt.RayMeshIntersector.intersects_location = orig
        rt.RayMeshIntersector.contains_points = orig_contains
    out["batches"] = [[list(script_tables(script, r.tobytes(), n, d)) for r in b] for b in state["rec"]]
    out["nrays"] = int(sum(len(b) for b in state["rec"]))
    return out


def run_2d(case):
    """2D compatibility classes: _canSee2D fast path (no occluders)"""
    from scenic.core.object_types import Object2D, OrientedPoint2D, Point2D
    from scenic.core.vectors import Vector
    v = case["viewer"]
    kw = dict(position=Vector(v["pos"][0], v["pos"][1], 0), visibleDistance=v["d"])
    if v["cls"] == "Point2D":
        viewer = Point2D._with(**kw)
    else:
        kw.update(yaw=v["heading"], viewAngle=v["angle"])      # in 2D mode heading == yaw (parentOrientation is 0)
        if v["cls"] == "OrientedPoint2D":
            viewer = OrientedPoint2D._with(**kw)
        else:
            kw.update(cameraOffset=Vector(v["cam"][0], v["cam"][1], 0), width=1.0, length=1.0)
            viewer = Object2D._with(**kw)
    t = case["target"]
    if t["kind"] == "vector":
        target = Vector(*t["pos"])
    elif t["kind"] == "point":
        target = Point2D._with(position=Vector(t["pos"][0], t["pos"][1], 0))
    elif t["kind"] == "opoint":
        target = OrientedPoint2D._with(position=Vector(t["pos"][0], t["pos"][1], 0), yaw=0.3)
    else:
        target = Object2D._with(position=Vector(t["pos"][0], t["pos"][1], 0), yaw=t["heading"], width=t["dims"][0], length=t["dims"][1])
    # camera computed independently of Scenic
    c = np.array([v["pos"][0], v["pos"][1], 0.0])
    if v["cls"] == "Object2D":
        hd = v["heading"]
        c = c + np.array([math.cos(hd) * v["cam"][0] - math.sin(hd) * v["cam"][1], math.sin(hd) * v["cam"][0] + math.cos(hd) * v["cam"][1], 0.0])
    out = dict(c=c.tolist(), d=float(viewer.visibleDistance), heading=float(v.get("heading", 0.0)),
               angle=min(float(v["angle"]), math.tau) if v["cls"] != "Point2D" else math.tau,
               va_obj=None if v["cls"] == "Point2D" else [float(x) for x in viewer.viewAngles])
    try:
        out["res"] = bool(viewer.canSee(target))
    except Exception as e:
        out["exc"] = type(e).__name__ + ": " + str(e)[:200]
    return out


def run_plumbing(case):
    """accept/reject of one generated scene of a scenario whose requirements are all built in"""
    import random
    import scenic
    from scenic.core.distributions import RejectionException
    out = {}
    try:
        random.seed(0)
        np.random.seed(0)
        sc = scenic.scenarioFromString(case["src"], mode2D=False)
        try:
            sc.generate(maxIterations=1, verbosity=0)
            out["accepted"] = True
        except RejectionException:
            out["accepted"] = False
    except Exception as e:
        if type(e).__name__ == "InvalidScenarioError" and "is not visible from ego" in str(e):
            # all positions are fixed: `requireVisible` is tested against the ego's view volume when the scenario is compiled
            out["accepted"] = False
            out["static_reject"] = True
        else:
            out["exc"] = type(e).__name__ + ": " + str(e)[:300]
    return out


def main():
    job = json.load(sys.stdin)
    fns = dict(points=run_point, objects=run_object, plumbing=run_plumbing, twod=run_2d, scripted=run_scripted)
    results = []
    for case in job["cases"]:
        fn = fns[case["k"] if job["kind"] == "mixed" else job["kind"]]
        try:
            r = fn(case)
        except Exception as e:  # harness-level failure, reported as such
            import traceback
            r = dict(crash=type(e).__name__ + ": " + str(e)[:300], tb=traceback.format_exc()[-800:])
        r["id"] = case["id"]
        results.append(r)
    print(json.dumps(dict(results=results)))


if __name__ == "__main__":
    main()
