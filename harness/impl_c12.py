"""Runs generated DynCore programs on the real Scenic (from $VERIF_REPO) with a logging
Simulator/Simulation; JSON in (stdin) / JSON out (last stdout line).
job = dict(id, src, runs=[dict(tab, perms, max_steps, timestep, raise_gv)])"""
import json
import signal
import sys
import warnings

warnings.filterwarnings("ignore")
import verif_c12_log as L

import scenic
from scenic.core.distributions import RejectionException
from scenic.core.simulators import Simulation, Simulator
from scenic.core.vectors import Vector


class LogSimulation(Simulation):
    def __init__(self, scene, perms=(), **kw):
        L.SIM = self
        self._vt = 0
        self._perms = perms
        super().__init__(scene, **kw)

    def createObjectInSimulator(self, obj):
        pass

    def actionsAreCompatible(self, agent, actions):
        return True

    def executeActions(self, allActions):
        L.ev("A", [[ag.vid, list(acts)] for ag, acts in allActions.items()])

    def step(self):
        if self.currentTime >= STEP_GUARD:
            raise Hang()
        L.ev("X", self.currentTime)

    def getProperties(self, obj, properties):
        if self.currentTime != self._vt:
            L.ev("K", self.currentTime)
            self._vt = self.currentTime
        L.ev("U", obj.vid)
        vals = dict(position=obj.position, yaw=obj.yaw, pitch=obj.pitch, roll=obj.roll,
                    velocity=Vector(0, 0, 0), angularVelocity=Vector(0, 0, 0), speed=0.0, angularSpeed=0.0)
        for p in properties:
            if p not in vals:
                vals[p] = None
        return vals

    def scheduleForAgents(self):
        if not self._perms:
            return self.agents
        pm = self._perms[self.currentTime % len(self._perms)]
        by = {a.vid: a for a in self.agents}
        return [by[i] for i in pm]


class LogSimulator(Simulator):
    def __init__(self, perms):
        super().__init__()
        self.perms = perms

    def createSimulation(self, scene, **kw):
        return LogSimulation(scene, perms=self.perms, **kw)


def settle():
    """Collect abandoned generators now (closing them runs Scenic's `finally` clauses, which restore saved global
    veneer state) and make sure the next compilation / simulation starts from a clean veneer whatever they did.
    Returns True when the collection left stale state behind."""
    import gc
    import scenic.syntax.veneer as veneer
    gc.collect()
    dirty = veneer.currentBehavior is not None
    if dirty:
        veneer.currentBehavior = None
    return dirty


class Hang(BaseException):
    """raised by the per-simulation guard (BaseException: no `except Exception` of the code under test swallows it)"""


CPU_GUARD_S = 3.0      # CPU seconds (user + system) one simulation may use (a normal one needs milliseconds)
STEP_GUARD = 64        # no generated run is longer (step limits <= 9, scenario limits <= 8)


def on_alarm(signum, frame):
    raise Hang()


def run_one(scene, run):
    L.LOG.clear()
    L.TAB = run["tab"]
    out = dict()
    # Guard against a program that spins without yielding (e.g. an interrupt handler whose condition stays true and
    # that takes no action).  NOT signal.alarm: Scenic's own `alarm(...)` context manager around every behavior /
    # compose step re-installs the SIGALRM handler and cancels the pending alarm on exit, which silently disarmed
    # an earlier wall-clock guard.  ITIMER_PROF counts the CPU time of this process and uses SIGPROF.
    signal.signal(signal.SIGPROF, on_alarm)
    signal.setitimer(signal.ITIMER_PROF, CPU_GUARD_S)
    try:
        sim = LogSimulator(run["perms"]).simulate(
            scene, maxSteps=run["max_steps"], timestep=run["timestep"], maxIterations=1,
            raiseGuardViolations=run.get("raise_gv", True), verbosity=0)
        if sim is None:
            out["kind"] = "rejected"
        else:
            r = sim.result
            out["kind"] = r.terminationType.name
            out["reason"] = str(r.terminationReason)
            out["time"] = sim.currentTime
            out["traj"] = len(r.trajectory)
            out["actions"] = [[[ag.vid, list(acts)] for ag, acts in d.items()] for d in r.actions]
            out["records"] = {k: (v if not isinstance(v, list) else [list(x) for x in v]) for k, v in r.records.items()}
    except Hang:
        out["kind"] = "hang"
        out["msg"] = f"guard: more than {CPU_GUARD_S} CPU seconds or {STEP_GUARD} steps in one simulation"
    except Exception as e:
        out["kind"] = type(e).__name__
        out["msg"] = str(e)[:300]
    finally:
        signal.setitimer(signal.ITIMER_PROF, 0)
    out["events"] = [list(e) for e in (L.LOG[:400] if out["kind"] == "hang" else L.LOG)]
    import scenic.syntax.veneer as veneer
    # finalize the generators the simulation left behind first (finding F26: that can write a stale behavior into
    # veneer.currentBehavior, right away when the exception that ended the simulation is released, or later)
    if settle():
        out["stale_behavior_after_gc"] = True
    out["veneer_clean"] = (veneer.currentSimulation is None and veneer.currentBehavior is None
                           and not veneer.runningScenarios)
    return out


def compile_job(job, first_tab):
    L.SIM = None
    L.TAB = first_tab
    return scenic.scenarioFromString(job["src"], mode2D=True)


def main():
    """Every job is a HISTORY: all its runs use the same compiled Scenario object, in order; a run samples a fresh
    scene (`scene: new`, always when the top-level scenario has requirements) or re-simulates the previous one."""
    payload = json.load(sys.stdin)
    results = []
    # everything imported so far lives for the whole process: keep it out of the collections `settle` forces after
    # every simulation (they only need to find the generators / frames the simulation abandoned)
    import gc
    gc.collect()
    gc.freeze()
    for job in payload["jobs"]:
        res = dict(id=job["id"])
        settle()
        regen = job.get("regen", False)      # requirements on the top-level scenario: the scene is sampled per run
        try:
            scenario = compile_job(job, job["runs"][0]["tab"] if (regen and job["runs"]) else [])
            scene = None
            if not regen:
                scene, _ = scenario.generate(maxIterations=5)
        except Exception as e:
            res["compile_error"] = type(e).__name__ + ": " + str(e)[:300]
            results.append(res)
            continue
        res["runs"] = []
        for run in job["runs"]:
            def sample():
                L.SIM = None
                L.TAB = run["tab"]
                return scenario.generate(maxIterations=1 if regen else 5)[0]
            try:
                if regen or run.get("scene") == "new" or scene is None:
                    scene = sample()
            except RejectionException:
                res["runs"].append(dict(kind="sceneRejected", events=[], veneer_clean=True))
                continue
            out = run_one(scene, run)
            if out["kind"] == "AssertionError":
                # the compiled scenario may have been left unusable by an earlier simulation: report, recompile, go on
                first = dict(kind=out["kind"], msg=out.get("msg"))
                try:
                    settle()
                    scenario = compile_job(job, run["tab"])
                    scene = sample()
                    out = run_one(scene, run)
                    out["first_attempt"] = first
                except RejectionException:
                    out = dict(kind="sceneRejected", events=[], veneer_clean=True, first_attempt=first)
                except Exception as e:
                    out["recompile_error"] = type(e).__name__ + ": " + str(e)[:200]
            res["runs"].append(out)
        results.append(res)
    print(json.dumps(dict(results=results)))


if __name__ == "__main__":
    main()
