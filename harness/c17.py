"""C17 — visibility respects the view volume and occlusion.
Proof layer: coq/Properties/C17.v.  Correspondence: (a) point visibility of the real code vs the
extracted model (exact, incl. occluder filter); (b) objects: necessary / sufficient / monotonicity
conditions of the property evaluated on the real code with geometric certificates; (c)
visibleRegion.containsPoint vs the view volume; (d) occluder plumbing of the `can see` operator and
the built-in requirements (accept/reject of generated scenes vs the model's occluder lists)."""
import concurrent.futures as cf
import json
import math
import os
import sys
import time

sys.path.insert(0, os.path.dirname(os.path.abspath(__file__)))
import common
from common import Check

PID = "C17"
WORKERS = max(1, min(int(os.environ.get("VERIF_WORKERS", "8")), common.NCPU))
TOL = 1e-6
RAY_BUDGET = 6000      # worst-case ray/mesh queries of one object case (all occluder subsets)
import itertools
# unusual-but-legal view angles: exactly the limits, one ulp above, a product that rounds just above tau, far above
OVER_H = [math.tau, math.nextafter(math.tau, 10.0), 15 * math.radians(24), math.radians(400), math.radians(720), 25.0]
OVER_V = [math.pi, math.nextafter(math.pi, 10.0), math.radians(200), math.radians(360), 7.0]


def set_angles(viewer, h, v):
    """`va` = the REQUESTED view angles (what the viewer is constructed with); `eff` = the effective ones by the documented
    rule: never more than (tau, pi), each component on its own"""
    viewer["va"] = [h, v]
    viewer["eff"] = [min(h, math.tau), min(v, math.pi)]


# ------------------------------------------------------------------ small vector helpers (placement only)
def rot(yaw, pitch, roll):
    cy, sy, cp, sp, cr, sr = math.cos(yaw), math.sin(yaw), math.cos(pitch), math.sin(pitch), math.cos(roll), math.sin(roll)
    rz = [[cy, -sy, 0], [sy, cy, 0], [0, 0, 1]]
    rx = [[1, 0, 0], [0, cp, -sp], [0, sp, cp]]
    ry = [[cr, 0, sr], [0, 1, 0], [-sr, 0, cr]]
    mm = lambda a, b: [[sum(a[i][k] * b[k][j] for k in range(3)) for j in range(3)] for i in range(3)]
    return mm(mm(rz, rx), ry)


def mv(m, v):
    return [sum(m[i][k] * v[k] for k in range(3)) for i in range(3)]


def mtv(m, v):
    return [sum(m[k][i] * v[k] for k in range(3)) for i in range(3)]


def add(a, b):
    return [a[i] + b[i] for i in range(3)]


def sub(a, b):
    return [a[i] - b[i] for i in range(3)]


def norm(a):
    return math.sqrt(sum(x * x for x in a))


def local_dir(az, alt):
    return [-math.sin(az) * math.cos(alt), math.cos(az) * math.cos(alt), math.sin(alt)]


def angle(a, b):
    na, nb = norm(a), norm(b)
    if na == 0 or nb == 0:
        return 0.0
    return math.acos(max(-1.0, min(1.0, sum(x * y for x, y in zip(a, b)) / (na * nb))))


# ------------------------------------------------------------------ generators
def gen_viewer(rng, allow_point=True, density=None):
    r = rng.random()
    cls = "Point" if (allow_point and r < 0.1) else ("OrientedPoint" if r < 0.5 else "Object")
    far = rng.random() < 0.85
    pos = [rng.uniform(-200, 200) for _ in range(3)] if far else [0.0, 0.0, 0.0]
    if far and norm(pos) < 20:
        pos[0] += 40
    k = rng.random()
    if k < 0.15:
        yaw, pitch, roll = rng.choice([0, 90, 180, -90]) * math.pi / 180, 0.0, 0.0
    elif k < 0.4:
        yaw, pitch, roll = rng.uniform(-math.pi, math.pi), 0.0, 0.0
    else:
        yaw, pitch, roll = rng.uniform(-math.pi, math.pi), rng.uniform(-1.4, 1.4), rng.uniform(-math.pi, math.pi)
    hk = rng.choice(["narrow", "medium", "wide", "full", "over"])
    h = dict(narrow=rng.uniform(10, 60), medium=rng.uniform(60, 180), wide=rng.uniform(180, 350), full=360.0, over=0.0)[hk]
    vk = rng.choice(["narrow", "narrow", "medium", "full", "over"])
    v = dict(narrow=rng.uniform(10, 60), medium=rng.uniform(60, 170), full=180.0, over=0.0)[vk]
    h, v = math.radians(h), math.radians(v)
    if hk == "over":
        h = rng.choice(OVER_H)
    if vk == "over":
        v = rng.choice(OVER_V)
    viewer = dict(cls=cls, pos=pos, yaw=yaw, pitch=pitch, roll=roll, d=rng.uniform(5, 60), hk=hk, vk=vk)
    set_angles(viewer, h, v)
    if cls == "Object":
        viewer["cam"] = [rng.uniform(-2, 2) for _ in range(3)] if rng.random() < 0.7 else [0.0, 0.0, 0.0]
        viewer["dims"] = [1.0, 1.0, 1.0]
    if cls == "Point":
        set_angles(viewer, math.tau, math.pi)
        viewer["hk"], viewer["vk"] = "full", "full"
    if density is not None:
        viewer["viewRayDensity"] = density
    return viewer


def camera(viewer):
    if viewer["cls"] == "Point":
        return list(viewer["pos"]), [[1, 0, 0], [0, 1, 0], [0, 0, 1]]
    R = rot(viewer["yaw"], viewer["pitch"], viewer["roll"])
    c = add(viewer["pos"], mv(R, viewer.get("cam", [0, 0, 0]))) if viewer["cls"] == "Object" else list(viewer["pos"])
    return c, R


def gen_shape(rng, lo=0.5, hi=4.0):
    return dict(shape=rng.choice(["box", "cylinder", "cone", "spheroid"]),
                dims=[rng.uniform(lo, hi) for _ in range(3)],
                yaw=rng.uniform(-math.pi, math.pi), pitch=rng.choice([0.0, rng.uniform(-1.5, 1.5)]),
                roll=rng.choice([0.0, rng.uniform(-math.pi, math.pi)]))


def long_wall(rng, c, p, d, t=None):
    """a long, tall, thin vertical wall across the line of sight c->p whose CENTRE is farther than the visible
    distance from the camera (1-2.5x), while the part of it crossing the line of sight is in range"""
    w = sub(p, c)
    hn = math.hypot(w[0], w[1])
    if hn < 0.3 * norm(w) or norm(w) < 2.0:
        return None          # too steep / too close: a vertical wall would not be a clean screen
    e = [-w[1] / hn, w[0] / hn, 0.0]
    t = rng.uniform(0.3, 0.7) if t is None else t
    sgn = rng.choice([-1, 1])
    sft = sgn * d * rng.uniform(1.05, 2.5)
    centre = [c[i] + t * w[i] + sft * e[i] for i in range(3)]
    lw = 2 * abs(sft) + 2 * rng.uniform(3.0, 8.0)
    return dict(shape="box", dims=[lw, 0.6, rng.uniform(30, 60)], yaw=math.atan2(e[1], e[0]), pitch=0.0, roll=0.0,
                pos=centre, occluding=True, wall=True)


def wall_hides(o, cam, tc, rho, M=0.02):
    """certificate: every ray from cam towards the ball B(tc, rho) crosses the wall's mid-plane inside its rectangle,
    and leaves the wall before reaching the ball"""
    lw, th, hh = o["dims"]
    e = [math.cos(o["yaw"]), math.sin(o["yaw"]), 0.0]
    n = [-math.sin(o["yaw"]), math.cos(o["yaw"]), 0.0]
    w = sub(tc, cam)
    dist = norm(w)
    if dist <= rho * 1.001:
        return False
    u = [x / dist for x in w]
    alpha = math.asin(min(1.0, rho / dist))
    un = sum(a * b for a, b in zip(u, n))
    if abs(un) < 0.3:
        return False
    D = sum((o["pos"][i] - cam[i]) * n[i] for i in range(3)) / un
    theta = math.acos(min(1.0, abs(un)))
    if D <= 0 or theta + alpha > 1.3 or D * abs(un) < th / 2 + 0.05:
        return False
    hit = [cam[i] + D * u[i] for i in range(3)]
    a = sum((hit[i] - o["pos"][i]) * e[i] for i in range(3))
    b = hit[2] - o["pos"][2]
    rdisc = D * math.sin(alpha) / math.cos(theta + alpha)
    far = (D * abs(un) + th / 2) / math.cos(theta + alpha)
    return abs(a) + rdisc < lw / 2 - 0.05 and abs(b) + rdisc < hh / 2 - 0.05 and far < dist - rho - M


def cross(a, b):
    return [a[1] * b[2] - a[2] * b[1], a[2] * b[0] - a[0] * b[2], a[0] * b[1] - a[1] * b[0]]


def dotp(a, b):
    return sum(x * y for x, y in zip(a, b))


def euler_of(M):
    """yaw, pitch, roll with rot(yaw, pitch, roll) == M (rows), or None near the gimbal lock / on a mismatch"""
    if abs(M[2][1]) > 0.97:
        return None
    pitch = math.asin(M[2][1])
    yaw = math.atan2(-M[0][1], M[1][1])
    roll = math.atan2(-M[2][0], M[2][2])
    Rm = rot(yaw, pitch, roll)
    if max(abs(Rm[i][j] - M[i][j]) for i in range(3) for j in range(3)) > 1e-9:
        return None
    return yaw, pitch, roll


def gen_strips(rng, c, tc, rho_est, ball_c, ball_r):
    """2-4 thin walls (boxes) perpendicular to the line of sight c->tc, at different depths, each covering one strip of
    the cone towards the target's bounding sphere (plus small overlaps), jointly all of it; one strip alone covers the
    directions towards the inscribed ball (ball_c, ball_r), so that leaving it out opens a certified gap.  In the frame
    (e, u, f) with u the line of sight, a direction r has the slope coordinates (r.e / r.u, r.f / r.u); a wall at
    depth D is the rectangle [a_lo, a_hi] x [b_lo, b_hi] scaled by D."""
    w = sub(tc, c)
    dist = norm(w)
    u = [x / dist for x in w]
    if abs(u[2]) > 0.9 or dist < 2.5 * rho_est:
        return None
    e0 = cross(u, [0.0, 0.0, 1.0])
    n0 = norm(e0)
    e0 = [x / n0 for x in e0]
    g0 = cross(u, e0)
    psi = rng.uniform(-math.pi, math.pi)
    e = [math.cos(psi) * e0[i] + math.sin(psi) * g0[i] for i in range(3)]
    f = cross(e, u)
    M = [[e[i], u[i], f[i]] for i in range(3)]
    eul = euler_of(M)
    if eul is None:
        return None
    T = math.tan(math.asin(min(0.9, 1.15 * rho_est / dist))) * 1.1 + 0.03
    bw = sub(ball_c, c)
    by = dotp(bw, u)
    if by <= 0:
        return None
    axis = rng.choice([0, 1])                       # tile along e (0) or along f (1)
    bs = dotp(bw, e if axis == 0 else f) / by
    br = 1.15 * ball_r / by + 0.015
    T0 = math.tan(math.asin(min(0.9, rho_est / dist)))
    K = rng.choice([2, 2, 3, 3, 4])
    cuts = []
    for _ in range(60):
        if len(cuts) >= K - 1:
            break
        x = rng.uniform(-0.75 * T0, 0.75 * T0)
        if bs - br - 0.02 < x < bs + br + 0.02 or any(abs(x - y) < 0.04 for y in cuts):
            continue
        cuts.append(x)
    if not cuts:
        return None
    cuts.sort()
    bounds = [-T - 0.05] + cuts + [T + 0.05]
    dmax = (dist - 1.2 * rho_est - 0.1) / math.sqrt(1 + 2 * (T + 0.05) ** 2) * 0.9
    if dmax < 0.8:
        return None
    walls = []
    for i in range(len(bounds) - 1):
        ov = rng.uniform(0.008, 0.02)
        lo, hi = bounds[i] - ov, bounds[i + 1] + ov
        olo, ohi = -T - rng.uniform(0.04, 0.3), T + rng.uniform(0.04, 0.3)
        (a_lo, a_hi), (b_lo, b_hi) = ((lo, hi), (olo, ohi)) if axis == 0 else ((olo, ohi), (lo, hi))
        th = rng.uniform(0.1, 0.4)
        D = max(0.45, rng.uniform(0.3, 0.95) * dmax)
        pos = [c[j] + D * (u[j] + (a_lo + a_hi) / 2 * e[j] + (b_lo + b_hi) / 2 * f[j]) for j in range(3)]
        walls.append(dict(shape="box", dims=[D * (a_hi - a_lo), th, D * (b_hi - b_lo)], yaw=eul[0], pitch=eul[1], roll=eul[2],
                          pos=pos, occluding=True, strip=True))
    rng.shuffle(walls)
    return walls


def strip_frame(walls):
    """the common frame (columns e, u, f of the rotation) of a list of strip walls, or None if they differ"""
    o = walls[0]
    if any(abs(w[k] - o[k]) > 1e-12 for w in walls for k in ("yaw", "pitch", "roll")):
        return None
    M = rot(o["yaw"], o["pitch"], o["roll"])
    return [[M[i][j] for i in range(3)] for j in range(3)]      # [e, u, f]


def wall_rects(o, F, cam):
    """(inner, outer, near depth, far depth): slope rectangle of the wall's mid-plane section (a ray crossing it hits the
    wall) and the hull of the slopes of all points of the box (a ray outside it misses the wall)"""
    rel = sub(o["pos"], cam)
    sx, D, sz = dotp(rel, F[0]), dotp(rel, F[1]), dotp(rel, F[2])
    lw, th, hh = o["dims"]
    if D - th / 2 <= 0.05:
        return None
    inner = [(sx - lw / 2) / D, (sx + lw / 2) / D, (sz - hh / 2) / D, (sz + hh / 2) / D]
    deps = [D - th / 2, D + th / 2]
    outer = [min((sx - lw / 2) / q for q in deps), max((sx + lw / 2) / q for q in deps),
             min((sz - hh / 2) / q for q in deps), max((sz + hh / 2) / q for q in deps)]
    return inner, outer, deps[0], deps[1]


def cone_rect(F, cam, centre, radius):
    """a slope rectangle containing every direction from cam towards the ball B(centre, radius) (None if too oblique)"""
    w = sub(centre, cam)
    bd = norm(w)
    if bd <= radius * 1.001:
        return None
    x, y, z = dotp(w, F[0]) / bd, dotp(w, F[1]) / bd, dotp(w, F[2]) / bd
    al = math.asin(min(1.0, radius / bd))
    phi = math.acos(max(-1.0, min(1.0, y)))
    if phi + al > 1.2:
        return None
    dl, dh = math.cos(phi + al), math.cos(max(0.0, phi - al))
    return [min((x - al) / dl, (x - al) / dh), max((x + al) / dl, (x + al) / dh),
            min((z - al) / dl, (z - al) / dh), max((z + al) / dl, (z + al) / dh)]


def strips_cover(walls, cam, centre, rho, M=0.02, m=0.004):
    """certificate: every ray from cam towards B(centre, rho) crosses the mid-plane section of one of the walls, and has
    left that wall before it reaches the ball"""
    if not walls:
        return False
    F = strip_frame(walls)
    if F is None:
        return False
    cr = cone_rect(F, cam, centre, rho)
    if cr is None:
        return False
    dist = norm(sub(centre, cam))
    stretch = math.sqrt(1 + max(abs(cr[0]), abs(cr[1])) ** 2 + max(abs(cr[2]), abs(cr[3])) ** 2)
    rects = []
    for o in walls:
        wr = wall_rects(o, F, cam)
        if wr is None or wr[3] * stretch >= dist - rho - M:
            continue
        rects.append(wr[0])
    if not rects:
        return False
    lo_a, hi_a, lo_b, hi_b = cr[0] - m, cr[1] + m, cr[2] - m, cr[3] + m
    xs = sorted({lo_a, hi_a} | {min(hi_a, max(lo_a, q)) for r_ in rects for q in (r_[0] + m, r_[1] - m)})
    ys = sorted({lo_b, hi_b} | {min(hi_b, max(lo_b, q)) for r_ in rects for q in (r_[2] + m, r_[3] - m)})
    for i in range(len(xs) - 1):
        for j in range(len(ys) - 1):
            if xs[i + 1] - xs[i] <= 0 or ys[j + 1] - ys[j] <= 0:
                continue
            px, py = (xs[i] + xs[i + 1]) / 2, (ys[j] + ys[j + 1]) / 2
            if not any(r_[0] + m <= px <= r_[1] - m and r_[2] + m <= py <= r_[3] - m for r_ in rects):
                return False
    return True


def strip_clear_of_ball(o, cam, ball_c, ball_r, m=0.004):
    """certificate: no ray from cam towards the ball B(ball_c, ball_r) touches the wall"""
    F = strip_frame([o])
    wr = wall_rects(o, F, cam)
    br = cone_rect(F, cam, ball_c, ball_r)
    if wr is None or br is None:
        return False
    ou = wr[1]
    return br[1] + m < ou[0] or ou[1] + m < br[0] or br[3] + m < ou[2] or ou[3] + m < br[2]


def orders_for(rng, n, strips):
    """ordered occluder lists evaluated next to the index-ordered subsets (the answer must not depend on the order)"""
    if n < 2:
        return []
    full = list(range(n))
    out = []
    if strips and n <= 3:
        for k in range(2, n + 1):
            for sub_ in itertools.combinations(full, k):
                out += [list(p) for p in itertools.permutations(sub_) if list(p) != list(sub_)]
        return out
    out.append(full[::-1])
    for sub_ in itertools.combinations(full, 2):
        if n > 2:
            out.append([sub_[1], sub_[0]])
    for _ in range(6 if strips else 1):
        p = full[:]
        rng.shuffle(p)
        if p != full and p not in out:
            out.append(p)
    return out


def gen_point_case(rng, idx):
    viewer = gen_viewer(rng)
    c, R = camera(viewer)
    h, v, d = viewer["eff"][0], viewer["eff"][1], viewer["d"]
    k = rng.random()
    if k < 0.35:     # near the angular boundary
        az = rng.choice([-1, 1]) * (h / 2) * rng.uniform(0.85, 1.15)
        alt = rng.uniform(-v / 2, v / 2) * 0.9
    elif k < 0.5:
        az = rng.uniform(-h / 2, h / 2) * 0.9
        alt = rng.choice([-1, 1]) * (v / 2) * rng.uniform(0.85, 1.15)
    elif k < 0.75:   # inside
        az, alt = rng.uniform(-h / 2, h / 2) * 0.95, rng.uniform(-v / 2, v / 2) * 0.95
    else:            # anywhere (behind, above ...)
        az, alt = rng.uniform(-math.pi, math.pi), rng.uniform(-math.pi / 2, math.pi / 2)
    az = (az + math.pi) % (2 * math.pi) - math.pi
    alt = max(-1.55, min(1.55, alt))
    dist = d * (rng.uniform(0.9, 1.1) if rng.random() < 0.25 else rng.uniform(0.05, 0.98))
    p = add(c, mv(R, [dist * x for x in local_dir(az, alt)]))
    occ = []
    for _ in range(rng.choice([0, 0, 1, 2, 3])):
        o = gen_shape(rng)
        m = rng.random()
        if m < 0.5:      # on the line of sight, before the target
            t = rng.uniform(0.15, 0.9)
            o["pos"] = [c[i] + t * (p[i] - c[i]) + rng.uniform(-0.8, 0.8) for i in range(3)]
        elif m < 0.7:    # beyond the target
            t = rng.uniform(1.1, 1.6)
            o["pos"] = [c[i] + t * (p[i] - c[i]) + rng.uniform(-0.5, 0.5) for i in range(3)]
        else:
            o["pos"] = [c[i] + rng.uniform(-d, d) for i in range(3)]
        o["occluding"] = True
        occ.append(o)
    if rng.random() < 0.2 and len(occ) < 3:
        wl = long_wall(rng, c, p, d)
        if wl:
            occ.append(wl)
    return dict(id=f"pt{idx}", viewer=viewer, target=dict(kind=rng.choice(["vector", "vector", "point", "opoint"]), pos=p), occ=occ,
                place=dict(az=az, alt=alt, dist=dist))


def gen_object_case(rng, idx):
    density = rng.choice([1, 2, 5])
    viewer = gen_viewer(rng, allow_point=(rng.random() < 0.3), density=density)
    c, R = camera(viewer)
    h, v, d = viewer["eff"][0], viewer["eff"][1], viewer["d"]
    mode = rng.choice(["inside", "inside", "rear", "rear", "hidden", "hidden", "hidden", "behind", "behind", "far", "edge", "edge", "edge", "straddle", "straddle", "vertical", "vertical", "rearedge", "rearedge", "strips", "strips", "strips"])
    if mode in ("edge", "vertical") and rng.random() < 0.7:
        # narrow cone, camera offset and full 3D rotation: errors in composing offset and orientation show at the cone boundary
        viewer.update(cls="Object", cam=[rng.uniform(-3, 3) for _ in range(3)], dims=[1.0, 1.0, 1.0],
                      yaw=rng.uniform(-math.pi, math.pi), pitch=rng.uniform(-1.3, 1.3), roll=rng.uniform(-math.pi, math.pi),
                      hk="narrow", vk="narrow")
        # a narrow vertical window, sometimes under an over-limit horizontal request (the truncation path)
        set_angles(viewer, math.radians(rng.uniform(15, 70)) if rng.random() < 0.75 else rng.choice(OVER_H), math.radians(rng.uniform(15, 70)))
        if viewer["va"][0] >= math.tau:
            viewer["hk"] = "over"
        c, R = camera(viewer)
        h, v, d = viewer["eff"][0], viewer["eff"][1], viewer["d"]
    if mode == "rearedge":
        # a wide view (200-340 deg) whose blind zone behind the viewer is partly covered by the target: the target crosses the
        # rear axis only, and reaches one or both edges of the view from behind (the two behind-only windows)
        set_angles(viewer, math.radians(rng.uniform(200, 340)), viewer["va"][1] if viewer["cls"] != "Point" else math.radians(120))
        viewer.update(hk="wide")
        if viewer["cls"] == "Point":
            viewer.update(cls="OrientedPoint", vk="medium")
        c, R = camera(viewer)
        h, v, d = viewer["eff"][0], viewer["eff"][1], viewer["d"]
    if rng.random() < 0.45:
        r_min = rng.uniform(0.6, 1.5)
        r_max = r_min + rng.uniform(0.6, 1.5)
        hh = rng.uniform(0.8, 2.5)
        tgt = dict(shape="annulus", sections=rng.choice([8, 12, 16]), r_min=r_min, r_max=r_max, ann_h=hh, ball_local=[(r_min + r_max) / 2, 0.0, 0.0],
                   yaw=rng.uniform(-math.pi, math.pi), pitch=rng.uniform(-1.5, 1.5), roll=rng.uniform(-3, 3))
        size = r_max
    else:
        tgt = gen_shape(rng, 0.8, 4.0)
        size = max(tgt["dims"]) / 2
    if mode == "strips":
        # a compact target (the inscribed ball must span several ray spacings while the silhouette stays small)
        if tgt["shape"] == "annulus":
            r_min = rng.uniform(0.5, 0.9)
            r_max = r_min + rng.uniform(1.1, 1.6)
            hh = rng.uniform(1.6, 2.6)
            tgt.update(r_min=r_min, r_max=r_max, ann_h=hh, ball_local=[(r_min + r_max) / 2, 0.0, 0.0], sections=rng.choice([8, 12]))
            inr, rho_e = 0.85 * min((r_max - r_min) / 2, hh / 2), math.hypot(r_max, hh / 2)
        else:
            # elongated, with the inscribed ball towards one end: the rest of the silhouette is left for the other walls
            dims = [rng.uniform(1.5, 2.2) for _ in range(3)]
            ax = rng.randrange(3)
            dims[ax] = rng.uniform(3.0, 4.5)
            tgt["dims"] = dims
            inr, rho_e = min(dims) / 2 * (0.5 if tgt["shape"] == "cone" else 0.9), norm(dims) / 2
            if tgt["shape"] == "box" or (tgt["shape"] == "cylinder" and ax == 2):
                rs = min(x for i, x in enumerate(dims) if i != ax) / 2
                bl = [0.0, 0.0, 0.0]
                bl[ax] = (dims[ax] / 2 - rs) * rng.uniform(0.3, 0.9) * rng.choice([-1, 1])
                tgt["ball_local"] = bl
        size = rho_e
        az, alt = rng.uniform(-h / 2, h / 2) * 0.6, rng.uniform(-v / 2, v / 2) * 0.5
        dist = max(3.0 * rho_e, min(9.0 * rho_e, inr / 0.085))
        if dist + 2 * rho_e > 0.85 * d:
            d = viewer["d"] = (dist + 2 * rho_e) / 0.85
        viewer.pop("viewRayCount", None)
        viewer["viewRayDensity"] = 1
    elif mode in ("inside", "hidden"):
        az, alt = rng.uniform(-h / 2, h / 2) * 0.8, rng.uniform(-v / 2, v / 2) * 0.7
        dist = rng.uniform(max(3 * size, 0.15 * d), max(3.2 * size, 0.8 * d))
    elif mode == "rear":   # inside the window but in the rear half-space (needs a view wider than 180 deg)
        if h > math.pi + 0.6:
            az = rng.choice([-1, 1]) * rng.uniform(math.pi / 2 + 0.1, h / 2 - 0.15)
        else:
            az = rng.uniform(-h / 2, h / 2) * 0.8
        alt = rng.uniform(-v / 2, v / 2) * 0.5
        dist = rng.uniform(max(3 * size, 0.15 * d), max(3.2 * size, 0.8 * d))
    elif mode == "behind":
        az = math.pi + rng.uniform(-0.5, 0.5) * max(0.0, (2 * math.pi - h)) / 2
        alt = rng.uniform(-0.3, 0.3)
        dist = rng.uniform(max(3 * size, 0.15 * d), max(3.2 * size, 0.8 * d))
    elif mode == "far":
        az, alt = rng.uniform(-h / 2, h / 2) * 0.8, rng.uniform(-v / 2, v / 2) * 0.7
        dist = d + size * rng.uniform(0.5, 3.0) + rng.uniform(0, 5)
    elif mode == "edge":
        dist = rng.uniform(max(4 * size, 0.2 * d), max(4.2 * size, 0.8 * d))
        ar = math.asin(min(1.0, 0.9 * size * 1.8 / dist))       # roughly the target's angular radius
        az = rng.choice([-1, 1]) * (h / 2 + rng.choice([-1, 1]) * (ar + rng.uniform(0.03, 0.25)))
        alt = rng.uniform(-v / 2, v / 2) * 0.4
    elif mode == "vertical":
        az = rng.uniform(-h / 2, h / 2) * 0.5
        alt = rng.choice([-1, 1]) * min(1.5, (v / 2) * rng.uniform(0.8, 1.6))
        dist = rng.uniform(max(3 * size, 0.2 * d), max(3.2 * size, 0.8 * d))
    elif mode == "rearedge":
        blind = math.pi - h / 2
        ar = min(1.2, blind * rng.uniform(0.6, 1.8))
        dist = max(1.3 * size, 1.5 * size / math.sin(ar))
        az = math.pi + rng.uniform(-0.6, 0.6) * ar
        alt = rng.uniform(-v / 2, v / 2) * 0.3
    else:  # straddle: very close, spans a wide angle, possibly ahead and behind
        az, alt = rng.uniform(-math.pi, math.pi), rng.uniform(-0.5, 0.5)
        dist = size * rng.uniform(1.05, 1.8)
        viewer["viewRayDensity"] = 1
    az = (az + math.pi) % (2 * math.pi) - math.pi
    alt = max(-1.5, min(1.5, alt))
    tgt["pos"] = add(c, mv(R, [dist * x for x in local_dir(az, alt)]))
    tgt["occluding"] = True
    occ = []
    if mode == "strips":
        Rt = rot(tgt["yaw"], tgt["pitch"], tgt["roll"])
        bc = add(tgt["pos"], mv(Rt, tgt.get("ball_local", [0.0, 0.0, 0.0])))
        occ = gen_strips(rng, c, tgt["pos"], rho_e, bc, inr) or []
        if len(occ) <= 2 and rng.random() < 0.5:
            o = gen_shape(rng, 0.5, 2.0)
            o["pos"] = [c[i] + rng.uniform(-d, d) for i in range(3)]
            o["occluding"] = True
            occ.insert(rng.randrange(len(occ) + 1), o)
        orders = orders_for(rng, len(occ), True)
        return dict(id=f"ob{idx}", viewer=viewer, target=tgt, occ=occ, mode=mode, place=dict(az=az, alt=alt, dist=dist),
                    grid=(idx % 3 == 0 and tgt["shape"] != "spheroid"), orders=orders)
    if mode == "hidden" and rng.random() < 0.5:
        wl = long_wall(rng, c, tgt["pos"], d, t=rng.uniform(0.3, 0.55))
        if wl:
            occ.append(wl)
    elif mode == "hidden":
        # a ball-shaped screen between viewer and target, large enough to hide the whole target
        t = rng.uniform(0.35, 0.6)
        dw = dist * t
        need = dw * math.tan(min(1.2, math.asin(min(0.95, 1.8 * size / dist)))) * 1.6 + 0.3
        rw = min(need, dw * 0.85)
        o = dict(shape="spheroid", dims=[2 * rw] * 3, yaw=0.0, pitch=0.0, roll=0.0, occluding=True,
                 pos=[c[i] + t * (tgt["pos"][i] - c[i]) for i in range(3)], screen=True)
        occ.append(o)
    for _ in range(rng.choice([0, 1, 1, 2])):
        o = gen_shape(rng, 0.5, 3.0)
        m = rng.random()
        if m < 0.5:
            t = rng.uniform(0.2, 0.8)
            o["pos"] = [c[i] + t * (tgt["pos"][i] - c[i]) + rng.uniform(-1.5, 1.5) for i in range(3)]
        else:
            o["pos"] = [c[i] + rng.uniform(-d, d) for i in range(3)]
        o["occluding"] = True
        occ.append(o)
    occ = occ[:3]
    if rng.random() < 0.15:
        viewer.pop("viewRayDensity", None)
        viewer["viewRayCount"] = [rng.choice([40, 80, 160]), rng.choice([40, 80])]
    if "viewRayDensity" in viewer and rng.random() < 0.1:
        # viewRayDistanceScaling: ray counts are multiplied by the distance to the target's position
        viewer["viewRayDistanceScaling"] = True
        viewer["viewRayDensity"] = round(viewer["viewRayDensity"] / max(1.0, dist), 4)
    dscale = dist if viewer.get("viewRayDistanceScaling") else 1.0
    # ray budget: the cost of a case is (rays in the target's angular window) x (ray/mesh queries over all occluder
    # subsets); a few close, large, fully screened targets used to take most of the run.  Lower the ray density
    # (then drop extra occluders) until the worst-case cost fits.
    ang = math.pi if dist < 1.9 * size else 2 * math.asin(min(1.0, 1.8 * size / dist))
    wh = min(h, ang / max(0.2, math.cos(min(1.4, abs(alt) + ang / 2))))
    wv = min(v, ang)
    for _ in range(60):
        n = len(occ)
        queries = ((1 << n) + (0, 0, 1, 5)[n]) * (1 + n / 2.0)
        if "viewRayCount" in viewer:
            rc = viewer["viewRayCount"]
            rays = max(1.0, wh / h * rc[0]) * max(1.0, wv / v * rc[1])
        else:
            dn = viewer["viewRayDensity"]
            rays = max(1.0, math.degrees(wh) * dn * dscale) * max(1.0, math.degrees(wv) * dn * dscale)
        if rays * queries <= RAY_BUDGET:
            break
        f = min(0.9, math.sqrt(RAY_BUDGET / (rays * queries)))
        if "viewRayCount" in viewer and min(viewer["viewRayCount"]) > 12:
            viewer["viewRayCount"] = [max(12, int(x * f)) for x in viewer["viewRayCount"]]
        elif "viewRayDensity" in viewer and viewer["viewRayDensity"] * dscale > 0.25:
            viewer["viewRayDensity"] = max(0.25 / dscale, round(viewer["viewRayDensity"] * f, 4))
        elif n > 1:
            occ.pop()
        else:
            break
    # the exact-rational model costs ~1.5 ms per mesh edge: every box/cone/cylinder/annulus, one spheroid (1920 edges) in six
    grid = tgt["shape"] != "spheroid" or idx % 6 == 0
    return dict(id=f"ob{idx}", viewer=viewer, target=tgt, occ=occ, mode=mode, place=dict(az=az, alt=alt, dist=dist), grid=grid,
                orders=orders_for(rng, len(occ), False))


def gen_2d_case(rng, idx):
    """2D compatibility classes (Point2D / OrientedPoint2D / Object2D viewers, no occluders: the `_canSee2D` fast path)"""
    r = rng.random()
    cls = "Point2D" if r < 0.12 else ("OrientedPoint2D" if r < 0.5 else "Object2D")
    pos = [rng.uniform(-200, 200), rng.uniform(-200, 200)] if rng.random() < 0.85 else [0.0, 0.0]
    heading = rng.choice([0.0, math.pi / 2, -math.pi / 2, math.pi]) if rng.random() < 0.15 else rng.uniform(-math.pi, math.pi)
    ak = rng.choice(["narrow", "medium", "wide", "full", "over"])
    angle = math.radians(dict(narrow=rng.uniform(10, 60), medium=rng.uniform(60, 180), wide=rng.uniform(180, 350), full=360.0, over=0.0)[ak])
    if ak == "over":
        angle = rng.choice(OVER_H)
    d = rng.uniform(5, 60)
    viewer = dict(cls=cls, pos=pos, heading=heading, angle=angle, d=d, ak=ak)      # `angle` = the REQUESTED viewAngle
    angle = min(angle, math.tau)
    c = list(pos)
    if cls == "Object2D":
        cam = [rng.uniform(-2, 2), rng.uniform(-2, 2)] if rng.random() < 0.7 else [0.0, 0.0]
        viewer["cam"] = cam
        c = [pos[0] + math.cos(heading) * cam[0] - math.sin(heading) * cam[1], pos[1] + math.sin(heading) * cam[0] + math.cos(heading) * cam[1]]
    if cls == "Point2D":
        viewer["ak"], angle = "full", math.tau
    k = rng.random()
    if k < 0.4:
        delta = rng.choice([-1, 1]) * (angle / 2) * rng.uniform(0.85, 1.15)
    elif k < 0.7:
        delta = rng.uniform(-angle / 2, angle / 2) * 0.95
    else:
        delta = rng.uniform(-math.pi, math.pi)
    dist = d * (rng.uniform(0.9, 1.1) if rng.random() < 0.3 else rng.uniform(0.05, 0.98))
    b = heading + delta
    p = [c[0] - dist * math.sin(b), c[1] + dist * math.cos(b)]
    kind = rng.choice(["vector", "vector", "point", "opoint", "object", "object"])
    tgt = dict(kind=kind, pos=[p[0], p[1], 0.0])
    if kind == "vector" and rng.random() < 0.1:
        tgt["pos"][2] = rng.choice([0.5, -2.0])         # a vector off the plane is never seen in 2D
    if kind == "object":
        tgt.update(heading=rng.uniform(-math.pi, math.pi), dims=[rng.uniform(0.5, 4), rng.uniform(0.5, 4)])
    return dict(id=f"td{idx}", viewer=viewer, target=tgt, place=dict(delta=delta, dist=dist))


def gen_scripted_case(rng, idx):
    """occluder loop with a scripted intersector: a viewer, a box target in view, 2-4 dummy occluders within range; which
    rays hit what at which distance is scripted per ray (see impl_c17.script_tables)"""
    viewer = gen_viewer(rng, allow_point=(rng.random() < 0.2))
    viewer["d"] = max(viewer["d"], 12.0)
    c, R = camera(viewer)
    h, v, d = viewer["eff"][0], viewer["eff"][1], viewer["d"]
    tgt = dict(shape="box", dims=[rng.uniform(1.0, 3.0) for _ in range(3)], yaw=rng.uniform(-3, 3), pitch=rng.uniform(-1, 1), roll=rng.uniform(-3, 3))
    rho = norm(tgt["dims"]) / 2
    az, alt = rng.uniform(-h / 2, h / 2) * 0.6, max(-1.3, min(1.3, rng.uniform(-v / 2, v / 2) * 0.6))
    dist = rng.uniform(max(5.0, 3 * rho), max(5.5, 0.7 * d - rho))
    tgt["pos"] = add(c, mv(R, [dist * x for x in local_dir(az, alt)]))
    tgt["occluding"] = True
    wdeg = math.degrees(2 * math.asin(min(1.0, rho / dist)))
    viewer["viewRayDensity"] = round(rng.uniform(8, 18) / wdeg, 3)        # roughly 60-320 rays: 1-3 batches of 128
    n = rng.choice([2, 2, 3, 3, 4])
    occ = []
    for _ in range(n):
        u = [rng.gauss(0, 1) for _ in range(3)]
        k = rng.uniform(0.05, 0.4) * d / max(1e-9, norm(u))
        occ.append(dict(shape="box", dims=[0.5, 0.5, 0.5], yaw=0.0, pitch=0.0, roll=0.0, occluding=True, pos=[c[i] + k * u[i] for i in range(3)]))
    pat = rng.choice(["partition", "partition", "partition", "partition+1", "nested", "nested+1", "first", "random", "random"])
    script = dict(seed=rng.randrange(1 << 30), pattern=pat.rstrip("+1"), m=n + (1 if pat.endswith("+1") else 0), p=[rng.choice([20, 50, 80, 95]) for _ in range(n)])
    orders = [list(p) for k in range(1, min(n, 3) + 1) for sub_ in itertools.combinations(range(n), k) for p in itertools.permutations(sub_)]
    if n == 4:
        orders += rng.sample([list(p) for p in itertools.permutations(range(4))], 8)
    return dict(id=f"sc{idx}", viewer=viewer, target=tgt, occ=occ, script=script, orders=orders)


def rv_cmd(r, order, nall):
    """RV command of the model for one ordered occluder list, on the hit tables of the scripted run"""
    t = ["RV", hx(r["d"]), str(len(order)), str(len(r["batches"]))]
    for b in r["batches"]:
        t.append(str(len(b)))
        for th, oh in b:
            t.append(str(len(th)))
            t += [hx(x) for x in th]
            for j in order:
                t.append(str(len(oh[j])))
                t += [hx(x) for x in oh[j]]
    return " ".join(t)


def gen_plumbing_case(rng, idx):
    """ego (unrotated, away from the origin) + up to 4 targets in distinct directions, each optionally
    behind a cube that is occluding or not; each target carries one built-in visibility demand."""
    ex, ey = 100.0, 50.0
    n = rng.choice([1, 1, 2, 3])
    dirs = rng.sample(range(6), n)
    # the ego's view angles: default, or an explicit pair whose horizontal component is at / over the limit (360 deg) and
    # whose vertical component is narrow, legal or over the limit (180 deg); the ego is unrotated, so the vertical window
    # is the elevation band |el| <= min(V, 180 deg) / 2
    va_src, v_half = "", 90.0
    if rng.random() < 0.6:
        hs = rng.choice(["360 deg", "400 deg", "15 * (24 deg)", "720 deg", "7"])
        vdeg = rng.choice([30, 50, 90, 180, 200])
        va_src, v_half = f", with viewAngles ({hs}, {vdeg} deg)", min(vdeg, 180) / 2.0
    lines = ["workspace = Workspace(BoxRegion(position=(100, 50, 0), dimensions=(200, 200, 200)))",
             f"ego = new Object at ({ex}, {ey}, 0){va_src}"]
    inwin = {}
    wall_pos = []
    objs = [dict(occluding=True)]        # id 0 = ego
    obs, non, rv, ops = [], [], [], []
    walls = {}
    reqs = []
    forms = ["visible", "visible", "notvisible", "requireVisible", "requireVisible", "op", "opnot", "opvec"]
    for k, dk in enumerate(dirs):
        th = dk * math.pi / 3 + 0.2
        el = rng.choice([0, 0, 0, 35, -35, 55, -55]) if va_src else 0       # elevation of the target (degrees), the cube on the same line
        ce, se = math.cos(math.radians(el)), math.sin(math.radians(el))
        if any(norm(sub([ex + 10 * ce * math.cos(th), ey + 10 * ce * math.sin(th), 10 * se], q)) < 9.0 for q in wall_pos):
            el, ce, se = 0, 1.0, 0.0           # two elevated cubes in adjacent directions would intersect (circumradius 4.33 each)
        tx, ty, tz = ex + 20 * ce * math.cos(th), ey + 20 * ce * math.sin(th), 20 * se
        wx, wy, wz = ex + 10 * ce * math.cos(th), ey + 10 * ce * math.sin(th), 10 * se
        wall_pos.append([wx, wy, wz])
        form = rng.choice(forms)
        tocc = rng.random() < 0.7
        tid = len(objs)
        inwin[str(tid)] = abs(el) < v_half - 5          # a 1x1x1 target at distance 20 spans +-2.5 deg; bands are >= 10 deg apart
        spec = f"new Object at ({tx:.6f}, {ty:.6f}, {tz:.6f}), with occluding {tocc}"
        if form == "visible":
            spec += ", visible from ego"
            obs.append((0, tid))
        elif form == "notvisible":
            spec += ", not visible from ego"
            non.append((0, tid))
        elif form == "requireVisible":
            spec += ", with requireVisible True"
            rv.append(tid)
        lines.append(f"t{k} = " + spec)
        objs.append(dict(occluding=tocc))
        wall = rng.random() < 0.85
        wid = None
        if wall:
            wocc = rng.random() < 0.5
            wid = len(objs)
            lines.append(f"w{k} = new Object at ({wx:.6f}, {wy:.6f}, {wz:.6f}), with width 5, with length 5, with height 5, with occluding {wocc}")
            objs.append(dict(occluding=wocc))
            walls[tid] = (wid, wocc)
        if form == "op":
            lines.append(f"require ego can see t{k}")
            ops.append(("see", tid, tid))
        elif form == "opnot":
            lines.append(f"require not (ego can see t{k})")
            ops.append(("notsee", tid, tid))
        elif form == "opvec":
            lines.append(f"require ego can see t{k}.position")
            ops.append(("see", tid, -1))
        reqs.append(form)
    # operator requirements are written after all objects exist?  No: `objects` in CanSee is the list
    # at evaluation time of the closure (currentScenario._objects at compile time of the call).  Put
    # operator requirements last so that every object is known to them.
    decl = [l for l in lines if not l.startswith("require")]
    rq = [l for l in lines if l.startswith("require")]
    return dict(id=f"pl{idx}", src="\n".join(decl + rq) + "\n", objs=objs, obs=obs, non=non, rv=rv, ops=ops,
                walls={str(k): v for k, v in walls.items()}, forms=reqs, inwin=inwin, ego_angles=va_src)


# ------------------------------------------------------------------ model commands
def hx(x):
    return float(x).hex()


def pv_cmd(mode, r, hits_key, with_occ=True):
    t = ["PV", mode, "1" if r["R"] is not None else "0"] + [hx(x) for x in r["c"]]
    if r["R"] is not None:
        t += [hx(x) for row in r["R"] for x in row]
    va = r.get("va_req", r["va"])
    t += [hx(r["d"]), hx(va[0]), hx(va[1])] + [hx(x) for x in r["p"]]
    occ = r["occ"] if with_occ else []
    t.append(str(len(occ)))
    for o in occ:
        t += [hx(o["odist"]), str(len(o[hits_key]))] + [hx(x) for x in o[hits_key]]
    return " ".join(t)


def parse_pv(line):
    p = line.split()
    if p[0] == "EXN":
        return None
    return dict(vis=p[0] == "1", margin=float.fromhex(p[1]), az=float.fromhex(p[2]), alt=float.fromhex(p[3]))


def run_chunks(kind, cases, timeout=3000):
    chunks = [cases[i::WORKERS] for i in range(WORKERS)]
    chunks = [ch for ch in chunks if ch]
    out = {}
    with cf.ThreadPoolExecutor(len(chunks) or 1) as ex:
        for r in ex.map(lambda ch: common.run_impl("impl_c17.py", dict(kind=kind, cases=ch), timeout=timeout), chunks):
            for x in r["results"]:
                out[x["id"]] = x
    return out


# ------------------------------------------------------------------ oracles
def view_bounds(r):
    """(theta_max, h/2, v/2): largest angle from the forward axis of a direction inside the window"""
    hh, vh = r["va"][0] / 2, r["va"][1] / 2
    if hh >= math.pi / 2:
        th = hh
    else:
        th = math.acos(math.cos(hh) * math.cos(min(vh, math.pi / 2)))
        th = max(th, vh)
    return min(th, math.pi), hh, vh


def local_of(r, w):
    return w if r["R"] is None else mtv(r["R"], w)


def az_alt(l):
    n = norm(l)
    az = (math.atan2(l[1], l[0]) - math.pi / 2 + math.pi) % (2 * math.pi) - math.pi
    return az, math.asin(max(-1.0, min(1.0, l[2] / n)))


def old_centre_visible(exe, case, r, mask):
    """would the UNREPAIRED point test (F14), applied to the target's centre with this occluder subset,
    answer 'visible'?  (canSee returns True at once when the shape contains its centre and the centre is seen)"""
    if not r["target"].get("containsCenter") or r["R"] is None:
        return False
    rr = dict(c=r["c"], R=r["R"], d=r["d"], va=r["va"], p=r["target"]["centre"],
              occ=[o for i, o in enumerate(r["centre_old"]) if mask >> i & 1])
    o = parse_pv(common.run_driver(exe, [pv_cmd("old", rr, "old")])[0])
    return bool(o and o["vis"] and abs(o["margin"]) >= TOL)


def check_object(c, case, r, exe):
    """necessary / sufficient / monotonicity conditions on the implementation's answers"""
    res = r["res"]
    n = len(case["occ"])
    full = str((1 << n) - 1)
    if full not in res:
        return
    cam, d = r["c"], r["d"]
    th_max, hh, vh = view_bounds(r)
    T = r["target"]
    w = sub(T["centre"], cam)
    dist = norm(w)
    rho = T["rho"]
    l = local_of(r, w)
    fwd_angle = angle(l, [0, 1, 0])
    az, alt = az_alt(l) if dist > 0 else (0.0, 0.0)
    M = 0.02
    # --- monotonicity over all subsets
    for a in range(1 << n):
        for b in range(1 << n):
            if a & b == a and a != b and res[str(b)] and not res[str(a)]:
                c.violation("object-monotone", "adding occluders turned not-visible into visible",
                            dict(case=case, subset=a, superset=b, results=res))
    c.count(n=(1 << n))
    # --- the ORDER in which the occluders are listed is irrelevant (C17_rays_visible_permutation)
    perm = r.get("perm", {})
    for key, val in perm.items():
        order = [int(x) for x in key.split(",")]
        mask = sum(1 << i for i in order)
        c.hist("object:orders-compared")
        if val != res[str(mask)]:
            c.violation("object-order", "the answer of canSee depends on the order in which the occluders are listed",
                        dict(case=case, order=order, answer=val, answer_in_index_order=res[str(mask)], results=res, perm=perm))
            break
    # --- wholly outside the view volume => not visible (for every occluder subset)
    outside = None
    if dist - rho > d + M:
        outside = "beyond-distance"
    elif dist > rho * 1.001:
        ar = math.asin(min(1.0, rho / dist))
        if r["R"] is not None and fwd_angle - ar > th_max + M:
            outside = "outside-cone"
        elif r["R"] is not None and (alt - ar > vh + M or alt + ar < -vh - M):
            outside = "outside-altitude"
    if outside:
        c.hist("object:outside:" + outside)
        c.count((case["id"], "outside", case["viewer"], case["target"]), nontrivial=True)
        bad = [int(m) for m, v_ in res.items() if v_]
        if bad:
            c.violation("object-outside", "an object wholly outside the view volume is reported visible",
                        dict(case=case, why=outside, results=res, facts=r,
                             explained_by_old_transform=all(old_centre_visible(exe, case, r, m) for m in bad)))
    # --- a screen hiding the whole silhouette => not visible whenever that screen is among the occluders
    for i, (o, f) in enumerate(zip(case["occ"], r["occ"])):
        wo = sub(f["ball_c"], cam)
        do = norm(wo)
        if o.get("wall"):
            hidden = wall_hides(o, cam, T["centre"], rho)
            if hidden:
                c.hist("object:hidden-by-long-wall" + (":centre-beyond-visible-distance" if do > d else ""))
        elif f["ball_r"] <= 0 or do <= f["rho"] * 1.001 or dist <= rho * 1.001:
            continue
        else:
            cover = math.asin(min(1.0, f["ball_r"] / do)) - (angle(wo, w) + math.asin(min(1.0, rho / dist)))
            hidden = cover > M and do + f["rho"] < dist - rho - M
        if hidden:
            c.hist("object:hidden-by-screen")
            c.count((case["id"], "hidden", i, case["viewer"], case["target"]), nontrivial=True)
            for mask in range(1 << n):
                if mask >> i & 1 and res[str(mask)]:
                    c.violation("object-hidden", "an object whose every line of sight is blocked is reported visible",
                                dict(case=case, screen=i, subset=mask, results=res, facts=r,
                                     explained_by_old_transform=old_centre_visible(exe, case, r, mask)))
                    break
    # --- several partial walls that jointly hide the whole silhouette => not visible, in any order
    sidx = [i for i, o in enumerate(case["occ"]) if o.get("strip")]
    if len(sidx) >= 2 and dist > rho * 1.001:
        for mask in range(1 << n):
            ws = [case["occ"][i] for i in sidx if mask >> i & 1]
            if len(ws) < 2 or not strips_cover(ws, cam, T["centre"], rho):
                continue
            alone = any(strips_cover([w_], cam, T["centre"], rho) for w_ in ws)
            c.hist("object:hidden-by-joint-walls:%d" % len(ws) + (":one-suffices" if alone else ""))
            c.count((case["id"], "joint", mask, case["viewer"], case["target"]), nontrivial=not alone)
            answers = [("index order", res[str(mask)])] + [(k, val) for k, val in perm.items() if sum(1 << int(x) for x in k.split(",")) == mask]
            bad = [k for k, val in answers if val]
            if bad:
                c.violation("object-hidden", "an object whose every line of sight is blocked by several partial walls together is reported visible",
                            dict(case=case, screen="joint-walls", subset=mask, orders_reported_visible=bad, results=res, perm=perm, facts=r,
                                 explained_by_old_transform=old_centre_visible(exe, case, r, mask)))
                break
    # --- a substantial part well inside the view volume, unoccluded => visible
    bw = sub(T["ball_c"], cam)
    bd = norm(bw)
    br = 0.9 * T["ball_r"]
    if br > 0 and bd > br * 1.05:
        alpha = math.asin(br / bd)
        dens = case["viewer"].get("viewRayDensity", 5)
        if "viewRayCount" in case["viewer"]:
            rc = case["viewer"]["viewRayCount"]
            spacing = max(r["va"][0] / rc[0], r["va"][1] / rc[1])
        else:
            if case["viewer"].get("viewRayDistanceScaling"):
                dens = dens * norm(sub(T["centre"], cam))
            spacing = math.radians(1.0 / dens)
        bl = local_of(r, bw)
        baz, balt = az_alt(bl)
        ok = alpha >= max(0.02, 4 * spacing) and bd + br < d - M
        if r["R"] is not None:
            ok = ok and abs(balt) + alpha < min(vh - M, 1.2)
            if hh < math.pi - 1e-9:
                ok = ok and abs(baz) + alpha / math.cos(min(1.3, abs(balt) + alpha)) < hh - M
        if ok:
            # occluders whose bounding sphere stays clear of the cone towards the ball (or lies beyond it)
            for mask in range(1 << n):
                clear = True
                for i, f in enumerate(r["occ"]):
                    if not (mask >> i & 1):
                        continue
                    if case["occ"][i].get("strip"):
                        # a thin wall: its bounding sphere is useless; the slopes of the rays towards the ball miss its box
                        if not strip_clear_of_ball(case["occ"][i], cam, T["ball_c"], br):
                            clear = False
                        continue
                    wo = sub(f["centre"], cam)
                    do = norm(wo)
                    if do - f["rho"] > bd + br + M:
                        continue
                    if do > f["rho"] * 1.001 and angle(wo, bw) > math.asin(min(1.0, f["rho"] / do)) + alpha + M:
                        continue
                    clear = False
                if clear and any(case["occ"][i].get("strip") for i in range(n) if mask >> i & 1):
                    c.hist("object:visible-through-gap-between-walls")
                if clear:
                    c.hist("object:substantial-part-inside")
                    c.count((case["id"], "inside", mask, case["viewer"], case["target"]), nontrivial=True)
                    if not res[str(mask)]:
                        c.violation("object-inside", "an unoccluded object with a substantial part inside the view volume is reported not visible",
                                    dict(case=case, subset=mask, results=res, facts=r, alpha=alpha, spacing=spacing))
                        break


def obj_cmd(case, r):
    g = r["grid"]
    v = case["viewer"]
    if "viewRayCount" in v:
        mode, p1, p2 = "C", float(v["viewRayCount"][0]), float(v["viewRayCount"][1])
    else:
        dsc = norm(sub(r["target"]["centre"], r["c"])) if v.get("viewRayDistanceScaling") else 1.0
        mode, p1, p2 = "D", float(v.get("viewRayDensity", 5)), dsc
    t = ["OBJ", hx(r["va"][0]), hx(r["va"][1]), mode, hx(p1), hx(p2), str(len(g["verts"]))]
    t += [hx(x) for w in g["verts"] for x in w]
    t.append(str(len(g["edges"])))
    t += [str(i) for e in g["edges"] for i in e]
    return " ".join(t), (mode, p1, p2)


def parse_obj(line):
    p = line.split()
    if p[0] == "EXN":
        return None
    f = float.fromhex
    o = dict(tag=p[0], ahead=p[1] == "1", behind=p[2] == "1", nextra=int(p[3]), windows=[], rows=[], nrays=0)
    if o["tag"] == "NONE":
        return o
    k = 4
    nw = int(p[k]); k += 1
    for _ in range(nw):
        o["windows"].append([f(x) for x in p[k:k + 4]]); k += 4
    if o["tag"] == "ASSERT":
        return o
    o["nrays"] = int(p[k]); nr = int(p[k + 1]); k += 2
    for _ in range(nr):
        o["rows"].append([f(p[k]), int(p[k + 1]), f(p[k + 2]), f(p[k + 3]), f(p[k + 4]), f(p[k + 5])]); k += 6
    return o


def run_driver_par(exe, cmds):
    """the OBJ commands are CPU-heavy (exact rationals): spread them over WORKERS driver processes"""
    if not cmds:
        return []
    k = max(1, min(WORKERS, len(cmds)))
    out = [None] * len(cmds)
    with cf.ThreadPoolExecutor(k) as ex:
        for j, res in enumerate(ex.map(lambda j: common.run_driver(exe, cmds[j::k]), range(k))):
            out[j::k] = res
    return out


def grid_margin(m, r, rc, diagline):
    """smallest distance of any discrete decision of the window/grid computation from its threshold (float vs exact)"""
    h, v = r["va"]
    dg = diagline.split()
    if dg[0] == "EXN":
        return 0.0
    m = dict(m, **dict(zip(["hmin", "hmax", "vmin", "vmax", "smin", "smax", "miny", "minx"], [float.fromhex(x) for x in dg])))
    ms = [m["miny"], m["minx"], abs(m["vmin"] - v / 2), abs(m["vmax"] + v / 2)]
    if m["behind"] and not m["ahead"]:
        ms += [abs(h / 2 + abs(m["smax"]) - math.pi), abs(h / 2 + abs(m["smin"]) - math.pi)]
    elif not m["behind"]:
        ms += [abs(m["hmax"] + h / 2), abs(m["hmin"] - h / 2)]
    mode, p1, p2 = rc
    if mode == "D":
        rch, rcv = math.degrees(h) * p1 * p2, math.degrees(v) * p1 * p2
    else:
        rch, rcv = p1, p2
    near = lambda x: abs(x - round(x))
    for (hl, hh_, vl, vh_) in m["windows"]:
        ms += [abs(hh_ - hl), abs(vh_ - vl), near((vh_ - vl) / v * rcv)]
        if mode == "C":
            ms.append(near((hh_ - hl) / h * rch))
        else:
            nv = max(1, math.ceil((vh_ - vl) / v * rcv))
            for i in range(nv):
                a = vl if nv == 1 else vl + i * (vh_ - vl) / (nv - 1)
                x = math.cos(a) * (hh_ - hl) / h * rch
                if x > 1:
                    ms.append(near(x))
    return min(ms)


def rows_differ(ri, rm):
    if len(ri) != len(rm):
        return f"{len(ri)} rows of rays cast, model {len(rm)}"
    for a, b in zip(ri, rm):
        if abs(a[0] - b[0]) > 1e-8:
            return f"row altitude {a[0]!r} vs model {b[0]!r}"
        if a[1] != b[1]:
            return f"row at altitude {a[0]:.6f}: {a[1]} rays, model {b[1]}"
        if abs(a[0]) < 1.5 and a[1] > 0:
            tol = 1e-8 / math.cos(a[0])
            if abs(a[2] - b[2]) > tol or abs(a[3] - b[3]) > tol or abs(a[4] - b[4]) > a[1] * tol or abs(a[5] - b[5]) > 8 * a[1] * tol:
                return f"row at altitude {a[0]:.6f}: azimuths [{a[2]!r}, {a[3]!r}] sum {a[4]!r}, model [{b[2]!r}, {b[3]!r}] sum {b[4]!r}"
    return None


def main():
    c = Check(PID, "proof")
    c.cov["rule"] = ("seeded generator of viewers (Point/OrientedPoint/Object, 85% positioned 20-350 units from the origin, arbitrary "
                     "yaw/pitch/roll, camera offsets, view angles narrow/medium/>180deg/full, visibleDistance 5-60), point targets placed in "
                     "viewer-relative spherical coordinates (35% within 15% of the horizontal window edge, 15% vertical edge, 25% around the "
                     "distance limit, 25% anywhere) with 0-3 occluders on/behind/off the line of sight, object targets "
                     "(box/cylinder/cone/spheroid/annulus) inside/behind/far/edge/straddling/above with screens and random occluders, and "
                     "scenarios with built-in visibility requirements; a point case is non-trivial when the viewer is rotated AND away from "
                     "the origin (so rotating the difference matters) or an occluder is hit; an object case when one of the certified "
                     "conditions (outside / hidden / substantial part inside) applies")
    common.ensure_parser()
    if not c.proofs():
        c.finish()
    exe = common.build_ocaml(PID)
    quick = c.tier == "quick"
    rng = c.rng
    n_pt, n_ob, n_pl, n_2d = (1000, 160, 40, 400) if quick else (30000, 3000, 300, 6000)
    sc = float(os.environ.get("VERIF_C17_SCALE", "1"))       # development knob only
    n_pt, n_ob, n_pl, n_2d = [max(1, int(x * sc)) for x in (n_pt, n_ob, n_pl, n_2d)]

    pts = [gen_point_case(rng, i) for i in range(n_pt)]
    # the recorded witness of F14 and friends first
    for j, (pos, yaw, tp) in enumerate([([10.0, 0.0, 0.0], math.pi / 2, [5.0, 0.0, 0.0]), ([4.0, 0.0, 0.0], math.pi / 2, [3.0, 0.0, 0.0]),
                                        ([0.0, 0.0, 0.0], math.pi / 2, [-5.0, 0.0, 0.0])]):
        pts.insert(0, dict(id=f"ptw{j}", viewer=dict(cls="OrientedPoint", pos=pos, yaw=yaw, pitch=0.0, roll=0.0,
                   va=[math.radians(60), math.radians(60)], d=50.0, hk="narrow", vk="narrow"),
                   target=dict(kind="vector", pos=tp), occ=[], place={}))
    obs = [gen_object_case(rng, i) for i in range(n_ob)]
    pls = [gen_plumbing_case(rng, i) for i in range(n_pl)]
    tds = [gen_2d_case(rng, i) for i in range(n_2d)]
    scs = [gen_scripted_case(rng, i) for i in range(max(1, int((40 if quick else 600) * sc)))]
    if c.replay:
        body = json.load(open(c.replay))
        case = body.get("case", {}).get("case")
        if case:
            pts = [case] if case["id"].startswith("pt") else []
            obs = [case] if case["id"].startswith("ob") else []
            pls = [case] if case["id"].startswith("pl") else []
            tds = [case] if case["id"].startswith("td") else []
            scs = [case] if case["id"].startswith("sc") else []

    # ---------------------------------------------------------------- (a) points: exact correspondence
    t0 = time.time()
    phase = c.cov.setdefault("phase_s", {})
    # ONE round of implementation processes for all four kinds of cases (importing Scenic dominates small batches);
    # the heavy-tailed object cases first, so that round-robin chunks are balanced
    mixed = ([dict(x, k="objects") for x in obs] + [dict(x, k="plumbing") for x in pls] +
             [dict(x, k="scripted") for x in scs] + [dict(x, k="points") for x in pts] + [dict(x, k="twod") for x in tds])
    allres = run_chunks("mixed", mixed, timeout=20000) if mixed else {}
    pres = allres
    phase["impl_all"] = round(time.time() - t0, 1)
    cmds, idx = [], []
    for case in pts:
        r = pres.get(case["id"])
        if r is None or "crash" in r:
            c.violation("harness", "implementation driver crashed", dict(case=case, crash=(r or {}).get("crash"), tb=(r or {}).get("tb")), no_input=True)
            continue
        if norm(sub(r["p"], r["c"])) == 0:
            c.hist("point:skip-target-at-camera")
            continue
        idx.append((case, r))
        if case["viewer"]["cls"] != "Point":
            r["va_req"] = case["viewer"]["va"]         # the model truncates the REQUESTED angles itself
        cmds += [pv_cmd("fixed", r, "new"), pv_cmd("old", r, "old")]
    out = run_driver_par(exe, cmds)
    skipped_boundary = 0
    for k, (case, r) in enumerate(idx):
        fx, old = parse_pv(out[2 * k]), parse_pv(out[2 * k + 1])
        if fx is None or old is None:
            c.violation("harness", "model driver failed on a case", dict(case=case, out=out[2 * k:2 * k + 2]), no_input=True)
            continue
        vol = dict(vis=fx["margin"] >= 0, margin=fx["margin"])   # in the view volume (occluders ignored)
        td = norm(sub(r["p"], r["c"]))
        near_hit = any(abs(hd - td) < TOL * max(1, td) for o in r["occ"] for hd in o["new"] + o["old"])
        near_d = any(abs(o["odist"] - r["d"]) < TOL for o in r["occ"])
        rotated = r["R"] is not None and any(abs(r["R"][i][j] - (1 if i == j else 0)) > 1e-9 for i in range(3) for j in range(3))
        away = norm(r["c"]) > 1e-9
        hit = any(o["new"] for o in r["occ"])
        c.hist("point:viewer:" + case["viewer"]["cls"])
        c.hist("point:h:" + case["viewer"]["hk"])
        c.hist("point:target:" + case["target"]["kind"])
        c.hist("point:occluders:%d" % len(case["occ"]))
        if abs(fx["margin"]) < TOL or near_hit or near_d:
            skipped_boundary += 1
            c.hist("point:skip-boundary")
            continue
        c.count((case["viewer"], case["target"], case["occ"]), nontrivial=(rotated and away) or hit)
        c.cov["traces_validated_against_impl"] += 1
        c.hist("point:spec:" + ("visible" if fx["vis"] else ("occluded" if vol["vis"] else "outside")))
        if "exc" in r:
            c.violation("point-exception", "canSee raised on a point target", dict(case=case, exc=r["exc"]))
            continue
        if r["res"] != fx["vis"]:
            c.cov["disagreements_checked"] += 1
            expl = (r["res"] == old["vis"]) and abs(old["margin"]) >= TOL and rotated and away
            c.violation("point-visibility", "point visibility differs from membership in the view volume + line of sight",
                        dict(case=case, impl=r["res"], spec=fx["vis"], old_transform_model=old["vis"], explained_by_old_transform=expl,
                             margin=fx["margin"], az=fx["az"], alt=fx["alt"], facts=r))
        if len(c.cov["samples"]) < 3:
            c.sample(dict(viewer=case["viewer"], target=case["target"], n_occ=len(case["occ"]), impl=r["res"], model=fx["vis"], margin=fx["margin"]))
        # (c) visibleRegion.containsPoint vs the view volume (the region is a polyhedral approximation:
        #     compare only away from its boundary)
        if "vr" in r and abs(vol["margin"]) > 0.06 and abs(vol["margin"]) > 0.02 * r["d"]:
            c.count(n=1)
            c.hist("viewregion:compared")
            if r["vr"] != vol["vis"]:
                c.violation("view-region", "visibleRegion.containsPoint disagrees with the view volume",
                            dict(case=case, impl=r["vr"], spec=vol["vis"], margin=vol["margin"], facts=r,
                                 point_viewer_between_half_and_full_distance=(case["viewer"]["cls"] == "Point" and not r["vr"]
                                                                              and r["d"] / 2 < td <= r["d"])))
    c.cov["point_cases_skipped_near_boundary"] = skipped_boundary
    phase["points_total"] = round(time.time() - t0, 1)
    t0 = time.time()

    # ---------------------------------------------------------------- (g) view angles stored by the viewer vs the model's truncation
    # of the REQUESTED angles (OrientedPoint.__init__); every oracle above and below uses the harness-side effective angles
    va_cases = {}
    for case in pts + obs + scs + tds:
        r = allres.get(case["id"])
        V = case["viewer"]
        if r is None or "crash" in r or r.get("va_obj") is None:
            continue
        req = (V["va"][0], V["va"][1]) if "va" in V else (V["angle"], math.pi)
        va_cases.setdefault(req, []).append((case, r))
    reqs_ = sorted(va_cases)
    tr_out = common.run_driver(exe, ["TRUNC %s %s" % (hx(a), hx(b)) for a, b in reqs_]) if reqs_ else []
    for req, line in zip(reqs_, tr_out):
        try:
            mh, mv_ = [float.fromhex(x) for x in line.split()]
        except ValueError:
            c.violation("harness", "model driver failed on TRUNC", dict(req=req, out=line), no_input=True)
            continue
        over = req[0] > math.tau or req[1] > math.pi
        c.hist("view-angles:" + ("over-limit" if over else ("at-limit" if req[0] == math.tau or req[1] == math.pi else "within")))
        c.count(("va", req), nontrivial=over)
        if (mh, mv_) != (min(req[0], math.tau), min(req[1], math.pi)):
            c.violation("harness", "the extracted truncation differs from min(h, tau), min(v, pi)", dict(req=req, model=[mh, mv_]), no_input=True)
            continue
        for case, r in va_cases[req]:
            if tuple(r["va_obj"]) != (mh, mv_):
                c.cov["disagreements_checked"] += 1
                c.violation("view-angles", "the view angles a viewer ends up with differ from the requested ones truncated to (tau, pi)",
                            dict(case=case, requested=list(req), stored=r["va_obj"], spec=[mh, mv_]))
                break
    # ---------------------------------------------------------------- (h) occluder loop with a scripted intersector (exact)
    sidx_, scmds = [], []
    for case in scs:
        r = allres.get(case["id"])
        if r is None or "crash" in r:
            c.violation("harness", "implementation driver crashed", dict(case=case, crash=(r or {}).get("crash"), tb=(r or {}).get("tb")), no_input=True)
            continue
        if "exc" in r:
            c.violation("object-exception", "canSee raised on an object target (scripted intersector)", dict(case=case, exc=r["exc"]))
            continue
        for key in r["lists"]:
            sidx_.append((case, r, key))
            scmds.append(rv_cmd(r, [int(x) for x in key.split(",")], len(case["occ"])))
    sout = run_driver_par(exe, scmds)
    bad_sc = set()
    for (case, r, key), line in zip(sidx_, sout):
        if line.strip() not in ("0", "1"):
            c.violation("harness", "model driver failed on a scripted case", dict(case=case, out=line[:200]), no_input=True)
            continue
        mvis = line.strip() == "1"
        c.hist("scripted:pattern:" + case["script"]["pattern"] + ("+1" if case["script"]["m"] > len(case["occ"]) else ""))
        c.hist("scripted:model:" + ("visible" if mvis else "blocked"))
        c.count((case["id"], key), nontrivial=(len(key) > 1 and r["nrays"] > 0))
        c.cov["traces_validated_against_impl"] += 1
        if r["lists"][key] != mvis and case["id"] not in bad_sc:
            bad_sc.add(case["id"])
            c.cov["disagreements_checked"] += 1
            c.violation("occlusion-loop", "with scripted ray/mesh hit tables the answer of canSee differs from the model of the occluder loop "
                        "(a ray survives iff no listed occluder is hit at or before the target)",
                        dict(case=case, order=key, impl=r["lists"][key], model=mvis, nrays=r["nrays"], batches=len(r["batches"]),
                             all_answers=r["lists"]))
    phase["angles_scripted"] = round(time.time() - t0, 1)
    t0 = time.time()
    # ---------------------------------------------------------------- (b) objects
    ores = allres
    for case in obs:
        r = ores.get(case["id"])
        if r is None or "crash" in r:
            c.violation("harness", "implementation driver crashed", dict(case=case, crash=(r or {}).get("crash"), tb=(r or {}).get("tb")), no_input=True)
            continue
        c.hist("object:mode:" + case["mode"])
        c.hist("object:shape:" + case["target"]["shape"])
        c.hist("object:viewer:" + case["viewer"]["cls"])
        if "exc" in r:
            c.violation("object-exception", "canSee raised on an object target", dict(case=case, exc=r["exc"]))
            continue
        c.hist("object:impl:" + ("visible" if r["res"][str((1 << len(case["occ"])) - 1)] else "notvisible"))
        check_object(c, case, r, exe)

    phase["objects"] = round(time.time() - t0, 1)
    t0 = time.time()
    # ---------------------------------------------------------------- (e) objects: flags / augmentation / windows / ray grid
    # the rays canSee casts (recorded at the trimesh boundary, nothing ever hit) vs the model's grid, row by row
    gidx, gcmds = [], []
    for case in obs:
        r = ores.get(case["id"])
        if r is None or "crash" in r or "grid" not in r:
            continue
        g = r["grid"]
        if "crash" in g:
            c.violation("harness", "ray-grid recording failed", dict(case=case, crash=g["crash"], tb=g.get("tb")), no_input=True)
            continue
        if not g["cam_inside"] and g["surface_dist"] > r["d"] - 1e-6:
            c.hist("grid:skip-beyond-distance")
            continue
        cmd, rc = obj_cmd(case, r)
        gidx.append((case, r, rc))
        gcmds.append(cmd)
    gout = run_driver_par(exe, gcmds)
    for (case, r, rc), line in zip(gidx, gout):
        g, m = r["grid"], parse_obj(line)
        if m is None:
            c.violation("harness", "model driver failed on an object case", dict(case=case, out=line[:300]), no_input=True)
            continue
        itag = "ASSERT" if g.get("exc") == "AssertionError" else ("EXC" if "exc" in g else ("NONE" if g["nrays"] == 0 else "RAYS"))
        why = None
        if itag == "EXC":
            why = "canSee raised " + g["exc"]
        elif itag != m["tag"]:
            why = f"implementation: {itag}, model: {m['tag']}"
        elif itag == "RAYS":
            why = rows_differ(g["rows"], m["rows"])
        kindw = "straddle" if (m["ahead"] and m["behind"]) else ("behind" if m["behind"] else "ahead")
        if why is None:
            c.hist("grid:" + m["tag"].lower() + ":" + kindw + (":scaled" if rc[0] == "D" else ":fixed-count"))
            c.hist("grid:extra-vertices:" + ("some" if m["nextra"] else "none"))
            c.count((case["id"], "grid", case["viewer"], case["target"]), nontrivial=(m["tag"] == "RAYS"))
            c.cov["traces_validated_against_impl"] += 1
            c.cov["grid_rays_compared"] = c.cov.get("grid_rays_compared", 0) + m["nrays"]
            continue
        mg = grid_margin(m, r, rc, common.run_driver(exe, ["OBJDIAG" + obj_cmd(case, r)[0][3:]])[0])
        if mg < 1e-6:
            c.hist("grid:skip-borderline")
            continue
        c.cov["disagreements_checked"] += 1
        c.violation("ray-grid", "the rays canSee casts at an object differ from the model (crossing flags / augmented vertices / windows / ray counts)",
                    dict(case=case, why=why, impl=dict(tag=itag, nrays=g["nrays"], rows=g["rows"][:6]),
                         model=dict(tag=m["tag"], ahead=m["ahead"], behind=m["behind"], windows=m["windows"], nrays=m["nrays"], rows=m["rows"][:6]),
                         margin=mg))
    phase["grid"] = round(time.time() - t0, 1)
    t0 = time.time()
    # ---------------------------------------------------------------- (f) 2D fast path
    tres = allres
    tidx, tcmds = [], []
    for case in tds:
        r = tres.get(case["id"])
        if r is None or "crash" in r:
            c.violation("harness", "implementation driver crashed", dict(case=case, crash=(r or {}).get("crash"), tb=(r or {}).get("tb")), no_input=True)
            continue
        tidx.append((case, r))
        tcmds.append(" ".join(["S2D", "0" if case["viewer"]["cls"] == "Point2D" else "1"] + [hx(x) for x in r["c"]] +
                              [hx(r["d"]), hx(r["heading"]), hx(r["angle"])] + [hx(x) for x in case["target"]["pos"]]))
    tout = common.run_driver(exe, tcmds) if tcmds else []
    for (case, r), line in zip(tidx, tout):
        p_ = line.split()
        if p_[0] == "EXN":
            c.violation("harness", "model driver failed on a 2D case", dict(case=case, out=line), no_input=True)
            continue
        mvis, mm = p_[0] == "1", float.fromhex(p_[1])
        V, T = case["viewer"], case["target"]
        c.hist("2d:viewer:" + V["cls"])
        c.hist("2d:target:" + T["kind"])
        if "exc" in r:
            c.violation("2d-exception", "canSee raised in 2D mode", dict(case=case, exc=r["exc"]))
            continue
        if T["kind"] != "object":
            if abs(mm) < TOL and T["pos"][2] == 0:
                c.hist("2d:skip-boundary")
                continue
            c.count((V, T), nontrivial=(norm(r["c"]) > 1e-9 and V["cls"] != "Point2D"))
            c.cov["traces_validated_against_impl"] += 1
            c.hist("2d:spec:" + ("visible" if mvis else "outside"))
            if r["res"] != mvis:
                c.cov["disagreements_checked"] += 1
                c.violation("2d-visibility", "2D point visibility differs from membership in the viewer's sector", dict(case=case, impl=r["res"], spec=mvis, margin=mm, facts=r))
            continue
        # Object2D targets (bounding polygon vs polygonal sector): one-sided certified conditions
        rho = math.hypot(T["dims"][0], T["dims"][1]) / 2
        w = sub(T["pos"], r["c"])
        dist = norm(w)
        if mvis and mm > 0.01 * r["d"] + 1e-6:
            c.hist("2d:object:centre-well-inside")
            c.count((V, T), nontrivial=True)
            if not r["res"]:
                c.violation("2d-object-inside", "a 2D object whose centre is well inside the sector is reported not visible", dict(case=case, margin=mm, facts=r))
        else:
            outside = dist - rho > r["d"] + 1e-6
            if not outside and V["cls"] != "Point2D" and r["angle"] < math.tau - 0.01 and dist > rho:
                th = abs((math.atan2(w[1], w[0]) - (r["heading"] + math.pi / 2) + math.pi) % (2 * math.pi) - math.pi)
                al = r["angle"] / 2
                outside = th > al and dist * math.sin(min(th - al, math.pi / 2)) > rho + 1e-6
            if outside:
                c.hist("2d:object:wholly-outside")
                c.count((V, T), nontrivial=True)
                if r["res"]:
                    c.violation("2d-object-outside", "a 2D object wholly outside the sector is reported visible", dict(case=case, facts=r))
    phase["twod"] = round(time.time() - t0, 1)
    t0 = time.time()
    # ---------------------------------------------------------------- (d) plumbing
    plres = allres
    # one driver process for all scenarios (process start-up dominates otherwise)
    pl_cmds, pl_slices = [], {}
    for case in pls:
        r = plres.get(case["id"])
        if r is None or "crash" in r or "exc" in r:
            continue
        nobj = len(case["objs"])
        occs = " ".join("1" if o["occluding"] else "0" for o in case["objs"])
        pairs = lambda l: " ".join([str(len(l))] + [f"{s} {t}" for s, t in l])
        cmds = [f"DEF {nobj} {occs} {os_} {pairs(case['obs'])} {pairs(case['non'])} 0 {len(case['rv'])} {' '.join(map(str, case['rv']))}".strip()
                for os_ in ("0", "1")]
        cmds += [f"OP {nobj} {occs} 0 {y}" for _, _, y in case["ops"]]
        pl_slices[case["id"]] = (len(pl_cmds), len(pl_cmds) + len(cmds))
        pl_cmds += cmds
    pl_out = common.run_driver(exe, pl_cmds) if pl_cmds else []
    for case in pls:
        r = plres.get(case["id"])
        if r is None or "crash" in r or "exc" in r:
            c.violation("harness", "plumbing scenario failed to run", dict(case=case, err=r), no_input=True)
            continue
        a, b = pl_slices[case["id"]]
        mo = pl_out[a:b]

        def verdict(defline):
            ok = True
            for item in [x for x in defline.split(" ; ") if x.strip()]:
                kind, s, t, ids = item.split(" ", 3)
                ids = [int(x) for x in ids.strip("[]").split(",") if x]
                w = case["walls"].get(t)
                sees = not (w and w[1] and w[0] in ids) and case.get("inwin", {}).get(t, True)
                ok = ok and (sees if kind == "see" else not sees)
            for (kind, tid, y), line in zip(case["ops"], mo[2:]):
                ids = [int(x) for x in line.split(",") if x]
                w = case["walls"].get(str(tid))
                sees = not (w and w[1] and w[0] in ids) and case.get("inwin", {}).get(str(tid), True)
                if y == -1 and case["objs"][tid]["occluding"] and tid in ids:
                    sees = False    # the centre of an occluding object is hidden by the object itself
                ok = ok and (sees if kind == "see" else not sees)
            return ok
        want, want_oneshot = verdict(mo[0]), verdict(mo[1])
        c.count((case["src"],), nontrivial=bool(case["walls"]))
        c.hist("plumbing:scenarios")
        c.hist("plumbing:ego-angles:" + ("default" if not case.get("ego_angles") else "explicit"))
        if not all(case.get("inwin", {}).values()):
            c.hist("plumbing:target-outside-vertical-window")
        for f in case["forms"]:
            c.hist("plumbing:form:" + f)
        if r["accepted"] != want:
            c.violation("plumbing", "a built-in visibility requirement / `can see` did not use every occluding object",
                        dict(case=case, impl_accepted=r["accepted"], spec_accepted=want,
                             explained_by_one_shot_iterator=(r["accepted"] == want_oneshot and want != want_oneshot)))
    phase["plumbing"] = round(time.time() - t0, 1)
    c.assumptions += [
        "atan2/asin/hypot of the model are libm's in the OCaml driver (within 1e-6 of the boundary cases are skipped and counted)",
        "trimesh ray/mesh intersection and signed distance are oracles (hit distances, in-radii) computed outside scenic.core.visibility",
        "object visibility is checked through one-sided certified conditions (outside / fully screened / substantial part inside) and exact monotonicity, not by an exact model of the ray grid",
        "extraction via ExtrOcamlBasic only; OCaml compiler; ~130-line driver incl. exact double<->Q conversion",
    ]
    c.finish()


if __name__ == "__main__":
    main()
