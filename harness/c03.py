"""C03 — points drawn in/on a region lie in it and are uniformly distributed.
Proof layer: coq/Properties/C03.v (laws of the generic samplers over a finite measure algebra, membership
of the primitive samplers for all draws, radial law, choices/bisect).
Tie: discrete regions EXACTLY (every RNG path of the real code enumerated, distribution compared with the
model's probability tree in the kernel); continuous regions: logged RNG draws reproduce the point through
the model formula, every sample tested for membership in the operands (all three coordinates), fixed-seed
chi^2 uniformity test over a cell partition (a TEST, not a proof)."""
import concurrent.futures as cf
import json
import math
import os
import re
import sys
from fractions import Fraction

sys.path.insert(0, os.path.dirname(os.path.abspath(__file__)))
import common
from common import Check
from c16 import q, qpt, cb, gen_spec, DEPTH_Z, DEPTH_H, gen_straddle_volumes

PID = "C03"

HEADER = """From Coq Require Import QArith List ZArith NArith Bool Arith.
From Scenic Require Import C16.RegionAlg C16.Cases C03.Sampler C03.Cases.
Import ListNotations.
Open Scope Q_scope.
"""


def nl(l):
    return "[" + "; ".join(f"{x}%nat" for x in l) + "]"


# ------------------------------------------------------------------ discrete configurations
def subset(rng, n, lo=1, hi=6):
    k = rng.randint(lo, min(hi, n))
    return sorted(rng.sample(range(n), k))


def gen_discrete(rng, idx, pool):
    n = len(pool)
    kind = rng.choice(["ps", "grid", "ps_inter_ps", "ps_inter_region", "region_inter_ps", "gen_inter", "gen_inter", "gen_union",
                       "gen_union", "op_union", "gen_diff", "op_diff", "diff_union", "gen_inter_poly", "gen_diff_poly"])
    c = dict(id=idx, kind=kind)
    if kind == "ps":
        c["A"] = subset(rng, n)
    elif kind == "grid":
        c["spec"] = gen_spec(rng, "grid", 0.0)
    elif kind in ("ps_inter_ps", "gen_diff", "op_diff"):
        c["A"], c["B"] = subset(rng, n), subset(rng, n)
    elif kind in ("ps_inter_region", "region_inter_ps"):
        c["A"] = subset(rng, n, 2, 8)
        z = rng.choice([0.0, 1.5])
        c["spec"] = gen_spec(rng, rng.choice(["circle", "rect", "sector"]), z)
    elif kind in ("gen_inter_poly", "gen_diff_poly"):
        # a point set (two heights) against a polygon / rectangle at one of those heights: only the points AT the
        # region's height and over its footprint belong to it
        c["A"] = subset(rng, n, 3, 9)
        c["spec"] = gen_spec(rng, rng.choice(["polygon", "rect"]), rng.choice([0.0, 1.5]))
        c["order"] = rng.randint(0, 1)
    elif kind in ("gen_inter", "gen_union"):
        c["regs"] = [subset(rng, n) for _ in range(rng.choice([2, 2, 3]))]
    elif kind == "op_union":
        c["regs"] = [subset(rng, n), subset(rng, n)]
    elif kind == "diff_union":
        c["A"], c["B"], c["C"] = subset(rng, n), subset(rng, n), subset(rng, n)
    return c


def model_tree(cfg, r):
    """Coq term of the model's probability tree for a discrete configuration; None = not modelled"""
    k = cfg["kind"]
    cls = r.get("class")
    if k == "ps":
        return f"ps_tree {nl(cfg['A'])}"
    if k == "ps_inter_ps" and cls == "IntersectionRegion":
        return f"ps_inter_tree {nl(cfg['A'])} {nl(cfg['B'])}"
    if k in ("ps_inter_region", "region_inter_ps") and cls == "IntersectionRegion":
        O = [a for a, m in zip(cfg["A"], r["in_region"]) if m]
        return f"ps_inter_tree {nl(cfg['A'])} {nl(O)}"
    if k == "gen_inter":
        regs = "[" + "; ".join(nl(x) for x in cfg["regs"]) + "]"
        if len(cfg["regs"]) == 2:
            return f"inter_tree mu1 {nl(cfg['regs'][0])} {nl(cfg['regs'][1])}"
        return f"inter_tree_n mu1 {regs} {regs}"
    if k in ("gen_union", "op_union") and cls == "UnionRegion":
        return "union_tree mu1 [" + "; ".join(nl(x) for x in cfg["regs"]) + "]"
    if k in ("gen_diff", "op_diff") and cls == "DifferenceRegion":
        return f"diff_tree mu1 {nl(cfg['A'])} {nl(cfg['B'])}"
    if k == "diff_union":
        return f"diff_tree mu1 {nl(cfg['A'])} {nl(sorted(set(cfg['B']) | set(cfg['C'])))}"
    if k in ("gen_inter_poly", "gen_diff_poly"):
        O = [a for a, m in zip(cfg["A"], r["in_region"]) if m]
        if k == "gen_diff_poly":
            return f"diff_tree mu1 {nl(cfg['A'])} {nl(O)}"
        # only the operand of minimal dimension (the point set) is sampled; all operands must contain the point
        regs = [nl(cfg['A']), nl(O)] if cfg.get("order", 0) == 0 else [nl(O), nl(cfg['A'])]
        return f"inter_tree_n mu1 [{'; '.join(regs)}] [{nl(cfg['A'])}]"
    return None


def result_set(cfg, r):
    """the composed set (atoms) by set semantics"""
    k = cfg["kind"]
    S = lambda x: set(x)
    if k == "ps":
        return S(cfg["A"])
    if k == "ps_inter_ps":
        return S(cfg["A"]) & S(cfg["B"])
    if k in ("ps_inter_region", "region_inter_ps"):
        return {a for a, m in zip(cfg["A"], r.get("in_region", [])) if m}
    if k == "gen_inter":
        out = S(cfg["regs"][0])
        for x in cfg["regs"][1:]:
            out &= S(x)
        return out
    if k in ("gen_union", "op_union"):
        out = set()
        for x in cfg["regs"]:
            out |= S(x)
        return out
    if k in ("gen_diff", "op_diff"):
        return S(cfg["A"]) - S(cfg["B"])
    if k == "diff_union":
        return S(cfg["A"]) - S(cfg["B"]) - S(cfg["C"])
    if k == "gen_inter_poly":
        return {a for a, m in zip(cfg["A"], r.get("in_region", [])) if m}
    if k == "gen_diff_poly":
        return {a for a, m in zip(cfg["A"], r.get("in_region", [])) if not m}
    return None


# ------------------------------------------------------------------ continuous configurations
def gen_continuous(rng, idx, n):
    kind = rng.choice(["prim", "prim", "prim", "gen_union", "gen_union", "gen_inter", "gen_diff", "intersect", "union", "difference", "hist"])
    z = rng.choice([0.0, 1.5, -2.0])
    c = dict(id=idx, kind=kind, n=n, seed=rng.randint(0, 10 ** 6), k=5)
    if kind == "prim":
        pk = rng.choice(["rect", "circle", "sector", "polyline", "polygon", "box", "rect", "circle", "sector"])
        c["A"] = gen_spec(rng, pk, z)
    elif kind == "hist":
        # one footprint object met by 2-3 boxes in turn, thin ones first, at depths / heights spread over orders of magnitude
        c["A"] = gen_spec(rng, "footprint", 0.0)
        c["A"]["kind"] = rng.choice(["footprint", "polyfoot"])
        c["A"]["z"] = 0.0
        vols = []
        for _ in range(rng.randint(2, 3)):
            while True:
                h, zc = rng.choice(DEPTH_H), rng.choice(DEPTH_Z)
                if max(1.0, zc) * (h + 1) <= 10000:
                    break
            vols.append(dict(kind="box", dims=[round(rng.uniform(3, 8), 3), round(rng.uniform(3, 8), 3), h],
                             pos=[round(rng.uniform(-1, 1), 3), round(rng.uniform(-1, 1), 3), zc], rot=[rng.choice([0.0, round(rng.uniform(-3, 3), 3)]), 0.0, 0.0]))
        if rng.random() < 0.7:
            vols.sort(key=lambda v: v["dims"][2])
        if rng.random() < 0.7:
            vols = gen_straddle_volumes(rng, kinds=("box",), n=rng.randint(1, 2))
        c["vols"] = vols
        c["ops"] = [rng.choice(["intersect", "difference", "intersects"]) for _ in vols[:-1]] + [rng.choice(["intersect", "intersect", "difference"])]
        c["n"] = min(n, 1500)
    else:
        c["A"] = gen_spec(rng, rng.choice(["rect", "circle", "polygon", "sector"]), z)
        # the second operand at the same height (merged exactly when both are polygons) or above / below the first one
        zb = z if rng.random() < 0.55 else rng.choice([t for t in (0.0, 1.5, -2.0) if t != z])
        c["B"] = gen_spec(rng, rng.choice(["rect", "circle", "polygon"]), zb)
    return c


def formula_cases(cfg, r, cases):
    """model formula on the logged draws must reproduce the returned point"""
    if cfg["kind"] != "prim":
        return
    A = cfg["A"]
    k = A["kind"]
    tol = q(1e-9)
    for pt, log in r.get("logs", [])[:12]:
        d = dict(config=cfg["id"], kind=k, point=pt, log=log, what=f"{k} sampler formula")
        try:
            if k == "rect" and [e[0] for e in log] == ["uniform", "uniform"]:
                co, si = math.cos(A["heading"]), math.sin(A["heading"])
                cases.append((f"SRect {q(A['pos'][0])} {q(A['pos'][1])} {q(co)} {q(si)} {q(A['w'] / 2)} {q(A['l'] / 2)} "
                              f"{q(log[0][3])} {q(log[1][3])} {q(pt[0])} {q(pt[1])} {tol}", d))
            elif k in ("circle", "sector") and [e[0] for e in log] == ["triangular", "uniform"]:
                u, rr = log[0][3], log[0][4]
                a, b, u2 = log[1][1], log[1][2], log[1][3]
                t = a + (b - a) * u2
                if k == "sector":
                    va = t
                    t = t + (A["heading"] + math.pi / 2)
                ct, st = math.cos(t), math.sin(t)
                if k == "circle":
                    cases.append((f"SDisc {qpt(A['center'])} {q(A['r'])} {q(u)} {q(rr)} {q(ct)} {q(st)} {qpt(pt)} {tol}", d))
                else:
                    cases.append((f"SSector {qpt(A['center'])} {q(A['r'])} {q(u)} {q(rr)} {q(ct)} {q(st)} {q(A['angle'] / 2)} {q(va)} {qpt(pt)} {tol}", d))
            elif k == "polyline" and [e[0] for e in log] == ["choices", "random"]:
                cum, u, i = log[0][1], log[0][2], log[0][3]
                a, b = A["pts"][i], A["pts"][i + 1]
                cases.append((f"SSeg [{'; '.join(q(x) for x in cum)}] {q(u * cum[-1])} {i}%nat {q(a[0])} {q(a[1])} {q(b[0])} {q(b[1])} "
                              f"{q(log[1][1])} {q(pt[0])} {q(pt[1])} {tol}", d))
            elif k in ("rect", "circle", "sector", "polyline"):
                cases.append(("SRect 0 0 1 0 0 0 0 0 1 1 0", dict(d, what=f"{k} sampler made unexpected RNG calls {[e[0] for e in log]}")))
        except Exception as e:  # noqa
            cases.append(("SRect 0 0 1 0 0 0 0 0 1 1 0", dict(d, what=f"cannot interpret RNG log: {e}")))


def chi2_check(c, cfg, r):
    cells = r.get("cells")
    if not cells:
        return None
    from scipy.stats import chi2
    n = sum(cells["counts"]) + cells["outside"]
    exp, cnt = cells["expected"], cells["counts"]
    # merge cells with small expectation
    big = [(e * n, k) for e, k in zip(exp, cnt) if e * n >= 8]
    small = [(e * n, k) for e, k in zip(exp, cnt) if e * n < 8]
    if small:
        big.append((sum(e for e, _ in small), sum(k for _, k in small)))
    big = [(e, k) for e, k in big if e > 0]
    if len(big) < 2:
        return None
    stat = sum((k - e) ** 2 / e for e, k in big)
    dof = len(big) - 1
    thr = float(chi2.isf(1e-9, dof))
    return dict(stat=stat, dof=dof, threshold=thr, n=n, outside=cells["outside"], ok=stat <= thr and cells["outside"] == 0)


def run_kernel(c, name, cases, evaluator="sfailing"):
    shards = [cases[i:i + 150] for i in range(0, len(cases), 150)]

    def one(args):
        k, shard = args
        body = HEADER + "Definition cases : list scase := [\n" + ";\n".join(t for t, _ in shard) + "\n].\n"
        body += f"Definition bad := Eval vm_compute in {evaluator} 0%N cases.\nPrint bad.\n"
        ok, out = common.run_coq_cases(f"{name}_{k}", body)
        return k, ok, out

    with cf.ThreadPoolExecutor(8) as ex:
        for k, ok, out in ex.map(one, list(enumerate(shards))):
            if not ok:
                c.violation("correspondence", "generated model cases do not compile", dict(shard=k, log=out[-1500:]), no_input=True)
                continue
            m = re.search(r"bad\s*=\s*\[(.*?)\]", out, flags=re.S)
            if not m:
                c.violation("correspondence", "cannot parse the kernel's answer", dict(shard=k, log=out[-800:]), no_input=True)
                continue
            for t in m.group(1).split(";"):
                if t.strip():
                    term, d = shards[k][int(t.replace("%N", "").strip())]
                    c.violation("correspondence", f"model and implementation disagree: {d.get('what')}", dict(d, coq_case=term[:3000]))
            c.cov["traces_validated_against_impl"] += len(shards[k])


def main():
    c = Check(PID, "proof")
    c.cov["rule"] = ("discrete: random subsets of a pool of 12 points (two heights) as point sets, grids, and their compositions "
                     "(pointset x pointset / disc / rectangle / sector samplers, generic intersection of 2-3 operands, union of 2-3, "
                     "difference, difference of a union), every RNG path enumerated; a discrete case is non-trivial when the operands "
                     "overlap partially (result differs from every operand) ; continuous: seeded random rectangles, discs, sectors, "
                     "polylines, polygons with holes, boxes and their generic / kernel-built compositions at non-zero heights, "
                     "non-trivial when the region is composed or rotated")
    common.ensure_parser()
    if not c.proofs():
        c.finish()
    quick = c.tier == "quick"
    rng = c.rng
    pool = []
    while len(pool) < 12:
        p = [round(rng.uniform(-2, 2), 3), round(rng.uniform(-2, 2), 3), rng.choice([0.0, 0.0, 1.5])]
        if p not in pool:
            pool.append(p)
    ndisc = 40 if quick else 1000
    ncont = 30 if quick else 600
    npts = 3000 if quick else 30000
    dconfigs = [gen_discrete(rng, i, pool) for i in range(ndisc)]
    cconfigs = [gen_continuous(rng, 10000 + i, npts) for i in range(ncont)]
    if c.replay:
        body = json.load(open(c.replay))
        cfg = body.get("case", {}).get("config")
        if cfg:
            dconfigs = [cfg] if cfg["id"] < 10000 else []
            cconfigs = [cfg] if cfg["id"] >= 10000 else []
            pool = body["case"].get("pool", pool)
    nw = 8
    # ---- discrete
    dres = {}
    chunks = [dconfigs[i::nw] for i in range(nw)]
    chunks = [ch for ch in chunks if ch]
    with cf.ThreadPoolExecutor(nw) as ex:
        for out in ex.map(lambda ch: common.run_impl("impl_c03.py", dict(kind="discrete", configs=ch, pool=pool), timeout=3000), chunks):
            for r in out["results"]:
                dres[r["id"]] = r
    cases = []
    for cfg in dconfigs:
        r = dres[cfg["id"]]
        base = dict(config=cfg, pool=pool)
        c.hist("discrete:" + cfg["kind"])
        if "exc" in r:
            c.hist(f"discrete-exc:{r['exc']}")
            if r["exc"] == "RecursionError":
                c.violation("dispatch", f"building {cfg['kind']} does not terminate (RecursionError)", dict(base, exc=r["exc"]))
            elif r["exc"] not in ("UndefinedSamplingException",):
                c.violation("sampler", f"sampling {cfg['kind']} fails with {r['exc']}", dict(base, exc=r["exc"], msg=r.get("msg")))
            continue
        # map points to atoms
        pts = r.get("grid_points") if cfg["kind"] == "grid" else pool
        dist, rej = {}, Fraction(0)
        unknown = []
        for pt, (n_, d_) in r["dist"]:
            pr = Fraction(n_, d_)
            if pt is None:
                rej += pr
                continue
            idx = [i for i, p0 in enumerate(pts) if max(abs(a - b) for a, b in zip(p0, pt)) < 1e-8]
            if not idx:
                unknown.append(pt)
                continue
            dist[idx[0]] = dist.get(idx[0], Fraction(0)) + pr
        if cfg["kind"] == "grid":
            want = set(range(len(pts)))
            tree = f"ps_tree {nl(sorted(want))}"
        else:
            want = result_set(cfg, r)
            tree = model_tree(cfg, r)
        nontriv = cfg["kind"] != "ps" and want is not None and 0 < len(want) and all(
            set(x) != want for x in ([cfg.get("A")] + cfg.get("regs", []) if cfg.get("A") or cfg.get("regs") else []) if x)
        c.count((cfg["kind"], sorted(want or []), str(cfg.get("A")), str(cfg.get("regs")), str(cfg.get("B"))), nontrivial=nontriv)
        c.cov["traces_validated_against_impl"] += r.get("npaths", 0)
        if cfg["kind"] in ("ps_inter_region", "region_inter_ps") and want is not None and set(dist) != want:
            # PointSetRegion.intersect filters its candidates with the region's own containsPoint, which ignores the height of
            # rectangles / polygons: points over the footprint at another height are returned (when inside the 3-D circumcircle ball)
            off = {a for a, f, m in zip(cfg["A"], r.get("foot_region", []), r["in_region"]) if f and not m}
            if want <= set(dist) and set(dist) - want <= off:
                c.violation("height-membership", f"{cfg['kind']}: sampled points lie over the region's footprint but not at its height",
                            dict(base, atoms=sorted(set(dist) - want), spec_kind=cfg["spec"]["kind"], result_class=r.get("class")))
                continue
        # property oracle: membership, support, uniformity (counting measure) conditional on acceptance
        if unknown:
            c.violation("membership", "sampler returned a point that is no point of the operands", dict(base, points=unknown[:3]))
        if want is not None:
            extra = set(dist) - want
            missing = want - set(dist)
            if extra:
                c.violation("membership", f"{cfg['kind']}: sampler returns points outside the composed set",
                            dict(base, atoms=sorted(extra), result_class=r.get("class")))
            if missing:
                c.violation("support", f"{cfg['kind']}: some points of the composed set are never produced",
                            dict(base, atoms=sorted(missing), result_class=r.get("class")))
            acc = sum(dist.values())
            if want and acc > 0 and not extra and not missing:
                for a, pr in dist.items():
                    if abs(float(pr / acc) - 1 / len(want)) > 1e-9:
                        c.violation("uniformity", f"{cfg['kind']}: not uniform on the composed set (given acceptance)",
                                    dict(base, atom=a, prob=float(pr / acc), expected=1 / len(want), result_class=r.get("class")))
                        break
        if tree is not None:
            exp = "[" + "; ".join(f"({a}%nat, {q(p)})" for a, p in sorted(dist.items())) + "]"
            cases.append((f"SDist ({tree}) {len(pts)} {exp} {q(rej)} {q(Fraction(1, 10 ** 12))}",
                          dict(base, what=f"exact distribution of {cfg['kind']}", impl={str(a): str(p) for a, p in dist.items()}, rej=str(rej))))
        else:
            c.hist("discrete-unmodelled:" + cfg["kind"] + ":" + str(r.get("class")))
        c.sample(dict(config=cfg, dist={str(a): str(p) for a, p in dist.items()}, reject=str(rej), paths=r.get("npaths")), limit=3)
    # ---- continuous
    cres = {}
    chunks = [cconfigs[i::nw * 2] for i in range(nw * 2)]
    chunks = [ch for ch in chunks if ch]
    with cf.ThreadPoolExecutor(nw) as ex:
        for out in ex.map(lambda ch: common.run_impl("impl_c03.py", dict(kind="continuous", configs=ch), timeout=7000), chunks):
            for r in out["results"]:
                cres[r["id"]] = r
    chi = []
    for cfg in cconfigs:
        r = cres[cfg["id"]]
        base = dict(config=cfg)
        kinds = cfg["kind"] + ":" + cfg["A"]["kind"] + ("+" + cfg["B"]["kind"] if "B" in cfg else "")
        if cfg["kind"] == "hist":
            kinds += ":" + "/".join(cfg["ops"])
        elif "B" in cfg and r.get("overlap_area") is not None:
            kinds += ":different-heights"
            c.hist("continuous-different-heights:" + ("overlapping-footprints" if r["overlap_area"] > 0.2 else "disjoint-footprints"))
        c.hist("continuous:" + cfg["kind"])
        if "exc" in r:
            c.hist(f"continuous-exc:{r['exc']}")
            if r["exc"] == "RecursionError":
                c.violation("dispatch", f"{kinds}: does not terminate (RecursionError)", dict(base, exc=r["exc"]))
            elif r["exc"] not in ("UndefinedSamplingException", "NotImplementedError", "RuntimeError"):
                c.violation("sampler", f"{kinds}: sampling fails with {r['exc']}", dict(base, exc=r["exc"], msg=r.get("msg")))
            continue
        c.hist("continuous-class:" + r["class"])
        if r["n"] == 0:
            c.hist("continuous-empty")
            continue
        c.count((kinds, cfg["seed"]), nontrivial=cfg["kind"] != "prim" or cfg["A"].get("heading", 1) != 0, n=r["n"])
        if r["bad_members"]:
            c.violation("membership", f"{kinds}: a sampled point does not belong to the region (operands' containsPoint, all three coordinates)",
                        dict(base, result_class=r["class"], samples=r["bad_members"]))
        formula_cases(cfg, r, cases)
        if cfg["kind"] == "hist" and r.get("expected_size") is not None and isinstance(r.get("size"), (int, float)):
            if r["expected_size"] > 1e-3 and abs(r["size"] - r["expected_size"]) > 1e-2 * r["expected_size"]:
                c.violation("size", f"{kinds}: the size of the composed region is not the measure of the composed set "
                            "(footprint object reused from earlier operations)", dict(base, result_class=r["class"], size=r["size"], expected=r["expected_size"]))
        x = chi2_check(c, cfg, r)
        if x:
            chi.append(dict(config=cfg["id"], kinds=kinds, cls=r["class"], **{k: (round(v, 2) if isinstance(v, float) else v) for k, v in x.items()}))
            if not x["ok"]:
                c.violation("uniformity", f"{kinds}: chi^2 uniformity test fails (statistic {x['stat']:.1f} > {x['threshold']:.1f}, dof {x['dof']}, "
                            f"{x['outside']} samples outside the region's bounding cells)", dict(base, result_class=r["class"], chi2=x))
    c.cov["chi2_tests"] = chi[:40]
    c.cov["chi2_count"] = len(chi)
    run_kernel(c, "C03_cases", cases)
    c.cov["model_cases"] = len(cases)
    c.assumptions += [
        "random.random() is an exact uniform real on [0,1) and calls are independent (the probability trees put the exact branch probabilities on every RNG call)",
        "continuous primitives: uniformity is PROVED only as the radial law / choices-interval identities and membership for all draws; the chi^2 runs are a fixed-seed TEST "
        "(threshold chi2.isf(1e-9)), not a proof",
        "trimesh volume / surface sampling and shapely triangulation are oracles (box volumes are chi^2-tested only)",
        "discrete atoms carry the counting measure in the exact tie; the theorems hold for any positive rational measure",
        "sqrt / cos / sin of the logged draws are computed in binary64 and passed to the Q model (tolerance 1e-9)",
    ]
    c.finish()


if __name__ == "__main__":
    main()
