"""C03 — points drawn in/on a region lie in it and are uniformly distributed.
Proof layer: coq/Properties/C03.v (laws of the generic samplers over a finite measure algebra, membership
of the primitive samplers for all draws, radial law, choices/bisect).
Tie: discrete regions EXACTLY (every RNG path of the real code enumerated, distribution compared with the
model's probability tree in the kernel); continuous regions: logged RNG draws reproduce the point through
the model formula, every sample tested for membership in the operands (all three coordinates), fixed-seed
chi^2 uniformity test over a cell partition (a TEST, not a proof)."""
import concurrent.futures as cf
import json
import math
import os
import re
import sys
from fractions import Fraction

sys.path.insert(0, os.path.dirname(os.path.abspath(__file__)))
import common
from common import Check
from c16 import q, qpt, cb, gen_spec, DEPTH_Z, DEPTH_H, gen_straddle_volumes

PID = "C03"

HEADER = """From Coq Require Import QArith List ZArith NArith Bool Arith.
From Scenic Require Import C16.RegionAlg C16.Cases C03.Sampler C03.Placement C03.Cases.
Import ListNotations.
Open Scope Q_scope.
"""


def nl(l):
    return "[" + "; ".join(f"{x}%nat" for x in l) + "]"


# ------------------------------------------------------------------ discrete configurations
def subset(rng, n, lo=1, hi=6):
    k = rng.randint(lo, min(hi, n))
    return sorted(rng.sample(range(n), k))


def gen_discrete(rng, idx, pool):
    n = len(pool)
    kind = rng.choice(["ps", "grid", "ps_inter_ps", "ps_inter_region", "region_inter_ps", "gen_inter", "gen_inter", "gen_union",
                       "gen_union", "op_union", "gen_diff", "op_diff", "diff_union", "gen_inter_poly", "gen_diff_poly"])
    c = dict(id=idx, kind=kind)
    if kind == "ps":
        c["A"] = subset(rng, n)
    elif kind == "grid":
        c["spec"] = gen_spec(rng, "grid", 0.0)
    elif kind in ("ps_inter_ps", "gen_diff", "op_diff"):
        c["A"], c["B"] = subset(rng, n), subset(rng, n)
    elif kind in ("ps_inter_region", "region_inter_ps"):
        c["A"] = subset(rng, n, 2, 8)
        z = rng.choice([0.0, 1.5])
        c["spec"] = gen_spec(rng, rng.choice(["circle", "rect", "sector"]), z)
    elif kind in ("gen_inter_poly", "gen_diff_poly"):
        # a point set (two heights) against a polygon / rectangle at one of those heights: only the points AT the
        # region's height and over its footprint belong to it
        c["A"] = subset(rng, n, 3, 9)
        c["spec"] = gen_spec(rng, rng.choice(["polygon", "rect"]), rng.choice([0.0, 1.5]))
        c["order"] = rng.randint(0, 1)
    elif kind in ("gen_inter", "gen_union"):
        c["regs"] = [subset(rng, n) for _ in range(rng.choice([2, 2, 3]))]
    elif kind == "op_union":
        c["regs"] = [subset(rng, n), subset(rng, n)]
    elif kind == "diff_union":
        c["A"], c["B"], c["C"] = subset(rng, n), subset(rng, n), subset(rng, n)
    return c


def own_member(spec, p):
    """exact membership of a point in a disc / sector by the harness's own formulas (None for other kinds)"""
    k = spec["kind"]
    if k not in ("circle", "sector"):
        return None
    cx, cy, cz = spec["center"]
    if p[2] != cz:
        return False
    dx, dy = p[0] - cx, p[1] - cy
    if math.hypot(dx, dy) > spec["r"]:
        return False
    if k == "circle":
        return True
    va = math.atan2(-dx, dy) - spec["heading"]          # Scenic heading h = direction (-sin h, cos h)
    va = (va + math.pi) % math.tau - math.pi
    return abs(va) <= spec["angle"] / 2


def in_ball(r, pool, cfg):
    """per atom of A: inside the ball PointSetRegion.intersect's sampler pre-filters with (the region's `circumcircle` as observed)"""
    if "circumcircle" not in r:
        return [True] * len(cfg["A"])
    ctr, rad = r["circumcircle"]
    return [math.dist(pool[a], ctr) <= rad for a in cfg["A"]]


def model_tree(cfg, r):
    """Coq term of the model's probability tree for a discrete configuration; None = not modelled"""
    k = cfg["kind"]
    cls = r.get("class")
    if k == "ps":
        return f"ps_tree {nl(cfg['A'])}"
    if k == "ps_inter_ps" and cls == "IntersectionRegion":
        return f"ps_inter_tree {nl(cfg['A'])} {nl(cfg['B'])}"
    if k in ("ps_inter_region", "region_inter_ps") and cls == "IntersectionRegion":
        # the code as it is: candidates = points inside the region's circumcircle ball, filtered by the region's containsPoint
        O = [a for a, m, b in zip(cfg["A"], r["foot_region"], r["ball"]) if m and b]
        return f"ps_inter_tree {nl(cfg['A'])} {nl(O)}"
    if k == "gen_inter":
        regs = "[" + "; ".join(nl(x) for x in cfg["regs"]) + "]"
        if len(cfg["regs"]) == 2:
            return f"inter_tree mu1 {nl(cfg['regs'][0])} {nl(cfg['regs'][1])}"
        return f"inter_tree_n mu1 {regs} {regs}"
    if k in ("gen_union", "op_union") and cls == "UnionRegion":
        return "union_tree mu1 [" + "; ".join(nl(x) for x in cfg["regs"]) + "]"
    if k in ("gen_diff", "op_diff") and cls == "DifferenceRegion":
        return f"diff_tree mu1 {nl(cfg['A'])} {nl(cfg['B'])}"
    if k == "diff_union":
        return f"diff_tree mu1 {nl(cfg['A'])} {nl(sorted(set(cfg['B']) | set(cfg['C'])))}"
    if k in ("gen_inter_poly", "gen_diff_poly"):
        O = [a for a, m in zip(cfg["A"], r["in_region"]) if m]
        if k == "gen_diff_poly":
            return f"diff_tree mu1 {nl(cfg['A'])} {nl(O)}"
        # only the operand of minimal dimension (the point set) is sampled; all operands must contain the point
        regs = [nl(cfg['A']), nl(O)] if cfg.get("order", 0) == 0 else [nl(O), nl(cfg['A'])]
        return f"inter_tree_n mu1 [{'; '.join(regs)}] [{nl(cfg['A'])}]"
    return None


def result_set(cfg, r):
    """the composed set (atoms) by set semantics"""
    k = cfg["kind"]
    S = lambda x: set(x)
    if k == "ps":
        return S(cfg["A"])
    if k == "ps_inter_ps":
        return S(cfg["A"]) & S(cfg["B"])
    if k in ("ps_inter_region", "region_inter_ps"):
        return {a for a, m in zip(cfg["A"], r.get("in_region", [])) if m}
    if k == "gen_inter":
        out = S(cfg["regs"][0])
        for x in cfg["regs"][1:]:
            out &= S(x)
        return out
    if k in ("gen_union", "op_union"):
        out = set()
        for x in cfg["regs"]:
            out |= S(x)
        return out
    if k in ("gen_diff", "op_diff"):
        return S(cfg["A"]) - S(cfg["B"])
    if k == "diff_union":
        return S(cfg["A"]) - S(cfg["B"]) - S(cfg["C"])
    if k == "gen_inter_poly":
        return {a for a, m in zip(cfg["A"], r.get("in_region", [])) if m}
    if k == "gen_diff_poly":
        return {a for a, m in zip(cfg["A"], r.get("in_region", [])) if not m}
    return None


# ------------------------------------------------------------------ continuous configurations
def gen_continuous(rng, idx, n):
    kind = rng.choice(["prim", "prim", "prim", "gen_union", "gen_union", "gen_inter", "gen_diff", "intersect", "union", "difference", "hist"])
    z = rng.choice([0.0, 1.5, -2.0])
    c = dict(id=idx, kind=kind, n=n, seed=rng.randint(0, 10 ** 6), k=5)
    if kind == "prim":
        pk = rng.choice(["rect", "circle", "sector", "polyline", "polygon", "box", "rect", "circle", "sector"])
        c["A"] = gen_spec(rng, pk, z)
    elif kind == "hist":
        # one footprint object met by 2-3 boxes in turn, thin ones first, at depths / heights spread over orders of magnitude
        c["A"] = gen_spec(rng, "footprint", 0.0)
        c["A"]["kind"] = rng.choice(["footprint", "polyfoot"])
        c["A"]["z"] = 0.0
        vols = []
        for _ in range(rng.randint(2, 3)):
            while True:
                h, zc = rng.choice(DEPTH_H), rng.choice(DEPTH_Z)
                if max(1.0, zc) * (h + 1) <= 10000:
                    break
            vols.append(dict(kind="box", dims=[round(rng.uniform(3, 8), 3), round(rng.uniform(3, 8), 3), h],
                             pos=[round(rng.uniform(-1, 1), 3), round(rng.uniform(-1, 1), 3), zc], rot=[rng.choice([0.0, round(rng.uniform(-3, 3), 3)]), 0.0, 0.0]))
        if rng.random() < 0.7:
            vols.sort(key=lambda v: v["dims"][2])
        if rng.random() < 0.7:
            vols = gen_straddle_volumes(rng, kinds=("box",), n=rng.randint(1, 2))
        c["vols"] = vols
        c["ops"] = [rng.choice(["intersect", "difference", "intersects"]) for _ in vols[:-1]] + [rng.choice(["intersect", "intersect", "difference"])]
        c["n"] = min(n, 1500)
    else:
        c["A"] = gen_spec(rng, rng.choice(["rect", "circle", "polygon", "sector"]), z)
        # the second operand at the same height (merged exactly when both are polygons) or above / below the first one
        zb = z if rng.random() < 0.55 else rng.choice([t for t in (0.0, 1.5, -2.0) if t != z])
        c["B"] = gen_spec(rng, rng.choice(["rect", "circle", "polygon"]), zb)
    return c


# ------------------------------------------------------------------ regions with RANDOM parameters, sampled through the scenario path
SCEN_SHAPES = ["box", "sphere", "meshbox", "L", "U", "cyl"]


def gen_scenario(rng, idx, n):
    """a Scenic PROGRAM whose region has random parameters (position / rotation / dimensions drawn per scene, un-centred meshes,
    view regions of randomly posed observers, lazily composed volumes); objects / points are placed `in` it by scenario.generate and
    every drawn point is judged against the CONCRETE region of its own scene (independent geometry in impl_c03.run_scenario)"""
    fam = rng.choice(["mesh", "mesh", "mesh", "view", "view", "view", "op"])
    cfg = dict(id=idx, kind="scen", family=fam, seed=rng.randint(0, 10 ** 6), n=n)
    params = []

    def rnd(lo, hi, force=False, p=0.5):
        """a fixed number or a fresh random parameter Range(lo, hi)"""
        if force or rng.random() < p:
            name = f"q{len(params)}"
            a = round(rng.uniform(lo, hi), 3)
            b = round(rng.uniform(lo, hi), 3)
            if abs(a - b) < 0.05 * (hi - lo):
                b = round(a + 0.3 * (hi - lo), 3)
            params.append((name, min(a, b), max(a, b)))
            return ["p", name]
        return round(rng.uniform(lo, hi), 3)

    def txt(e):
        return f"globalParameters.{e[1]}" if isinstance(e, list) else repr(float(e))

    far = rng.choice([0.0, 0.0, 8.0, 60.0])          # regions far from the origin as well
    lines = []
    if fam == "mesh":
        shape = rng.choice(SCEN_SHAPES)
        surface = shape != "sphere" and rng.random() < 0.3
        center = True if shape in ("box", "sphere") else rng.random() < 0.4
        offset = [0.0, 0.0, 0.0] if (center and rng.random() < 0.5) or shape in ("box", "sphere") else [round(rng.uniform(-6, 6), 2) for _ in range(3)]
        which = rng.choice(["pos", "rot", "dims", "pos+rot", "all"])
        pos = [rnd(-2 + far, 2 + far, p=0.6 if "pos" in which or which == "all" else 0.0) for _ in range(3)]
        if which in ("pos", "pos+rot", "all") and not any(isinstance(e, list) for e in pos):
            pos[0] = rnd(-2 + far, 2 + far, force=True)
        rot = [rnd(-3, 3, p=0.6 if "rot" in which or which == "all" else 0.0), rnd(-1.2, 1.2, p=0.5 if "rot" in which or which == "all" else 0.0),
               rnd(-1.2, 1.2, p=0.5 if "rot" in which or which == "all" else 0.0)]
        if which in ("rot", "pos+rot") and not any(isinstance(e, list) for e in rot):
            rot[0] = rnd(-3, 3, force=True)
        if rng.random() < 0.3 and which not in ("rot", "pos+rot", "all"):
            rot = None
        dims = None
        if shape in ("box", "sphere") or which in ("dims", "all") or rng.random() < 0.5:
            # surfaces: fixed dimensions (the area measure of a face depends on them; cells are computed from the fixed values)
            dims = [rnd(1, 5, p=0.0 if surface else (0.6 if which in ("dims", "all") else 0.0)) for _ in range(3)]
            if which == "dims" and not surface and not any(isinstance(e, list) for e in dims):
                dims[rng.randrange(3)] = rnd(1, 5, force=True)
        if not params:
            pos[rng.randrange(3)] = rnd(-2 + far, 2 + far, force=True)
        cfg["region"] = dict(shape=shape, surface=surface, center=center, offset=offset, pos=pos, rot=rot, dims=dims)
        lines += ["import trimesh, shapely.geometry"]
        lines += [f"param {nm} = Range({lo}, {hi})" for nm, lo, hi in params]
        kw = [f"position=Vector({', '.join(txt(e) for e in pos)})"]
        if rot is not None:
            kw.append(f"rotation=({', '.join(txt(e) for e in rot)})")
        if dims is not None:
            kw.append(f"dimensions=({', '.join(txt(e) for e in dims)})")
        if shape in ("box", "sphere") and not surface:
            lines.append(f"region = {'BoxRegion' if shape == 'box' else 'SpheroidRegion'}({', '.join(kw)})")
        else:
            mk = {"box": "trimesh.creation.box((1, 1, 1))", "meshbox": "trimesh.creation.box((1, 1, 1))",
                  "cyl": "trimesh.creation.cylinder(radius=1, height=1, sections=12)",
                  "L": "trimesh.creation.extrude_polygon(shapely.geometry.Polygon([(0, 0), (2, 0), (2, 1), (1, 1), (1, 2), (0, 2)]), 1.0)",
                  "U": "trimesh.creation.extrude_polygon(shapely.geometry.Polygon([(0, 0), (3, 0), (3, 2), (2, 2), (2, 1), (1, 1), (1, 2), (0, 2)]), 1.0)"}[shape]
            lines.append(f"mesh = {mk}")
            if any(offset):
                lines.append(f"mesh.apply_translation(({offset[0]}, {offset[1]}, {offset[2]}))")
            if not center:
                kw.append("centerMesh=False")
            if surface:
                kw.append("orientation=None")
            lines.append(f"region = {'MeshSurfaceRegion' if surface else 'MeshVolumeRegion'}(mesh, {', '.join(kw)})")
        form = rng.choice(["object", "object", "point"])
        cfg["form"] = form
        if form == "object":
            lines.append("target = new Object in region, with allowCollisions True, with requireVisible False")
        else:
            lines.append("pt = new Point in region")
            lines.append("target = new Object at pt, with allowCollisions True, with requireVisible False")
    elif fam == "view":
        mode = rng.choice(["in_visibleRegion", "in_visibleRegion", "visible", "visible_from"])
        case = rng.choice(["cone", "cone", "cone", "wedge", "sphere"])
        if case == "cone":
            angles = [round(rng.uniform(15, 200), 1), round(rng.uniform(15, 150), 1)]
        elif case == "wedge":
            angles = [round(rng.uniform(20, 300), 1), 180.0]
        else:
            angles = [360.0, 180.0]
        D = rng.choice([2.0, 5.0, 10.0, 25.0])
        cam = [0.0, 0.0, 0.0] if rng.random() < 0.6 else [round(rng.uniform(-1, 1), 2) for _ in range(3)]
        pos = [rnd(-2 + far, 2 + far, p=0.7) for _ in range(3)]
        rot = [rnd(-180, 180, p=0.7), rnd(-60, 60, p=0.5), rnd(-60, 60, p=0.4)]
        if not params:
            rot[0] = rnd(-180, 180, force=True)
        cfg["view"] = dict(mode=mode, angles=angles, dist=D, cam=cam, case=case, workspace=8 * D + 2 * abs(far) + 20)
        lines += [f"param {nm} = Range({lo}, {hi})" for nm, lo, hi in params]
        if mode != "in_visibleRegion":
            lines.append(f"workspace = Workspace(BoxRegion(dimensions=({cfg['view']['workspace']}, {cfg['view']['workspace']}, {cfg['view']['workspace']})))")
        obs = (f"new Object at ({', '.join(txt(e) for e in pos)}), facing ({', '.join(txt(e) + ' deg' for e in rot)}), "
               f"with viewAngles ({angles[0]} deg, {angles[1]} deg), with visibleDistance {D}, with cameraOffset ({cam[0]}, {cam[1]}, {cam[2]}), "
               "with allowCollisions True, with requireVisible False")
        if mode == "visible_from":
            lines.append(f"ego = new Object at ({far}, 0, {cfg['view']['workspace'] / 2 - 3}), with allowCollisions True")
            lines.append(f"observer = {obs}")
            # an Object is visible as soon as any part of it is: a tiny one is visible iff its centre is within 0.01 of the view region
            lines.append("target = new Object visible from observer, with width 0.01, with length 0.01, with height 0.01, with allowCollisions True")
            cfg["view"]["observer"], cfg["view"]["target"] = 1, 2
        else:
            lines.append(f"ego = {obs}")
            if mode == "visible":
                lines.append("target = new Object visible, with width 0.01, with length 0.01, with height 0.01, with allowCollisions True")
            else:
                lines.append("target = new Object in ego.visibleRegion, with allowCollisions True, with requireVisible False")
            cfg["view"]["observer"], cfg["view"]["target"] = 0, 1
    else:
        op = rng.choice(["intersect", "difference", "union"])
        specs = []
        for t in range(2):
            shape = rng.choice(["box", "sphere"])
            pos = [rnd(-1 + far, 1 + far, p=0.6) for _ in range(3)]
            rot = [rnd(-3, 3, p=0.3), 0.0, 0.0]
            dims = [round(rng.uniform(3, 5), 2) for _ in range(3)]
            specs.append(dict(shape=shape, pos=pos, rot=rot, dims=dims))
        if not params:
            specs[0]["pos"][0] = rnd(-1 + far, 1 + far, force=True)
        cfg["op"] = dict(op=op, operands=specs)
        lines += [f"param {nm} = Range({lo}, {hi})" for nm, lo, hi in params]
        for nm, s in zip("ab", specs):
            lines.append(f"{nm} = {'BoxRegion' if s['shape'] == 'box' else 'SpheroidRegion'}(position=Vector({', '.join(txt(e) for e in s['pos'])}), "
                         f"rotation=({', '.join(txt(e) for e in s['rot'])}), dimensions=({', '.join(txt(e) for e in s['dims'])}))")
        lines.append(f"target = new Object in a.{op}(b), with allowCollisions True, with requireVisible False")
        cfg["n"] = min(n, 150)
    cfg["params"] = [list(p) for p in params]
    cfg["program"] = "\n".join(lines) + "\n"
    return cfg


def formula_cases(cfg, r, cases):
    """model formula on the logged draws must reproduce the returned point"""
    if cfg["kind"] != "prim":
        return
    A = cfg["A"]
    k = A["kind"]
    tol = q(1e-9)
    for pt, log in r.get("logs", [])[:12]:
        d = dict(config=cfg["id"], kind=k, point=pt, log=log, what=f"{k} sampler formula")
        try:
            if k == "rect" and [e[0] for e in log] == ["uniform", "uniform"]:
                co, si = math.cos(A["heading"]), math.sin(A["heading"])
                cases.append((f"SRect {q(A['pos'][0])} {q(A['pos'][1])} {q(co)} {q(si)} {q(A['w'] / 2)} {q(A['l'] / 2)} "
                              f"{q(log[0][3])} {q(log[1][3])} {q(pt[0])} {q(pt[1])} {tol}", d))
            elif k in ("circle", "sector") and [e[0] for e in log] == ["triangular", "uniform"]:
                u, rr = log[0][3], log[0][4]
                a, b, u2 = log[1][1], log[1][2], log[1][3]
                t = a + (b - a) * u2
                if k == "sector":
                    va = t
                    t = t + (A["heading"] + math.pi / 2)
                ct, st = math.cos(t), math.sin(t)
                if k == "circle":
                    cases.append((f"SDisc {qpt(A['center'])} {q(A['r'])} {q(u)} {q(rr)} {q(ct)} {q(st)} {qpt(pt)} {tol}", d))
                else:
                    cases.append((f"SSector {qpt(A['center'])} {q(A['r'])} {q(u)} {q(rr)} {q(ct)} {q(st)} {q(A['angle'] / 2)} {q(va)} {qpt(pt)} {tol}", d))
            elif k == "polyline" and [e[0] for e in log] == ["choices", "random"]:
                cum, u, i = log[0][1], log[0][2], log[0][3]
                a, b = A["pts"][i], A["pts"][i + 1]
                cases.append((f"SSeg [{'; '.join(q(x) for x in cum)}] {q(u * cum[-1])} {i}%nat {q(a[0])} {q(a[1])} {q(b[0])} {q(b[1])} "
                              f"{q(log[1][1])} {q(pt[0])} {q(pt[1])} {tol}", d))
            elif k in ("rect", "circle", "sector", "polyline"):
                cases.append(("SRect 0 0 1 0 0 0 0 0 1 1 0", dict(d, what=f"{k} sampler made unexpected RNG calls {[e[0] for e in log]}")))
        except Exception as e:  # noqa
            cases.append(("SRect 0 0 1 0 0 0 0 0 1 1 0", dict(d, what=f"cannot interpret RNG log: {e}")))


def chi2_check(c, cfg, r):
    cells = r.get("cells")
    if not cells:
        return None
    from scipy.stats import chi2
    n = sum(cells["counts"]) + cells["outside"]
    exp, cnt = cells["expected"], cells["counts"]
    # merge cells with small expectation
    big = [(e * n, k) for e, k in zip(exp, cnt) if e * n >= 8]
    small = [(e * n, k) for e, k in zip(exp, cnt) if e * n < 8]
    if small:
        big.append((sum(e for e, _ in small), sum(k for _, k in small)))
    big = [(e, k) for e, k in big if e > 0]
    if len(big) < 2:
        return None
    stat = sum((k - e) ** 2 / e for e, k in big)
    dof = len(big) - 1
    thr = float(chi2.isf(1e-9, dof))
    # samples that miss the cells (cut from the POLYGONS) but lie within the polygonisation margin of a disc / sector boundary are counted
    # apart by impl_c03 (near_boundary), not as `outside`: a single boundary sample must not fail the test, but there may be no more of
    # them than the rings along those boundaries can hold (3 x their share of the region + 20)
    near = cells.get("near_boundary", 0)
    ntot = n + near
    allowed = 20 + 3 * ntot * min(1.0, cells.get("ring_area", 0.0) / cells["area"]) if cells.get("area") else 0
    return dict(stat=stat, dof=dof, threshold=thr, n=n, outside=cells["outside"], near_boundary=near, near_allowed=allowed,
                ok=stat <= thr and cells["outside"] == 0 and near <= allowed)


def run_kernel(c, name, cases, evaluator="sfailing"):
    shards = [cases[i:i + 150] for i in range(0, len(cases), 150)]

    def one(args):
        k, shard = args
        body = HEADER + "Definition cases : list scase := [\n" + ";\n".join(t for t, _ in shard) + "\n].\n"
        body += f"Definition bad := Eval vm_compute in {evaluator} 0%N cases.\nPrint bad.\n"
        ok, out = common.run_coq_cases(f"{name}_{k}", body)
        return k, ok, out

    with cf.ThreadPoolExecutor(8) as ex:
        for k, ok, out in ex.map(one, list(enumerate(shards))):
            if not ok:
                c.violation("correspondence", "generated model cases do not compile", dict(shard=k, log=out[-1500:]), no_input=True)
                continue
            m = re.search(r"bad\s*=\s*\[(.*?)\]", out, flags=re.S)
            if not m:
                c.violation("correspondence", "cannot parse the kernel's answer", dict(shard=k, log=out[-800:]), no_input=True)
                continue
            for t in m.group(1).split(";"):
                if t.strip():
                    term, d = shards[k][int(t.replace("%N", "").strip())]
                    c.violation("correspondence", f"model and implementation disagree: {d.get('what')}", dict(d, coq_case=term[:3000]))
            c.cov["traces_validated_against_impl"] += len(shards[k])


def main():
    c = Check(PID, "proof")
    if os.environ.get("VERIF_C03_DEBUG"):           # dev aid: every violation as it is raised (the report prints one per kind)
        _v = c.violation

        def _dbg(kind, what, replay, no_input=False):
            got = _v(kind, what, replay, no_input)
            cfg_ = replay.get("config", {}) if isinstance(replay, dict) else {}
            print(f"[debug] {'VIOLATION' if got else 'known'} {kind}: {what[:160]} | config {cfg_.get('id') if isinstance(cfg_, dict) else cfg_}", file=sys.stderr, flush=True)
            return got
        c.violation = _dbg
    c.cov["rule"] = ("discrete: random subsets of a pool of 12 points (two heights) as point sets, grids, and their compositions "
                     "(pointset x pointset / disc / rectangle / sector samplers, generic intersection of 2-3 operands, union of 2-3, "
                     "difference, difference of a union), every RNG path enumerated; a discrete case is non-trivial when the operands "
                     "overlap partially (result differs from every operand) ; continuous: seeded random rectangles, discs, sectors, "
                     "polylines, polygons with holes, boxes and their generic / kernel-built compositions at non-zero heights, "
                     "non-trivial when the region is composed or rotated")
    common.ensure_parser()
    if not os.environ.get("VERIF_DEV_NOPROOFS") and not c.proofs():
        c.finish()
    quick = c.tier == "quick"
    rng = c.rng
    pool = []
    while len(pool) < 12:
        p = [round(rng.uniform(-2, 2), 3), round(rng.uniform(-2, 2), 3), rng.choice([0.0, 0.0, 1.5])]
        if p not in pool:
            pool.append(p)
    ndisc = 40 if quick else 1000
    ncont = 30 if quick else 480
    npts = 3000 if quick else 25000
    dconfigs = [gen_discrete(rng, i, pool) for i in range(ndisc)]
    cconfigs = [gen_continuous(rng, 10000 + i, npts) for i in range(ncont)]
    # regions with random parameters sampled through the scenario path (own rng stream: the cases above keep their seeds)
    import random as _random
    srng = _random.Random(f"{c.seed}:scen")
    nscen = int(os.environ.get("C03_NSCEN", 24 if quick else 120))
    cconfigs += [gen_scenario(srng, 20000 + i, 160 if quick else 600) for i in range(nscen)]
    if c.replay:
        body = json.load(open(c.replay))
        cfg = body.get("case", {}).get("config")
        if cfg:
            dconfigs = [cfg] if cfg["id"] < 10000 else []
            cconfigs = [cfg] if cfg["id"] >= 10000 else []
            pool = body["case"].get("pool", pool)
    nw = 8
    # ---- discrete
    dres = {}
    chunks = [dconfigs[i::nw] for i in range(nw)]
    chunks = [ch for ch in chunks if ch]
    with cf.ThreadPoolExecutor(nw) as ex:
        for out in ex.map(lambda ch: common.run_impl("impl_c03.py", dict(kind="discrete", configs=ch, pool=pool), timeout=3000), chunks):
            for r in out["results"]:
                dres[r["id"]] = r
    cases = []
    for cfg in dconfigs:
        r = dres[cfg["id"]]
        base = dict(config=cfg, pool=pool)
        c.hist("discrete:" + cfg["kind"])
        if "exc" in r:
            c.hist(f"discrete-exc:{r['exc']}")
            if r["exc"] == "RecursionError":
                c.violation("dispatch", f"building {cfg['kind']} does not terminate (RecursionError)", dict(base, exc=r["exc"]))
            elif r["exc"] not in ("UndefinedSamplingException",):
                c.violation("sampler", f"sampling {cfg['kind']} fails with {r['exc']}", dict(base, exc=r["exc"], msg=r.get("msg")))
            continue
        # map points to atoms
        pts = r.get("grid_points") if cfg["kind"] == "grid" else pool
        dist, rej = {}, Fraction(0)
        unknown = []
        for pt, (n_, d_) in r["dist"]:
            pr = Fraction(n_, d_)
            if pt is None:
                rej += pr
                continue
            idx = [i for i, p0 in enumerate(pts) if max(abs(a - b) for a, b in zip(p0, pt)) < 1e-8]
            if not idx:
                unknown.append(pt)
                continue
            dist[idx[0]] = dist.get(idx[0], Fraction(0)) + pr
        if cfg["kind"] in ("ps_inter_region", "region_inter_ps"):
            r["ball"] = in_ball(r, pool, cfg)
        if cfg["kind"] == "grid":
            want = set(range(len(pts)))
            tree = f"ps_tree {nl(sorted(want))}"
        else:
            want = result_set(cfg, r)
            tree = model_tree(cfg, r)
        nontriv = cfg["kind"] != "ps" and want is not None and 0 < len(want) and all(
            set(x) != want for x in ([cfg.get("A")] + cfg.get("regs", []) if cfg.get("A") or cfg.get("regs") else []) if x)
        c.count((cfg["kind"], sorted(want or []), str(cfg.get("A")), str(cfg.get("regs")), str(cfg.get("B"))), nontrivial=nontriv)
        c.cov["traces_validated_against_impl"] += r.get("npaths", 0)
        amb = set()
        if cfg["kind"] in ("ps_inter_region", "region_inter_ps"):
            if "margin" in r:
                # discs / sectors: the composed set by the harness's own exact geometry; atoms within the polygonisation margin of the
                # boundary are undetermined (the property speaks about points clear of the boundary)
                amb = {a for a, d in zip(cfg["A"], r["boundary_distance"]) if d <= r["margin"] and pool[a][2] == cfg["spec"]["center"][2]}
                own = {a for a in cfg["A"] if own_member(cfg["spec"], pool[a])}
                if (own ^ want) - amb:
                    c.violation("membership", f"{cfg['kind']}: the {cfg['spec']['kind']}'s containsPoint disagrees with exact geometry on a point clear of its boundary",
                                dict(base, atoms=sorted((own ^ want) - amb), spec_kind=cfg["spec"]["kind"], margin=r["margin"]))
                want = own
        if cfg["kind"] in ("ps_inter_region", "region_inter_ps") and want is not None and set(dist) != want:
            # PointSetRegion.intersect filters its candidates with the region's own containsPoint, which ignores the height of
            # rectangles / polygons: points over the footprint at another height are returned (when inside the 3-D circumcircle ball)
            off = {a for a, f, m in zip(cfg["A"], r.get("foot_region", []), r["in_region"]) if f and not m}
            if want <= set(dist) and set(dist) - want <= off:
                c.violation("height-membership", f"{cfg['kind']}: sampled points lie over the region's footprint but not at its height",
                            dict(base, atoms=sorted(set(dist) - want), spec_kind=cfg["spec"]["kind"], result_class=r.get("class")))
                continue
        # property oracle: membership, support, uniformity (counting measure) conditional on acceptance
        if unknown:
            c.violation("membership", "sampler returned a point that is no point of the operands", dict(base, points=unknown[:3]))
        if want is not None:
            extra = set(dist) - want - amb
            missing = want - set(dist) - amb
            if cfg["kind"] in ("ps_inter_region", "region_inter_ps"):
                # members of the region that the sampler's circumcircle pre-filter throws away before containsPoint is asked
                cut = {a for a, b in zip(cfg["A"], r["ball"]) if not b} & missing
                if cut:
                    c.violation("circumcircle-support", f"{cfg['kind']}: points of the point set that lie in the {cfg['spec']['kind']} (clear of its boundary) "
                                "are never produced: they are outside the ball the sampler pre-filters its candidates with (the region's `circumcircle`)",
                                dict(base, atoms=sorted(cut), spec_kind=cfg["spec"]["kind"], circumcircle=r.get("circumcircle"), result_class=r.get("class")))
                    missing -= cut
            if extra:
                c.violation("membership", f"{cfg['kind']}: sampler returns points outside the composed set",
                            dict(base, atoms=sorted(extra), result_class=r.get("class")))
            if missing:
                c.violation("support", f"{cfg['kind']}: some points of the composed set are never produced",
                            dict(base, atoms=sorted(missing), result_class=r.get("class")))
            acc = sum(dist.values())
            if dist and acc > 0 and not extra and not missing:
                # (the support is the composed set up to undetermined boundary atoms and reported pre-filter losses)
                for a, pr in dist.items():
                    if abs(float(pr / acc) - 1 / len(dist)) > 1e-9:
                        c.violation("uniformity", f"{cfg['kind']}: not uniform on the composed set (given acceptance)",
                                    dict(base, atom=a, prob=float(pr / acc), expected=1 / len(dist), result_class=r.get("class")))
                        break
        if tree is not None:
            exp = "[" + "; ".join(f"({a}%nat, {q(p)})" for a, p in sorted(dist.items())) + "]"
            cases.append((f"SDist ({tree}) {len(pts)} {exp} {q(rej)} {q(Fraction(1, 10 ** 12))}",
                          dict(base, what=f"exact distribution of {cfg['kind']}", impl={str(a): str(p) for a, p in dist.items()}, rej=str(rej))))
        else:
            c.hist("discrete-unmodelled:" + cfg["kind"] + ":" + str(r.get("class")))
        c.sample(dict(config=cfg, dist={str(a): str(p) for a, p in dist.items()}, reject=str(rej), paths=r.get("npaths")), limit=3)
    # ---- continuous
    cres = {}
    chunks = [cconfigs[i::nw * 2] for i in range(nw * 2)]
    chunks = [ch for ch in chunks if ch]
    with cf.ThreadPoolExecutor(nw) as ex:
        for out in ex.map(lambda ch: common.run_impl("impl_c03.py", dict(kind="continuous", configs=ch), timeout=7000), chunks):
            for r in out["results"]:
                cres[r["id"]] = r
    chi = []
    for cfg in cconfigs:
        r = cres[cfg["id"]]
        base = dict(config=cfg)
        if cfg["kind"] == "scen":
            kinds = "scen:" + cfg["family"] + ":" + (cfg["region"]["shape"] + (":surface" if cfg["region"]["surface"] else "") + ("" if cfg["region"]["center"] else ":uncentred")
                                                      if cfg["family"] == "mesh" else (cfg["view"]["mode"] + ":" + cfg["view"]["case"] if cfg["family"] == "view" else cfg["op"]["op"]))
        else:
            kinds = cfg["kind"] + ":" + cfg["A"]["kind"] + ("+" + cfg["B"]["kind"] if "B" in cfg else "")
        if cfg["kind"] == "scen":
            c.hist("scenario:" + kinds)
        elif cfg["kind"] == "hist":
            kinds += ":" + "/".join(cfg["ops"])
        elif "B" in cfg and r.get("overlap_area") is not None:
            kinds += ":different-heights"
            c.hist("continuous-different-heights:" + ("overlapping-footprints" if r["overlap_area"] > 0.2 else "disjoint-footprints"))
        c.hist("continuous:" + cfg["kind"])
        if "exc" in r:
            c.hist(f"continuous-exc:{r['exc']}")
            if r["exc"] == "RecursionError":
                c.violation("dispatch", f"{kinds}: does not terminate (RecursionError)", dict(base, exc=r["exc"]))
            elif r["exc"] not in ("UndefinedSamplingException", "NotImplementedError", "RuntimeError"):
                c.violation("sampler", f"{kinds}: sampling fails with {r['exc']}", dict(base, exc=r["exc"], msg=r.get("msg")))
            continue
        c.hist("continuous-class:" + r["class"])
        if r["n"] == 0:
            c.hist("continuous-empty")
            continue
        c.count((kinds, cfg["seed"]), nontrivial=cfg["kind"] != "prim" or cfg["A"].get("heading", 1) != 0, n=r["n"])
        if r["bad_members"] and cfg["kind"] == "scen":
            c.violation("membership", f"{kinds}: {r['nbad']} of {r['n']} points placed `in` a region with random parameters by scenario.generate do not lie in "
                        "the region as placed for their own scene (independent geometry on the scene's concrete parameters, all three coordinates)",
                        dict(base, result_class=r["class"], samples=r["bad_members"]))
        elif r["bad_members"]:
            c.violation("membership", f"{kinds}: a sampled point does not belong to the region (operands' containsPoint, all three coordinates)",
                        dict(base, result_class=r["class"], samples=r["bad_members"]))
        formula_cases(cfg, r, cases)
        if cfg["kind"] == "hist" and r.get("expected_size") is not None and isinstance(r.get("size"), (int, float)):
            if r["expected_size"] > 1e-3 and abs(r["size"] - r["expected_size"]) > 1e-2 * r["expected_size"]:
                c.violation("size", f"{kinds}: the size of the composed region is not the measure of the composed set "
                            "(footprint object reused from earlier operations)", dict(base, result_class=r["class"], size=r["size"], expected=r["expected_size"]))
        x = chi2_check(c, cfg, r)
        if x:
            chi.append(dict(config=cfg["id"], kinds=kinds, cls=r["class"], **{k: (round(v, 2) if isinstance(v, float) else v) for k, v in x.items()}))
            if not x["ok"]:
                c.violation("uniformity", f"{kinds}: chi^2 uniformity test fails (statistic {x['stat']:.1f} vs threshold {x['threshold']:.1f}, dof {x['dof']}, "
                            f"{x['outside']} samples clear of every boundary yet outside the region's cells, {x['near_boundary']} outside the cells but within the "
                            f"polygonisation margin of a disc / sector boundary (allowed {x['near_allowed']:.0f}))", dict(base, result_class=r["class"], chi2=x))
    # ---- placement: MeshRegion.mesh / sampleGiven vs the model C03.Placement.place (vertices of the placed mesh)
    pcfgs = [cfg for cfg in cconfigs if cfg["kind"] == "scen" and cfg["family"] == "mesh" and cfg["region"]["shape"] != "sphere"][:12 if quick else 60]
    if pcfgs:
        pres = common.run_impl("impl_c03.py", dict(kind="placement", configs=pcfgs), timeout=3000)["results"]
        for cfg, r in zip(pcfgs, pres):
            if "rows" not in r:
                if "exc" in r:
                    c.violation("sampler", f"placing a mesh region fails with {r['exc']}", dict(config=cfg, exc=r["exc"], msg=r.get("msg")))
                continue
            reg = cfg["region"]
            scale = [d / e for d, e in zip(r["dims"], r["extents"])] if r["dims"] else [1.0, 1.0, 1.0]
            M = r["matrix"]
            mat = "(mkmat " + " ".join(q(M[i][j]) for i in range(3) for j in range(3)) + ")"
            for row in r["rows"]:
                for how in ("direct", "sampled"):
                    c.count((cfg["id"], "place", how, tuple(row["v"])), nontrivial=any(isinstance(e, list) for e in reg["pos"] + (reg["rot"] or []) + (reg["dims"] or [])))
                    cases.append((f"SPlace {cb(reg['center'])} {qpt(r['cc'])} {qpt(scale)} {mat} {qpt(r['pos'])} {qpt(row['v'])} {qpt(row[how])} {q(1e-7)}",
                                  dict(config=cfg, what=f"vertex of the placed mesh ({'built from concrete values' if how == 'direct' else 'region with a random parameter, sampled'}) "
                                       "is not centre -> scale -> rotate -> translate of the input vertex", input_vertex=row["v"], placed=row[how], how=how,
                                       position=r["pos"], rotation=r["rot"], dimensions=r["dims"], centerMesh=reg["center"])))
    c.cov["chi2_tests"] = chi[:40]
    c.cov["chi2_count"] = len(chi)
    run_kernel(c, "C03_cases", cases)
    c.cov["model_cases"] = len(cases)
    c.assumptions += [
        "random.random() is an exact uniform real on [0,1) and calls are independent (the probability trees put the exact branch probabilities on every RNG call)",
        "continuous primitives: uniformity is PROVED only as the radial law / choices-interval identities and membership for all draws; the chi^2 runs are a fixed-seed TEST "
        "(threshold chi2.isf(1e-9)), not a proof",
        "trimesh volume / surface sampling and shapely triangulation are oracles (box volumes are chi^2-tested only)",
        "discrete atoms carry the counting measure in the exact tie; the theorems hold for any positive rational measure",
        "sqrt / cos / sin of the logged draws are computed in binary64 and passed to the Q model (tolerance 1e-9)",
    ]
    c.finish()


if __name__ == "__main__":
    main()
