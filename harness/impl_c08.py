"""C08 implementation side (runs under /venv/bin/python with Scenic from $VERIF_REPO): JSON in/out.
kinds: matcher (RequirementMatcher on generated comparison ASTs + the inferX clamps), funcs
(relativeHeadingRange, erosion/dilation iteration counts, visibilityBound), programs (pruned vs unpruned)."""
import ast
import json
import math
import random
import sys
import time
import traceback

OPS = {"lt": ast.Lt, "le": ast.LtE, "gt": ast.Gt, "ge": ast.GtE, "eq": ast.Eq, "ne": ast.NotEq,
       "is": ast.Is, "isnot": ast.IsNot, "in": ast.In, "notin": ast.NotIn}


def fl(x):
    if x is None:
        return None
    if x == float("inf") or x == float("-inf"):
        return None
    n, d = float(x).as_integer_ratio()
    return [str(n), str(d)]


def build(t, fname):
    k = t[0]
    if k == "c":
        return ast.Constant(t[1])
    if k == "a":
        return ast.Call(func=ast.Name(id=fname, ctx=ast.Load()), args=[ast.Name(id=f"X{t[1]}", ctx=ast.Load())], keywords=[])
    if k == "abs":
        return ast.Call(func=ast.Name(id="abs", ctx=ast.Load()), args=[build(t[1], fname)], keywords=[])
    if k in ("add", "sub"):
        return ast.BinOp(left=build(t[1], fname), op=ast.Add() if k == "add" else ast.Sub(), right=build(t[2], fname))
    if k == "o":
        return ast.Name(id=f"R{t[1]}", ctx=ast.Load())
    raise ValueError(k)


def run_matcher(cases):
    import scenic
    from scenic.core.distributions import Range
    from scenic.core.errors import InconsistentScenarioError
    from scenic.syntax import relations
    scenario = scenic.scenarioFromString(
        "ego = new Object at (0, 0)\nX0 = new Object at (10, 0)\nX1 = new Object at (20, 0)\n")
    ego = scenario.egoObject
    objs = [o for o in scenario.objects if o is not ego]
    ns = {"X0": objs[0], "X1": objs[1], "abs": abs, "R0": Range(0, 1), "R1": Range(2, 3)}
    matcher = relations.RequirementMatcher(ns)
    out = []
    for case in cases:
        res = {}
        for fname, infer, relcls in (("DistanceFrom", relations.inferDistanceRelations, relations.DistanceRelation),
                                     ("RelativeHeading", relations.inferRelativeHeadingRelations, relations.RelativeHeadingRelation)):
            node = ast.Compare(left=build(case["left"], fname), ops=[OPS[o]() for o, _ in case["rest"]],
                               comparators=[build(t, fname) for _, t in case["rest"]])
            ast.fix_missing_locations(node)
            node.lineno = 1
            for n in ast.walk(node):
                n.lineno, n.col_offset, n.end_lineno, n.end_col_offset = 1, 0, 1, 0
            try:
                raw = matcher.matchBounds(node, lambda nd: matcher.matchUnaryFunction(fname, nd))
                raw = [[objs.index(t), fl(lo), fl(hi)] for t, (lo, hi) in raw]
            except InconsistentScenarioError:
                raw = "INCONSISTENT"
            except Exception as e:
                raw = "EXC:" + type(e).__name__
            for o in [ego] + objs:
                o._relations = []
            try:
                infer(matcher, node, ego, 1)
                rels = [[objs.index(r.target), fl(r.lower), fl(r.upper)] for r in ego._relations if isinstance(r, relcls)]
                conv = [[i, fl(r.lower), fl(r.upper)] for i, o in enumerate(objs) for r in o._relations]
            except InconsistentScenarioError:
                rels, conv = "INCONSISTENT", None
            except Exception as e:
                rels, conv = "EXC:" + type(e).__name__, None
            res[fname] = dict(raw=raw, rels=rels, conv=conv)
        out.append(res)
    return out


def run_funcs(cases):
    import numpy
    from scenic.core import pruning, regions
    out = []
    for case in cases:
        k = case["kind"]
        try:
            if k == "rh":
                lo, hi = pruning.relativeHeadingRange(*case["args"])
                out.append([fl(lo), fl(hi)])
            elif k == "iters":
                rec = {}
                orig = regions.VoxelRegion.dilation

                def fake(self, iterations, structure=None, _rec=rec):
                    _rec["iterations"] = iterations
                    return self
                regions.VoxelRegion.dilation = fake
                try:
                    box = regions.BoxRegion(dimensions=tuple(case["dims"]))
                    ext = float(max(box.mesh.extents))
                    r = {"ext": fl(ext)}
                    rec.clear()
                    box._erodeOverapproximate(case["amount"], case["pitch"])
                    r["erode"] = rec.get("iterations")
                    tp = case["pitch"] * ext
                    r["h"] = fl(math.hypot(tp, tp, tp))
                    rec.clear()
                    res = box._bufferOverapproximate(case["amount"], case["pitch"])
                    r["buffer"] = rec.get("iterations")
                    r["buffer_kind"] = type(res).__name__
                finally:
                    regions.VoxelRegion.dilation = orig
                out.append(r)
            elif k == "bufbox":
                out.append(run_bufbox(case))
            else:
                out.append(None)
        except Exception as e:
            out.append({"exc": type(e).__name__, "msg": str(e)[:200]})
    return out


def run_bufbox(case):
    """the fast path of MeshVolumeRegion._bufferOverapproximate (pitch >= 1) on a mesh region placed anywhere:
    observable result = class, position, dimensions and the bounds of the returned region, plus membership of
    probe points (vertices of the input mesh displaced by at most the buffer)."""
    import numpy
    import trimesh
    from scenic.core import regions
    from scenic.core.vectors import Orientation, Vector
    shape, args = case["shape"], case["args"]
    if shape == "boxregion":
        reg = regions.BoxRegion(dimensions=tuple(args), position=Vector(*case["position"]),
                                rotation=Orientation.fromEuler(*case["rotation"]))
    elif shape == "spheroid":
        reg = regions.SpheroidRegion(dimensions=tuple(args), position=Vector(*case["position"]),
                                     rotation=Orientation.fromEuler(*case["rotation"]))
    else:
        mk = {"cone": lambda a: trimesh.creation.cone(radius=a[0], height=a[1]),
              "cylinder": lambda a: trimesh.creation.cylinder(radius=a[0], height=a[1]),
              "icosphere": lambda a: trimesh.creation.icosphere(radius=a[0], subdivisions=1),
              "capsule": lambda a: trimesh.creation.capsule(radius=a[0], height=a[1]),
              "annulus": lambda a: trimesh.creation.annulus(r_min=a[0], r_max=a[0] + a[1], height=a[2]),
              "box": lambda a: trimesh.creation.box(extents=a)}[shape]
        reg = regions.MeshVolumeRegion(mk(args), position=Vector(*case["position"]),
                                       rotation=Orientation.fromEuler(*case["rotation"]),
                                       centerMesh=case.get("center", True))
    b = case["buffer"]
    bounds = numpy.array(reg.mesh.bounds, dtype=float)
    res = reg._bufferOverapproximate(b, case["pitch"])
    r = dict(bounds=[[fl(x) for x in row] for row in bounds], cls=type(res).__name__)
    if hasattr(res, "position") and hasattr(res, "dimensions"):
        r["position"] = [fl(x) for x in vec3(res.position)]
        r["dimensions"] = [fl(float(x)) for x in res.dimensions]
    if hasattr(res, "mesh"):
        r["res_bounds"] = [[fl(x) for x in row] for row in numpy.array(res.mesh.bounds, dtype=float)]
    rs = random.Random(case["probe_seed"])
    verts = numpy.array(reg.mesh.vertices, dtype=float)
    probes = []
    for _ in range(case.get("nprobe", 12)):
        v = verts[rs.randrange(len(verts))]
        d = numpy.array([rs.gauss(0, 1) for _ in range(3)])
        n = float(numpy.linalg.norm(d)) or 1.0
        d = d / n * b * rs.choice([1.0, 0.999, 0.5, rs.random()])
        if rs.random() < 0.4:       # straight out through a face of the bounding box
            ax = rs.randrange(3)
            d = numpy.zeros(3); d[ax] = b * rs.choice([-1, 1]) * 0.999
        q = v + d
        inside = bool(res.containsPoint(Vector(*q)))
        if not inside:
            inside = bool(res.distanceTo(Vector(*q)) <= 1e-6 * max(1.0, b))
        probes.append([[float(x) for x in v], [float(x) for x in q], inside])
    r["probes_outside"] = [pr for pr in probes if not pr[2]][:3]
    r["nprobes"] = len(probes)
    return r


def run_maxdist(cases):
    """pruning.maxDistanceBetween / visibilityBound on every ordered pair of objects of small compiled scenarios."""
    import scenic
    import scenic.syntax.translator as translator
    from scenic.core import pruning
    out = []
    old = translator.usePruning
    translator.usePruning = False
    try:
        for case in cases:
            res = dict(id=case["id"])
            try:
                sc = scenic.scenarioFromString(case["src"])
            except Exception as e:
                res["compile_error"] = type(e).__name__ + ": " + str(e)[:160]
                out.append(res)
                continue
            byname = {}
            for o in sc.objects:
                byname[getattr(o, "tag")] = o
            objs = [byname[i] for i in range(len(sc.objects))]
            res["ego"] = objs.index(sc.egoObject)
            pairs = []
            for i, a in enumerate(objs):
                for j, b in enumerate(objs):
                    if i == j:
                        continue
                    try:
                        d = pruning.maxDistanceBetween(sc, a, b)
                        r = "INF" if d == float("inf") else fl(d)
                    except Exception as e:
                        r = "EXC:" + type(e).__name__
                    try:
                        vb = pruning.visibilityBound(a, b)
                        vb = None if vb is None else fl(vb)
                    except Exception as e:
                        vb = "EXC:" + type(e).__name__
                    pairs.append([i, j, r, vb])
            res["pairs"] = pairs
            out.append(res)
    finally:
        translator.usePruning = old
    return out


def vec3(v):
    return [float(v.x), float(v.y), float(v.z)]


def run_program(case):
    import numpy
    import scenic
    import scenic.syntax.translator as translator
    from scenic.core import pruning
    from scenic.core.distributions import Samplable, needsSampling
    from scenic.core.errors import InvalidScenarioError
    from scenic.core.utils import DefaultIdentityDict
    from scenic.core.vectors import Vector, VectorOperatorDistribution
    out = dict(id=case["id"])
    # unpruned
    translator.usePruning = False
    random.seed(case["seed"]); numpy.random.seed(case["seed"])
    t00 = time.time()
    try:
        unpruned = scenic.scenarioFromString(case["src"], mode2D=case.get("mode2D", False))
        out["unpruned_compile_s"] = round(time.time() - t00, 2)
    except Exception as e:
        out["unpruned_error"] = type(e).__name__ + ": " + str(e)[:200]
        translator.usePruning = True
        return out
    accepted = []
    kept = []           # the sampled scenes themselves: property values to substitute into random pruned regions
    t0 = time.time()
    for k in range(case["nscenes"]):
        try:
            scene, its = unpruned.generate(maxIterations=case.get("maxIterations", 2000), verbosity=0)
        except Exception as e:
            out.setdefault("unpruned_gen_fail", 0)
            out["unpruned_gen_fail"] += 1
            if time.time() - t0 > case.get("budget", 60) or (not accepted and time.time() - t0 > case.get("budget", 60) / 3):
                break
            continue
        accepted.append([vec3(o.position) for o in scene.objects])
        kept.append(scene)
        if time.time() - t0 > case.get("budget", 60):
            break
    out["n_accepted"] = len(accepted)
    out["t_unpruned"] = round(time.time() - t00, 2)
    # pruned
    translator.usePruning = True
    random.seed(case["seed"]); numpy.random.seed(case["seed"])
    t1 = time.time()

    class CompileTimeout(BaseException):
        pass

    def on_alarm(signum, frame):
        raise CompileTimeout()
    import signal
    limit = int(case.get("compile_limit", 30) + 20 * out.get("unpruned_compile_s", 0))
    oldh = signal.signal(signal.SIGALRM, on_alarm)
    signal.alarm(limit)
    try:
        pruned = scenic.scenarioFromString(case["src"], mode2D=case.get("mode2D", False))
        signal.alarm(0)
    except CompileTimeout:
        out["pruned_timeout"] = limit
        return out
    except InvalidScenarioError as e:
        signal.alarm(0)
        out["pruned_error"] = type(e).__name__ + ": " + str(e)[:200]
        out["pruned_invalid"] = True
        return out
    except Exception as e:
        signal.alarm(0)
        out["pruned_error"] = type(e).__name__ + ": " + str(e)[:200]
        return out
    finally:
        signal.alarm(0)
        signal.signal(signal.SIGALRM, oldh)
    out["compile_s"] = round(time.time() - t1, 2)
    objs = []
    outside = []
    for i, obj in enumerate(pruned.objects):
        info = dict(conditioned=False)
        pos = obj.position
        cur = pos._conditioned if isinstance(pos, Samplable) else pos
        info["conditioned"] = cur is not pos
        inner = getattr(pos, "object", None)    # <point in region> + offset: pruning conditions the point itself
        if (not info["conditioned"] and isinstance(pos, VectorOperatorDistribution) and isinstance(inner, Samplable)
                and inner._conditioned is not inner):
            info["conditioned"] = info["conditioned_inner"] = True
        base = offset = None
        try:
            m = pruning.matchInRegion(cur)
            base, offset = m[0], m[1]
        except Exception as e:
            info["match_error"] = type(e).__name__
        info["region"] = type(base).__name__ if base is not None else None
        random_region = base is not None and (needsSampling(base) or (offset is not None and needsSampling(offset)))
        if base is not None and info["conditioned"]:
            nout = 0
            info["substituted"] = bool(random_region)
            for si, sc in enumerate(accepted):
                p = Vector(*sc[i])
                b, off = base, offset
                try:
                    if random_region:
                        # the pruned region depends on random properties of (other) objects, e.g. the view region of
                        # an observer with a random pose: evaluate it at the property values of the accepted scene
                        sub = DefaultIdentityDict()
                        for po, so in zip(pruned.objects, kept[si].objects):
                            for prop in po.properties:
                                v = getattr(po, prop)
                                if needsSampling(v):
                                    sub[v] = getattr(so, prop)
                        if needsSampling(base):
                            b = base.sample(sub)
                        if offset is not None and needsSampling(offset):
                            off = offset.sample(sub)
                    if off is not None:
                        p = p - off
                    inside = bool(b.containsPoint(p))
                    if not inside:
                        inside = b.distanceTo(p) <= 1e-6
                except Exception as e:
                    info["contains_error"] = type(e).__name__ + ": " + str(e)[:120]
                    break
                if not inside:
                    nout += 1
                    if len(outside) < 3:
                        try:
                            d = float(b.distanceTo(p))
                        except Exception:
                            d = None
                        w = dict(obj=i, pos=sc[i], dist_to_pruned_region=d, pruned_region=type(b).__name__)
                        if random_region:
                            w["scene"] = [dict(position=vec3(so.position), yaw=float(so.yaw), pitch=float(so.pitch), roll=float(so.roll),
                                               dims=[float(so.width), float(so.length), float(so.height)],
                                               visibleDistance=float(so.visibleDistance)) for so in kept[si].objects]
                        outside.append(w)
            info["checked"] = len(accepted)
            info["outside"] = nout
        # non-positional properties untouched
        touched = []
        for prop in obj._dynamicProperties if False else obj.properties:
            if prop == "position":
                continue
            try:
                v = getattr(obj, prop)
            except Exception:
                continue
            if isinstance(v, Samplable) and v._conditioned is not v:
                touched.append(prop)
        info["touched"] = touched
        objs.append(info)
    out["objects"] = objs
    out["outside"] = outside
    out["t_oracle"] = round(time.time() - t1 - out["compile_s"], 2)
    # the pruned scenario still generates
    ok = 0
    fails = 0
    if accepted:
        for k in range(3):
            try:
                pruned.generate(maxIterations=case.get("maxIterations", 2000), verbosity=0)
                ok += 1
            except Exception as e:
                fails += 1
                out["pruned_gen_error"] = type(e).__name__ + ": " + str(e)[:160]
    out["pruned_gen_ok"], out["pruned_gen_fail"] = ok, fails
    return out


def main():
    payload = json.load(sys.stdin)
    kind = payload["kind"]
    if kind == "matcher":
        print(json.dumps(dict(results=run_matcher(payload["cases"]))))
    elif kind == "funcs":
        print(json.dumps(dict(results=run_funcs(payload["cases"]))))
    elif kind == "maxdist":
        print(json.dumps(dict(results=run_maxdist(payload["cases"]))))
    else:
        res = []
        for case in payload["cases"]:
            try:
                res.append(run_program(case))
            except Exception as e:
                res.append(dict(id=case["id"], crash=traceback.format_exc()[-1500:]))
        print(json.dumps(dict(results=res)))


if __name__ == "__main__":
    main()
