"""Copy a seeded change from /tmp/seed/<ID>/out/<k> into /verif/seeded/<ID>-<k>/ and record the result of
running the check against it.  usage: seedimport.py ID k yes|no|partly "by which part (violation kinds)" """
import json, os, shutil, sys
ID, k, caught, by = sys.argv[1], sys.argv[2], sys.argv[3], sys.argv[4]
src = f"/tmp/seed/{ID}/out/{k}"
dst = f"/verif/seeded/{ID}-{k}"
os.makedirs(dst, exist_ok=True)
for f in ("patch.diff", "demo.py", "meta.json"):
    if os.path.exists(os.path.join(src, f)):
        shutil.copy(os.path.join(src, f), os.path.join(dst, f))
mp = os.path.join(dst, "meta.json")
m = json.load(open(mp)) if os.path.exists(mp) else {"property": ID}
m["property"] = ID
m["verif_result"] = {"caught": caught, "by": by, "ran": f"harness/seedtest.sh {ID} seeded/{ID}-{k}/patch.diff (worktree of /repo HEAD + patch, VERIF_REPO override)"}
json.dump(m, open(mp, "w"), indent=1)
print("recorded", dst)
