"""C10 — the front end is total: a scenario or a located syntax error, never a crash or hang, veneer left inactive.
Proof layer: coq/Properties/C10.v (state restoration for every recoverable raise point incl. nested imports, the
unrecoverable ones as a refuted lemma, two-pass parse, error line, soundness of the nullable/loop analysis).
(G) scenic.gram regenerated as Gallina, `closed` and `wf_check` evaluated by the kernel.
(H) exception injection at every protocol step vs the model (kernel-evaluated); mutation fuzzing (testing, said plainly)."""
import concurrent.futures as cf
import hashlib
import json
import os
import re
import subprocess
import sys

sys.path.insert(0, os.path.dirname(os.path.abspath(__file__)))
import common
from common import Check

PID = "C10"
NPROC = int(os.environ.get("VERIF_WORKERS", min(16, common.NCPU)))
POINTS = ["RNamespace", "RActEntry", "RActAfterIncr", "RPreamble", "RParse", "RCompile", "RExec", "RStore", "RConstruct"]


# ----------------------------------------------------------------------------- (G) grammar well-formedness
def gallina_of(item, ids, rules):
    k = item[0]
    if k in ("tok", "soft"):
        return f"PTok {ids.setdefault(item[1], len(ids) + 1)}"
    if k == "name":
        if item[1] in rules:
            return f"PRule {rules[item[1]]}"
        return f"PTok {ids.setdefault(item[1], len(ids) + 1)}"
    if k in ("opt", "star", "plus", "pos", "neg", "forced"):
        return "(%s (%s))" % (dict(opt="POpt", star="PStar", plus="PPlus", pos="PPos", neg="PNeg", forced="PForced")[k], gallina_of(item[1], ids, rules))
    if k == "gather":
        return f"(PGather ({gallina_of(item[1], ids, rules)}) ({gallina_of(item[2], ids, rules)}))"
    if k == "cut":
        return "PCut"
    if k == "group":
        return gallina_alts(item[1], ids, rules)
    raise ValueError("unknown item " + k)


def gallina_alt(alt, ids, rules):
    if not alt:
        return "PEps"
    out = gallina_of(alt[-1], ids, rules)
    for it in reversed(alt[:-1]):
        out = f"(PSeq ({gallina_of(it, ids, rules)}) ({out}))"
    return out


def gallina_alts(alts, ids, rules):
    out = gallina_alt(alts[-1], ids, rules)
    for a in reversed(alts[:-1]):
        out = f"(PAlt ({gallina_alt(a, ids, rules)}) ({out}))"
    return "(" + out + ")"


def py_nullable(nf):
    """Independent evaluation of the analysis (to name the offending rule when the kernel check fails)."""
    R = nf["rules"]
    nul = set()

    def n(it):
        k = it[0]
        if k in ("tok", "soft"):
            return False
        if k == "name":
            return it[1] in nul
        if k in ("opt", "star", "pos", "neg", "cut"):
            return True
        if k in ("plus", "forced"):
            return n(it[1])
        if k == "gather":
            return n(it[2])
        if k == "group":
            return any(all(n(i) for i in a) for a in it[1])
    changed = True
    while changed:
        changed = False
        for name, r in R.items():
            if name not in nul and any(all(n(i) for i in a) for a in r["alts"]):
                nul.add(name); changed = True
    bad = []

    def walk(it, rule):
        k = it[0]
        if k in ("star", "plus"):
            if n(it[1]):
                bad.append((rule, it))
            walk(it[1], rule)
        elif k == "gather":
            if n(it[2]):
                bad.append((rule, it))
            walk(it[1], rule); walk(it[2], rule)
        elif k in ("opt", "pos", "neg", "forced"):
            walk(it[1], rule)
        elif k == "group":
            for a in it[1]:
                for i in a:
                    walk(i, rule)
    for name, r in R.items():
        for a in r["alts"]:
            for i in a:
                walk(i, name)
    return nul, bad


def leftmost_graph(nf, nul):
    """harness-side mirror of LeftRec.first_calls on the normal form: rule -> rules it may invoke at the same input position"""
    R = nf["rules"]

    def n(it):
        k = it[0]
        if k in ("tok", "soft"):
            return False
        if k == "name":
            return it[1] in nul
        if k in ("opt", "star", "pos", "neg", "cut"):
            return True
        if k in ("plus", "forced"):
            return n(it[1])
        if k == "gather":
            return n(it[2])
        if k == "group":
            return any(all(n(i) for i in a) for a in it[1])

    def fc_alt(alt):
        out = []
        for it in alt:
            out += fc(it)
            if not n(it):
                break
        return out

    def fc(it):
        k = it[0]
        if k == "name":
            return [it[1]] if it[1] in R else []
        if k in ("opt", "star", "plus", "pos", "neg", "forced"):
            return fc(it[1])
        if k == "gather":
            return fc(it[2]) + (fc(it[1]) if n(it[2]) else [])
        if k == "group":
            return [x for a in it[1] for x in fc_alt(a)]
        return []
    return {name: sorted({x for a in r["alts"] for x in fc_alt(a)}) for name, r in R.items()}


def rank_nonleaders(graph, leaders):
    """topological rank of the leftmost-call graph restricted to non-leader rules (callees get smaller ranks);
    returns (rank, cycle) - cycle is a leader-free cycle if one exists (then no rank function exists)."""
    rank, state, cycle = {}, {}, []

    def visit(r, stack):
        if r in leaders or r in rank:
            return
        if state.get(r) == 1:
            if not cycle:
                cycle.extend(stack[stack.index(r):] + [r])
            return
        state[r] = 1
        best = 0
        for x in graph.get(r, []):
            if x in leaders:
                continue
            visit(x, stack + [r])
            best = max(best, rank.get(x, 0) + 1)
        rank[r] = best
    import sys as _s
    _s.setrecursionlimit(10000)
    for r in graph:
        visit(r, [])
    return rank, cycle


def grammar_wf(c):
    gram = os.path.join(common.REPO, "src/scenic/syntax/scenic.gram")
    r = subprocess.run([common.PY, "-c",
                        "import sys, json; sys.path.insert(0, %r); import c09_grammar as g; json.dump(g.normal_form(%r), sys.stdout)"
                        % (os.path.join(common.VERIF, "harness"), gram)], capture_output=True, text=True, timeout=600)
    if r.returncode != 0:
        c.violation("grammar-wf", "pegen cannot read scenic.gram (translator is fail-closed)", dict(log=r.stderr[-1500:]), no_input=True)
        return
    nf = json.loads(r.stdout)
    rules = {name: i + 1 for i, name in enumerate(nf["order"])}
    ids = {}
    body = ";\n  ".join(f"({rules[n]}%N, {gallina_alts(nf['rules'][n]['alts'], ids, rules)})" for n in nf["order"])
    body = re.sub(r"(PTok|PRule) (\d+)", r"\1 \2%N", body)
    nul, bad = py_nullable(nf)
    graph = leftmost_graph(nf, nul)
    leaders = {n_ for n_ in nf["order"] if nf["rules"][n_]["leader"]}
    rank, cycle = rank_nonleaders(graph, leaders)
    g_leaders = "[" + "; ".join(f"{rules[n_]}%N" for n_ in nf["order"] if n_ in leaders) + "]"
    g_rank = "[" + "; ".join(f"({rules[n_]}%N, {rank.get(n_, 0)}%N)" for n_ in nf["order"] if n_ not in leaders) + "]"
    text = ("From Coq Require Import NArith List Bool.\nFrom Scenic Require Import C10.PEG C10.FrontendProofs C10.LeftRec C10.LeftRecProofs.\nImport ListNotations.\n"
            f"Definition G : grammar := [\n  {body}\n].\n"
            "Definition tbl := nullable_fix 80 G [].\n"
            "Lemma G_closed : closed G tbl = true. Proof. vm_compute. reflexivity. Qed.\n"
            "Lemma G_wf : wf_check G tbl = true. Proof. vm_compute. reflexivity. Qed.\n"
            "Theorem G_loops_consume : forall r e b, In (r, e) G -> In b (rep_bodies e) -> forall T (s s' : list T), succ G T b s s' -> (length s' < length s)%nat.\n"
            "Proof. exact (wf_check_sound_loops G tbl G_closed G_wf). Qed.\n"
            "Eval vm_compute in tbl.\nEval vm_compute in (length (flat_map (fun re => rep_bodies (snd re)) G)).\n"
            "(* left recursion: every cycle of the leftmost-call graph passes through one of pegen's memoised left-recursive leaders *)\n"
            f"Definition leaders : list N := {g_leaders}.\nDefinition rank : list (N * N) := {g_rank}.\n"
            "Lemma G_lr : lr_check G tbl leaders rank = true. Proof. vm_compute. reflexivity. Qed.\n"
            "Theorem G_cycles_through_leaders : forall r0 mid, is_path (lstep G tbl) r0 mid r0 -> exists x, In x (r0 :: mid) /\\ memN x leaders = true.\n"
            "Proof. exact (lr_check_sound G tbl leaders rank G_lr). Qed.\n"
            "Theorem G_same_input_cycles_through_leaders : forall T (s : list T) r0 mid, is_path (sstep G T s) r0 mid r0 -> exists x, In x (r0 :: mid) /\\ memN x leaders = true.\n"
            "Proof. exact (lr_check_sound_chain G tbl leaders rank G_closed G_lr). Qed.\n")
    ok, out = common.run_coq_cases("C10Grammar", text, timeout=900)
    c.count(("grammar", hashlib.sha256(body.encode()).hexdigest()[:12]), nontrivial=True)
    m = re.search(r"= \[([^\]]*)\]", out)
    coq_nul = set()
    if m:
        inv = {v: k for k, v in rules.items()}
        coq_nul = {inv[int(x.strip().rstrip("%N"))] for x in m.group(1).replace("\n", " ").split(";") if x.strip()}
    m2 = re.findall(r"= (\d+)(?:%nat)?\s*\n\s*: nat", out)
    c.cov["grammar_wf"] = dict(rules=len(rules), terminals=len(ids), nullable_rules=sorted(coq_nul), repetitions=int(m2[-1]) if m2 else None,
                               kernel_checked=ok)
    c.cov["grammar_wf"].update(leaders=sorted(leaders), leftmost_edges=sum(len(v) for v in graph.values()),
                               max_rank=max(rank.values()) if rank else 0,
                               left_recursive_nonleaders=sorted(n_ for n_ in nf["order"] if nf["rules"][n_]["left_recursive"] and n_ not in leaders))
    if not ok and cycle:
        c.violation("grammar-wf", "a cycle of the leftmost-call graph of scenic.gram avoids every memoised left-recursive leader "
                    "(the generated recursive-descent parser can recurse forever without consuming a token), or the rank certificate no longer checks",
                    dict(cycle=cycle, leaders=sorted(leaders), log=out[-800:]), no_input=not cycle)
    elif not ok:
        wit = [dict(rule=rname, repetition=json.dumps(it)[:300]) for rname, it in bad[:3]]
        c.violation("grammar-wf", "a repetition of scenic.gram has a nullable body (the generated loop can spin without consuming a token), "
                    "or the nullable table is not closed", dict(offending=wit, log=out[-800:]), no_input=not wit)
    elif coq_nul != nul:
        c.violation("grammar-wf", "kernel-evaluated and harness-evaluated nullable sets differ", dict(coq=sorted(coq_nul), harness=sorted(nul)), no_input=True)


# ----------------------------------------------------------------------------- exception injection vs model
def injection(c):
    cases = []
    for p in POINTS:
        for level in (0, 1):
            if level == 1 and p in ("RNamespace", "RConstruct"):
                continue
            for params, mode2D in (({}, False), ({"q": 7}, True)):
                cases.append(dict(point=p, level=level, params=params, mode2D=mode2D, nested=True))
        cases.append(dict(point=p, level=0, params={}, mode2D=False, nested=False))
    res = common.run_impl("impl_c10.py", dict(kind="inject", cases=cases), timeout=1800)["results"]
    code = {None: 0, "Injected": 1, "AssertionError": 2, "IndexError": 3}
    goals = []
    # which protocol does the tree implement?  Decided by OBSERVED behaviour at the raise point before veneer.activate: the repaired
    # protocol (branch fix-C10-veneer-activate: activate is all-or-nothing, deactivate only after a completed activate) restores the
    # state there, the original one ends with activity -1.  Every case is then checked against that model; a mixture fails.
    probe = next((r for r in res if r["case"]["point"] == "RNamespace" and r["case"]["level"] == 0 and not r["case"]["params"]), None)
    fixed = bool(probe and probe["restored"] and probe["exception"] == "Injected")
    fn = "scenario_from_stream_fixed" if fixed else "scenario_from_stream"
    c.cov["protocol_model"] = fn
    for r in res:
        cs = r["case"]
        o = "(Opts true [5%N] None)" if cs["params"] else "default_opts"
        top = f"(Some {cs['point']})" if cs["level"] == 0 else "None"
        nested = f"(MCons {'(Some ' + cs['point'] + ')' if cs['level'] == 1 else 'None'} 2%N MNil MNil)" if cs["nested"] else "MNil"
        a = r["after"]
        obs = (code.get(r["exception"], 9), a["activity"], a["stack"], str(a["mode2D"]).lower(), str(bool(a["locked"])).lower(),
               str(bool(a["gparams"])).lower(), str(a["current"]).lower())
        goals.append(f"Goal summarize ({fn} {o} {top} 1%N {nested} s0) = ({obs[0]}%nat, ({obs[1]})%Z, {obs[2]}%nat, {obs[3]}, {obs[4]}, {obs[5]}, {obs[6]}). "
                     "Proof. vm_compute. reflexivity. Qed.")
    header = ("From Coq Require Import ZArith NArith List Bool.\nFrom Scenic Require Import C10.Frontend C10.FrontendFixed.\nImport ListNotations.\n"
            "Definition isnil {A} (l : list A) := match l with [] => false | _ => true end.\n"
            "Definition summarize (r : option exn * vstate) :=\n"
            "  (match fst r with None => 0%nat | Some (EUser _) => 1%nat | Some EAssert => 2%nat | Some EIndex => 3%nat end,\n"
            "   activity (snd r), length (stack (snd r)), mode2D (snd r), isnil (locked (snd r)), isnil (gparams (snd r)),\n"
            "   match current (snd r) with None => false | Some _ => true end).\n")
    text = header + "\n".join(goals) + "\n"
    ok, out = common.run_coq_cases("C10Inject", text, timeout=600)
    bad_line = None
    if not ok:
        m = re.search(r"line (\d+)", out)
        bad_line = int(m.group(1)) - header.count("\n") - 1 if m else None
    for i, r in enumerate(res):
        cs = r["case"]
        unsafe = (not fixed) and ((cs["level"] == 0 and cs["point"] in ("RNamespace", "RActEntry", "RActAfterIncr")) or (cs["level"] == 1 and cs["point"] == "RActAfterIncr"))
        c.count(("inject", json.dumps(cs, sort_keys=True)), nontrivial=True)
        c.hist(f"inject:{cs['point']}:level{cs['level']}:{'restored' if r['restored'] else 'NOT-restored'}")
        c.cov["traces_validated_against_impl"] += 1
        if bad_line is not None and i == bad_line:
            c.violation("correspondence", "the protocol model and the real veneer end in different states for an injected exception",
                        dict(case=cs, observed=dict(exception=r["exception"], after=r["after"]), log=out[-600:]))
        if not r["restored"] or r["exception"] != "Injected":
            c.violation("injection", "an exception at a protocol step leaves the veneer globals changed, or is masked by another exception",
                        dict(case=cs, point=cs["point"], level=cs["level"], exception=r["exception"], after=r["after"], is_active=r["is_active"],
                             model_says_unrecoverable=unsafe))
    if not ok and bad_line is None:
        c.violation("correspondence", "the generated injection cases no longer check against the model", dict(log=out[-1500:]), no_input=True)


# ----------------------------------------------------------------------------- fuzzing
def scenic_sources():
    res = []
    for sub in ("examples", "tests"):
        for d, dirs, fs in os.walk(os.path.join(common.REPO, sub)):
            dirs.sort()
            res += [os.path.join(d, f) for f in sorted(fs) if f.endswith(".scenic")]
    return res


def par(kind, jobs, extra, timeout=7000):
    chunks = [jobs[i::NPROC] for i in range(NPROC)]
    chunks = [ch for ch in chunks if ch]
    out = []
    with cf.ThreadPoolExecutor(max(1, len(chunks))) as ex:
        futs = [ex.submit(common.run_impl, "impl_c10.py", dict(kind=kind, jobs=ch, **extra), timeout) for ch in chunks]
        for f in futs:
            out += f.result()["results"]
    return out


def signature(r):
    return (r["outcome"], r.get("type"), r.get("func"))


def shrink(r):
    """Line-, then token-level reduction of a failing text while (outcome, exception type, innermost Scenic function) persists."""
    text, sig = r["text"], signature(r)
    for unit in ("\n", None):
        parts = text.split("\n") if unit else re.findall(r"\s+|\w+|[^\w\s]", text)
        n = max(1, len(parts) // 2)
        rounds = 0
        while n >= 1 and rounds < 8:
            rounds += 1
            cands = []
            for i in range(0, len(parts), n):
                cand = parts[:i] + parts[i + n:]
                cands.append((unit or "").join(cand))
            cands = [t for t in cands if t.strip()][:32]
            if not cands:
                break
            res = par("fuzz", [dict(id=i, text=t, routes=[r.get("route", "ast")]) for i, t in enumerate(cands)], {}, timeout=1200)
            hit = next((x for x in sorted(res, key=lambda x: x["id"]) if signature(x) == sig), None)
            if hit:
                text = cands[hit["id"]]
                parts = text.split("\n") if unit else re.findall(r"\s+|\w+|[^\w\s]", text)
                n = max(1, min(n, len(parts) // 2))
            elif n == 1:
                break
            else:
                n //= 2
    return text


def confirm(r):
    """Re-run ONE input alone in a fresh interpreter (same route): the verdict of that run is the one reported.  Used for
    every suspected hang and for every failure that touched the hang detector, so that neither a late alarm nor CPU time
    accounted across inputs of a long-lived worker can produce a finding."""
    job = dict(id=0, text=r.get("text"), routes=[r.get("route", "ast")], mutation=r.get("mutation", "given"))
    if r.get("raw_hex"):
        job["raw_hex"] = r["raw_hex"]
    try:
        r2 = common.run_impl("impl_c10.py", dict(kind="fuzz", jobs=[job]), timeout=600)["results"][0]
    except Exception as e:      # the fresh run itself died (e.g. killed by the wall-clock limit): that is a hang
        return dict(r, outcome="timeout", type="Timeout", confirm_error=str(e)[-200:])
    r2["id"] = r["id"]
    r2["mutation"] = r.get("mutation")
    r2.setdefault("text", r.get("text"))
    if r.get("raw_hex"):
        r2.setdefault("raw_hex", r["raw_hex"])
    return r2


def judge(c, r, src=None):
    oc = r["outcome"]
    if (oc == "timeout" or r.get("timeout_in_chain")) and r.get("text") is not None and not r.get("confirmed"):
        c.hist("hang-detector:rerun-in-fresh-process")
        r2 = confirm(r)
        r2["confirmed"] = True
        if r2["outcome"] != "timeout":
            c.hist("hang-detector:not-reproduced-alone")
        return judge(c, r2, src)
    if oc == "timeout" and r.get("type") not in (None, "Timeout"):
        oc = "crash"
    c.hist("outcome:" + oc)
    c.hist("mutation:" + r.get("mutation", "?").split("+")[0].split("@")[0])
    if oc.startswith("skip"):
        return
    for x in r.get("routes", []):
        c.hist("route:" + x)
    if "@" in r.get("mutation", ""):
        c.hist("file-variant:" + r["mutation"].rsplit("@", 1)[1])
    c.count(("mutant", r.get("sha")), nontrivial=oc != "ok" or "+" in r.get("mutation", "") or r.get("mutation", "").split("@")[0] in ("template", "tail", "directed-template", "directed-tail", "directed-specifier") or r.get("mutation", "").startswith(("sentence", "invalid-alt")))
    if "veneer_restored" in r:
        c.cov["traces_validated_against_impl"] += 1
        if not r["veneer_restored"]:
            c.violation("veneer", "veneer globals differ from the initial inactive state after a failed compilation",
                        dict(text=r.get("text"), source=src, veneer=r.get("veneer"), mutation=r.get("mutation"), route=r.get("route"),
                             raw_hex=r.get("raw_hex")))
    if oc in ("ok", "syntax-error"):
        return
    rep = dict(outcome=oc, type=r.get("type"), func=r.get("func"), file=r.get("file"), msg=r.get("msg"), lineno=r.get("lineno"),
               nlines=r.get("nlines"), mutation=r.get("mutation"), source=src, text=r.get("text"), route=r.get("route"),
               routes=r.get("routes"), raw_hex=r.get("raw_hex"), cpu_s=r.get("cpu_s"),
               has_nul_byte="\x00" in (r.get("text") or ""))
    kind = {"crash": "crash", "recursion-error": "crash", "token-error": "unlocated-error", "timeout": "hang",
            "syntax-error-without-line": "error-location", "syntax-error-line-out-of-range": "error-location"}[oc]
    what = {"crash": "an internal exception escapes the front end", "hang": "the front end exceeds the per-input CPU budget (confirmed alone in a fresh process)",
            "unlocated-error": "a tokenizer error escapes the front end unconverted",
            "error-location": "a syntax error does not name a line of the input"}[kind]
    new = c.violation(kind, what, rep)
    if new and os.environ.get("C10_DEBUG"):
        print("DBG", json.dumps({k: v for k, v in rep.items() if k != "text"})[:500], file=sys.stderr)
    if new and kind == "crash" and r.get("text") and len(r["text"]) > 200 and not r.get("raw_hex") and not os.environ.get("C10_NOSHRINK") \
            and not getattr(c, "_shrunk", {}).get(signature(r)):
        c._shrunk = getattr(c, "_shrunk", {})
        c._shrunk[signature(r)] = True
        rep["text_minimised"] = shrink(r)



# ----------------------------------------------------------------------------- round 3: Scenic sentences, documented forms, compositions, error alternatives
def load_grammars(c):
    gram = os.path.join(common.REPO, "src/scenic/syntax/scenic.gram")
    hdir = os.path.join(common.VERIF, "harness")
    r = subprocess.run([common.PY, os.path.join(hdir, "c10_invalid.py"), gram], capture_output=True, text=True, timeout=600)
    r2 = subprocess.run([common.PY, "-c", "import sys, json; sys.path.insert(0, %r); import c09_grammar as g; json.dump(g.normal_form(%r), sys.stdout)"
                         % (hdir, "/usr/src/python3.11/Grammar/python.gram")], capture_output=True, text=True, timeout=600)
    if r.returncode != 0 or r2.returncode != 0:
        c.violation("grammar-sentences", "pegen cannot read scenic.gram / python.gram (fail closed)", dict(log=(r.stderr + r2.stderr)[-1500:]), no_input=True)
        return None
    d = json.loads(r.stdout)
    return d["nf"], d["err"], json.loads(r2.stdout)


def par_sent(jobs, rules, timeout=7000):
    chunks = [jobs[i::NPROC] for i in range(NPROC)]
    chunks = [ch for ch in chunks if ch]
    out, reached, counts = [], {}, {}
    with cf.ThreadPoolExecutor(max(1, len(chunks))) as ex:
        futs = [ex.submit(common.run_impl, "impl_c10.py", dict(kind="invalid", jobs=ch, rules=rules), timeout) for ch in chunks]
        for f in futs:
            r = f.result()
            out += r["results"]
            for k, v in r["reached"].items():
                reached.setdefault(k, v)
            counts = r["alt_counts"]
    return out, reached, counts


def judge_sentence(c, j, r):
    """oracle of one sentence / documented form / composition"""
    kind = j["kind"]
    rep = dict(kind_of_input=kind, text=j["text"], route="ast", outcome=r["outcome"], type=r.get("type"), msg=r.get("msg"), func=r.get("func"), file=r.get("file"),
               lineno=r.get("lineno"), expect=j.get("expect", "ok"), sentence=True)
    for k in ("rule", "alt", "file", "line", "title", "parent", "hole", "child", "full", "root", "kid_node", "may_reject"):
        if k in j and k not in ("file",):
            rep[k] = j[k]
    if "file" in j:
        rep["doc_file"] = j["file"]
    c.count((kind, hashlib.sha256(j["text"].encode()).hexdigest()[:12]), nontrivial=True)
    c.hist("sentence:%s:%s" % (kind, r["outcome"]))
    if r["outcome"] not in ("ok", "syntax-error"):
        judge(c, dict(r, text=j["text"], mutation="sentence:" + kind, sha=None, routes=["ast:" + r["outcome"]]))
        return
    expect = j.get("expect", "ok")
    if expect == "syntax-error":
        if r["outcome"] != "syntax-error":
            c.violation("sentence", "an input that reaches an error-reporting alternative of the grammar is accepted", rep)
        return
    if r["outcome"] != "ok" and not j.get("may_reject"):
        vk, what = {"table": ("sentence", "a sentence of the per-alternative table of Scenic's grammar rules (a valid program) is rejected"),
                    "layout": ("sentence", "a valid multi-line / continued Scenic form is rejected"),
                    "doc-title": ("docs-form", "an instantiation of a form documented in docs/reference (section title metasyntax) is rejected"),
                    "doc-block": ("docs-form", "an instantiation of a `scenic-grammar` block of docs/reference is rejected")}.get(
            kind, ("composition", "a valid composition of documented operators / specifiers / statements (written with the parentheses the precedence ladder asks for) is rejected"))
        c.violation(vk, what, rep)
        return
    if "full" in j and r["outcome"] == "ok":
        if r.get("full_outcome") != "ok":
            c.violation("composition", "the fully parenthesised text of a composition is rejected", dict(rep, full_outcome=r.get("full_outcome"), full_msg=r.get("full_msg")))
        elif r.get("same_tree") is False:
            c.violation("precedence", "a composition written with the minimal parentheses of the documented precedence parses to a different tree than its fully parenthesised text",
                        dict(rep, dump_min=r.get("dump_min"), dump_full=r.get("dump_full")))
        elif j.get("root") and r.get("root") != j["root"]:
            c.violation("precedence", "the root operator of a composition is not the one the operator table names", dict(rep, observed_root=r.get("root"), kids=r.get("kids")))
        elif j.get("root") and j["root"] != "New" and j.get("kid_node") and j["kid_node"] not in (r.get("kids") or []):
            c.violation("precedence", "the plugged-in operator is not a direct operand of the outer operator", dict(rep, observed_root=r.get("root"), kids=r.get("kids")))


def scenic_layer(c, quick, only=None):
    import c10_sentences as S
    import c10_invalid as V
    g = load_grammars(c)
    if g is None:
        return
    nf, err, pnf = g
    jobs = []
    problems, sents = S.check_complete(nf, pnf)
    for pr in problems:
        c.violation("grammar-sentences", "the Scenic sentence table no longer covers every alternative of the regenerated scenic.gram: " + pr["problem"],
                    dict(rule=pr.get("rule"), alt=pr.get("alt"), grammar=pr.get("grammar"), text=pr.get("text")), no_input=True)
    for s_ in sents:
        jobs.append(dict(s_, kind="table"))
    jobs += [dict(kind="layout", text=t) for t in S.LAYOUT]
    forms, fp = S.doc_forms(common.REPO)
    blocks, bp = S.doc_blocks(common.REPO)
    for pr in fp + bp:
        c.violation("docs-form", "the metasyntax of a documented form cannot be instantiated (fail closed): " + pr["problem"], pr, no_input=True)
    jobs += [dict(f, kind="doc-title") for f in forms] + [dict(f, kind="doc-block") for f in blocks]
    ip, titles = S.operator_inventory(common.REPO, nf)
    for pr in ip:
        c.violation("grammar-sentences", "operator table out of step with docs/reference/operators.rst or the grammar: " + pr["problem"], pr, no_input=True)
    comp = S.compositions()
    if quick:
        # quick: every Scenic-in-Scenic operator pair; Scenic/Python mixed pairs and the specifier / statement positions rotate with the seed
        # (Scenic children in those positions: every other one, also rotating; the thorough tier runs all of them)
        comp = [j for i, j in enumerate(comp) if (j["kind"] == "op" and not j["py_child"] and not j["py_parent"]) or not ((i + c.seed) % (3 if j["kind"] != "op" and j["py_child"] else 2))]
    comp += S.temporal_compositions()
    jobs += comp
    c.cov["scenic_sentences"] = dict(rules=len({s_["rule"] for s_ in sents}), alternatives=len({(s_["rule"], s_["alt"]) for s_ in sents}), sentences=len(sents),
                                     layout=len(S.LAYOUT), doc_titles=len(forms), doc_blocks=len(blocks), operator_titles=len(titles), compositions=len(comp))
    # error-reporting alternatives
    gen, ijobs = V.build(nf, err, c.seed, 12 if quick else 120)
    targets = gen.targets()
    rules = sorted({r for r, _ in targets})
    for j in ijobs:
        j["kind"] = "invalid"
        j["string"] = j["id"] % 4 == 0
    jobs += ijobs
    if only:
        jobs = [j for j in jobs if re.search(only, j["kind"])]
    for i, j in enumerate(jobs):
        j["id"] = i
    res, reached, counts = par_sent(jobs, rules)
    byid = {j["id"]: j for j in jobs}
    for r in sorted(res, key=lambda r: r["id"]):
        j = byid[r["id"]]
        if j["kind"] != "invalid":
            judge_sentence(c, j, r)
            continue
        c.hist("invalid-input:" + r["outcome"])
        c.count(("invalid", hashlib.sha256(j["text"].encode()).hexdigest()[:12]), nontrivial=bool(r.get("reached")))
        if r["outcome"] not in ("ok", "syntax-error") or r.get("veneer_restored") is False:
            judge(c, dict(r, text=j["text"], mutation="invalid-alternative:%s:%s" % tuple(j["target"]), sha=None, reached=r.get("reached")))
    allk = {"%s:%d" % t for t in targets}
    bad_counts = {n: (counts.get(n), len(nf["rules"][n]["alts"])) for n in rules if counts.get(n) != len(nf["rules"][n]["alts"])}
    if bad_counts and not only:
        c.violation("invalid-coverage", "the alternatives of an error-reporting rule cannot be located in the generated parser (coverage would be unmeasured)", dict(rules=bad_counts), no_input=True)
    unreached = sorted(allk - set(reached))
    stale = sorted(k for k in V.UNREACHED if k in reached or k not in allk)
    c.cov["invalid_alternatives"] = dict(total=len(allk), reached=len(allk & set(reached)), unreached_listed=[k for k in unreached if k in V.UNREACHED],
                                         inputs=len(ijobs), rules=len(rules))
    if not only:
        for k in unreached:
            if k not in V.UNREACHED:
                rn, ai = k.rsplit(":", 1)
                c.violation("invalid-coverage", "no generated input reaches this error-reporting alternative of scenic.gram and it is not listed as unreachable (fail closed)",
                            dict(alternative=k, grammar=nf["rules"][rn]["alts"][int(ai)]), no_input=True)
        for k in stale:
            c.violation("invalid-coverage", "an alternative listed as unreachable is reached (or no longer exists): remove it from c10_invalid.UNREACHED", dict(alternative=k), no_input=True)


def locator_correspondence(c):
    """invalid_arguments alternative 0: the reported position must be the argument coq/C10/ErrorActions.v `locate` names, for every
    shape (positional only / keyword only / mixed / starred / `**`); the model is evaluated by the kernel (gen/C10Locate.v)."""
    shapes = [(["a"], []), (["a", "bb"], []), (["*a"], []), (["a", "*bb", "c"], []), ([], ["k=1"]), ([], ["k=1", "jj=2"]), (["a"], ["k=1"]), (["a", "b"], ["k=1", "*cc"]),
              (["a"], ["**k"]), (["*a"], ["k=1", "**j"]), ([], ["**k", "j=1"]), (["a", "b", "c"], ["k=1", "j=2", "i=3"])]
    jobs, meta = [], []
    for pos, kw in shapes:
        # pegen's `args` puts starred arguments that come after a keyword into the positional list
        order = pos + kw
        text = "ego = new Object\nf(" + ", ".join(order) + ", *)\n"
        cols, col = {}, 3
        for i, a in enumerate(order):
            cols[i] = col
            col += len(a) + 2
        P = [cols[i] for i, a in enumerate(order) if i < len(pos) or (a.startswith("*") and not a.startswith("**"))]
        K = [cols[i] for i, a in enumerate(order) if i >= len(pos) and not (a.startswith("*") and not a.startswith("**"))]
        jobs.append(dict(id=len(jobs), text=text, kind="locator"))
        meta.append((P, K))
    res, _, _ = par_sent(jobs, [])
    res = sorted(res, key=lambda r: r["id"])
    lst = lambda l: "[" + "; ".join(str(x) for x in l) + "]"
    goals = []
    for (P, K), r in zip(meta, res):
        obs = r.get("offset") if r["outcome"] == "syntax-error" else None
        goals.append(f"Goal locate nat {lst(P)} {lst(K)} = {'Some ' + str(obs) if obs is not None else 'None'}. Proof. vm_compute. reflexivity. Qed.")
    header = "From Coq Require Import List.\nFrom Scenic Require Import C10.ErrorActions.\nImport ListNotations.\n"
    ok, out = common.run_coq_cases("C10Locate", header + "\n".join(goals) + "\n", timeout=600)
    bad = None
    if not ok:
        m = re.search(r"line (\d+)", out)
        bad = int(m.group(1)) - header.count("\n") - 1 if m else None
    for i, ((P, K), r, j) in enumerate(zip(meta, res, jobs)):
        c.count(("locator", j["text"]), nontrivial=True)
        c.hist("locator:" + r["outcome"])
        c.cov["traces_validated_against_impl"] += 1
        if r["outcome"] != "syntax-error":
            judge(c, dict(r, text=j["text"], mutation="invalid-alternative:invalid_arguments:0", sha=None))
        elif bad is not None and i == bad:
            c.violation("correspondence", "the error of invalid_arguments alternative 0 is not located at the argument the model's `locate` names (last keyword argument, else last positional one)",
                        dict(text=j["text"], route="ast", positional_columns=P, keyword_columns=K, observed_offset=r.get("offset"), msg=r.get("msg")))
    if not ok and bad is None:
        c.violation("correspondence", "the generated locator cases no longer check against the model", dict(log=out[-1200:]), no_input=True)


def main():
    c = Check(PID, "other")
    c.cov["rule"] = ("mutants of the .scenic programs under examples/ and tests/ (14 operators: delete/insert/replace/swap characters, tokens and lines, "
                     "re-indent, join lines, truncate, Scenic-only expressions placed in ~30 target/decorator/f-string/pattern templates, unterminated "
                     "constructs appended at the end of the file; up to 3 stacked mutations), each parsed and compiled to a Python AST (never executed); "
                     "every 4th failing mutant also goes through scenarioFromString (fails before any code runs) with the veneer globals compared before/after. "
                     "A mutant is non-trivial when it is rejected, stacked, or built from a template/tail. Exception injection: every protocol step x "
                     "nesting level x {plain, params+2D}, final state compared with the Coq model inside coqc.")
    quick = c.tier == "quick"
    common.ensure_parser()
    if not c.proofs():
        c.finish()
    if c.replay:
        body = json.load(open(c.replay))
        case = body.get("case", {})
        if case.get("sentence"):
            j = dict(case, kind=case.get("kind_of_input", "table"), id=0)
            j = {k: v for k, v in j.items() if k in ("kind", "id", "text", "full", "expect", "root", "kid_node", "may_reject", "rule", "alt", "parent", "hole", "child")}
            res, _, _ = par_sent([j], [])
            judge_sentence(c, j, res[0])
        elif case.get("text") is not None:
            job = dict(id=0, text=case.get("text_minimised") or case["text"], routes=[case["route"]] if case.get("route") else None)
            if case.get("raw_hex"):
                job["raw_hex"] = case["raw_hex"]
            res = par("fuzz", [job], {})
            for r in res:
                judge(c, r)
        else:
            injection(c)
        c.finish()
    only = os.environ.get("VERIF_C10_ONLY")          # development knob: regex over the round-3 input kinds
    if only:
        scenic_layer(c, quick, only)
        locator_correspondence(c)
        c.finish()
    grammar_wf(c)
    injection(c)
    scenic_layer(c, quick)
    locator_correspondence(c)

    # docs/reference samples: every sample accepted when the baseline was recorded must still be accepted
    docs = common.run_impl("impl_c10.py", dict(kind="docs"))["results"]
    base = json.load(open(os.path.join(common.VERIF, "harness", "c10_docs_baseline.json")))
    for d in docs:
        c.hist("docs:" + d["outcome"])
        c.count(("docs", d["sha"]), nontrivial=True)
        if d["outcome"] != "ok" and d["sha"] in base["accepted"]:
            c.violation("docs", "a code sample of docs/reference that used to be accepted is now rejected",
                        dict(file=d["file"], line=d["line"], text=d["text"], outcome=d["outcome"], msg=d["msg"]))
        if d["outcome"] not in ("ok", "syntax-error"):
            judge(c, dict(d, mutation="docs-sample", nlines=d["text"].count("\n") + 1))
    c.cov["docs_samples"] = len(docs)

    # corpus of minimised failing inputs first, then fresh mutants
    jobs = []
    cdir = os.path.join(common.VERIF, "corpus", PID)
    if os.path.isdir(cdir):
        for f in sorted(os.listdir(cdir)):
            if f.endswith(".json"):
                jobs.append(dict(id=len(jobs), text=json.load(open(os.path.join(cdir, f)))["text"], mutation="corpus:" + f))
    # directed part (every run, exhaustive over small tables): every template x the names the compiler tracks and a few Scenic
    # expressions x every block context, on a two-line base program, through parse + compile + Python's compile();
    # every unterminated tail x {as is, without / with trailing newline} as a REAL FILE (errors located at / past the end of the file)
    import impl_c10 as I
    def ind(txt, k):
        return "\n".join(" " * k + l for l in txt.split("\n"))
    base = "ego = new Object\n"
    dexprs = ["ego", "workspace", "globalParameters", "front of ego", "x deg", "new Object", "x can see y"]
    for ti, T in enumerate(I.TEMPLATES):
        for e in dexprs:
            t0 = T.replace("{e}", e).replace("{{", "{").replace("}}", "}")
            for ci, ctx in enumerate(I.CONTEXTS[1:]):
                if ci > 0 and (e not in ("ego", "workspace", "front of ego") or (not quick and False)):
                    continue
                t = ctx.replace("{t}", t0).replace("{TT}", ind(t0, 8)).replace("{T}", ind(t0, 4)).replace("{e1}", t0.split("\n")[0])
                routes = ["ast", "string"] if (ti + ci) % 5 == 0 else ["ast"]
                jobs.append(dict(id=len(jobs), text=base + t + "\n", mutation="directed-template", routes=routes))
    for tail in I.TAILS + ["behavior B():\n    try:\n        wait\n    interrupt when True:", "scenario Main():\n    setup:", "x = [1,", "require (", "new Object with"]:
        for v, txt in (("as-is", base + tail), ("add-newline", base + tail + "\n"), ("strip", (base + tail).rstrip("\n")), ("no-base", tail)):
            jobs.append(dict(id=len(jobs), text=txt, mutation="directed-tail@" + v, routes=["file", "import"] if v == "as-is" else ["file"]))
    for sp in I.SPECIFIERS:
        for head in ("x ", "x = y ", "new Object ", "ego = new Object ", "require x ", "(x) ", "x.y ", "f() "):
            jobs.append(dict(id=len(jobs), text=base + head + sp + "\n", mutation="directed-specifier", routes=["ast"]))
    c.cov["directed_inputs"] = len(jobs)
    srcs = scenic_sources()
    c.cov["scenic_sources"] = len(srcs)
    n = int(os.environ.get("VERIF_C10_N", 2600 if quick else 40000))     # VERIF_C10_N: development knob only
    rng = c.rng
    for i in range(n):
        jobs.append(dict(id=len(jobs), path=rng.choice(srcs), seed=rng.randrange(10 ** 9), extra=rng.choice([0, 0, 0, 1, 2])))
    # CPU-seconds per worker: the total work does not depend on the number of workers
    res = par("fuzz", jobs, dict(cpu_budget=((1440 // NPROC) if quick else 2100 * 16 // NPROC)))
    byid = {j["id"]: j for j in jobs}
    for r in sorted(res, key=lambda r: r["id"]):
        judge(c, r, src=byid[r["id"]].get("path"))
    for r in res:
        if r["outcome"] == "syntax-error":
            c.sample(dict(mutation=r["mutation"], lineno=r.get("lineno"), nlines=r["nlines"], msg=r.get("msg")), limit=4)
    c.assumptions += [
        "totality over all inputs is NOT proved: the generated parser is outside any model; crashes/hangs are searched for by mutation fuzzing (testing)",
        "state restoration is proved for the model of activate/deactivate/_scenarioFromStream/compileStream and tied to the code by exception injection at every step",
        "the PEG success relation over-approximates pegen's semantics (ordered choice may take either branch, negative lookahead and cut always succeed); memoised left recursion is not modelled",
        "hang detector = 25 CPU-seconds per input (ITIMER_VIRTUAL)",
    ]
    c.finish()


if __name__ == "__main__":
    main()
