"""C01: programs of the finite-discrete fragment as a spec AST (independent of Scenic), their
Scenic source text, and their *specified* outcome distribution (the property's right-hand side):
the prior — every distribution expression the scene depends on drawn once, in program order, from
its stated distribution given the values of its parameters — conditioned on the hard requirements
and on each soft requirement independently with its probability, with the closed-form law of the
bounded rejection loop.  Nothing here imports or mimics Scenic's sampler."""
import itertools
import json
import math
from collections import namedtuple
from fractions import Fraction

SBox = namedtuple("SBox", "a b")
FUN = {
    "comb": lambda a, b: 10 * a + b,
    "mkbox": lambda a, b: SBox(a, b),
    "pair": lambda a, b: [a, b],
    "plain3": lambda a, b, c: a + 2 * b + 3 * c,
    "plain2": lambda a, b: a + 2 * b,
}


def exact(v):
    """Numbers of the spec are ints and Fractions (= the exact values of Python floats).  A result that a
    float cannot hold exactly (or a huge one) is outside the fragment: ValueError -> the generator retries."""
    if isinstance(v, bool):
        raise ValueError("bool")
    if isinstance(v, Fraction):
        if abs(v) > 2 ** 40 or Fraction(float(v)) != v:
            raise ValueError("not exactly representable as a float")
        return int(v) if v.denominator == 1 else v
    if isinstance(v, int):
        if abs(v) > 2 ** 40:
            raise ValueError("huge")
        return v
    if isinstance(v, tuple):
        return tuple(exact(x) for x in v)
    return v


def _pow(a, b):
    if not isinstance(b, int) or b < 0 or b > 6:
        raise ValueError("exponent outside the fragment")
    return Fraction(a) ** b


def _fdiv(a, b):
    return Fraction(a) // Fraction(b)


def _mod(a, b):
    return Fraction(a) - Fraction(b) * (Fraction(a) // Fraction(b))


BIN = {"add": lambda a, b: exact(a + b), "sub": lambda a, b: exact(a - b), "mul": lambda a, b: exact(a * b),
       "floordiv": lambda a, b: exact(_fdiv(a, b)), "mod": lambda a, b: exact(_mod(a, b)),
       "div": lambda a, b: exact(Fraction(a) / Fraction(b)), "pow": lambda a, b: exact(_pow(a, b)),
       "divmod": lambda a, b: (exact(_fdiv(a, b)), exact(_mod(a, b)))}
BINSYM = {"add": "+", "sub": "-", "mul": "*", "floordiv": "//", "mod": "%", "div": "/", "pow": "**"}


def ktxt(v):
    """source text of a numeric constant: ints as ints, Fractions as float literals (2 -> 2.0)"""
    t = repr(float(v)) if isinstance(v, Fraction) else repr(v)
    return f"({t})" if t.startswith("-") else t


def canon(v):
    if isinstance(v, Fraction):
        return str(v.numerator) if v.denominator == 1 else f"{v.numerator}/{v.denominator}"
    if isinstance(v, int):
        return str(v)
    if isinstance(v, SBox):
        return "[2:" + canon(v.a) + "," + canon(v.b) + "]"
    if isinstance(v, tuple):
        return "[0:" + ",".join(canon(x) for x in v) + "]"
    if isinstance(v, list):
        return "[1:" + ",".join(canon(x) for x in v) + "]"
    raise TypeError(type(v))


# ------------------------------------------------------------------ printing
def wtxt(w):
    w = Fraction(w)
    return str(w.numerator) if w.denominator == 1 else repr(float(w))


def etxt(e):
    k = e[0]
    if k == "const":
        v = e[1]
        if isinstance(v, SBox):
            return f"Box({v.a}, {v.b})"
        if isinstance(v, (int, Fraction)):
            return ktxt(v)
        return repr(v)
    if k == "var":
        return e[1]
    if k == "drange":
        return f"DiscreteRange({etxt(e[1])}, {etxt(e[2])})"
    if k == "wdrange":
        return f"DiscreteRange({e[1]}, {e[1] + len(e[2]) - 1}, weights=({', '.join(wtxt(w) for w in e[2])},))"
    if k == "divmod":
        return f"divmod({etxt(e[1])}, {etxt(e[2])})"
    if k == "uniform":
        return "Uniform(" + ", ".join(etxt(x) for x in e[1]) + ")"
    if k == "options":
        return "Options({" + ", ".join(f"{etxt(x)}: {wtxt(w)}" for x, w in e[1]) + "})"
    if k == "ustar":
        return "Uniform(" + ", ".join(("*" if s else "") + etxt(x) for x, s in e[1]) + ")"
    if k == "bin":
        return f"({etxt(e[2])} {BINSYM[e[1]]} {etxt(e[3])})"
    if k == "neg":
        return f"(-{etxt(e[1])})"
    if k == "abs":
        return f"abs({etxt(e[1])})"
    if k == "tuple":
        return "(" + ", ".join(etxt(x) for x in e[1]) + ("," if len(e[1]) == 1 else "") + ")"
    if k == "list":
        return "[" + ", ".join(etxt(x) for x in e[1]) + "]"
    if k == "index":
        return f"{etxt(e[1])}[{etxt(e[2])}]"
    if k == "attr":
        return f"{etxt(e[1])}.{e[2]}"
    if k == "mcall":
        return f"{etxt(e[1])}.total({etxt(e[2])})"
    if k == "call":
        return f"{e[1]}(" + ", ".join(("*" if s else "") + etxt(x) for x, s in e[2]) + ")"
    if k == "resample":
        return f"resample({e[1]})"
    raise ValueError(k)


def ctxt(c):
    k = c[0]
    if k in ("lt", "le", "eq", "ne"):
        return f"{rtxt(c[1])} {dict(lt='<', le='<=', eq='==', ne='!=')[k]} {rtxt(c[2])}"
    if k in ("and", "or"):
        return f"(({ctxt(c[1])}) {k} ({ctxt(c[2])}))"
    if k == "not":
        return f"(not ({ctxt(c[1])}))"
    raise ValueError(k)


def rtxt(e):
    k = e[0]
    if k == "name":
        return e[1]
    if k == "const":
        return ktxt(e[1])
    if k == "bin":
        return f"({rtxt(e[2])} {BINSYM[e[1]]} {rtxt(e[3])})"
    if k == "index":
        return f"{rtxt(e[1])}[{e[2]}]"
    raise ValueError(k)


def source(prog):
    L = ["from verif_c01_helpers import *"]
    first_obj = True
    for st in prog["stmts"]:
        k = st[0]
        if k == "assign":
            L.append(f"{st[1]} = {etxt(st[2])}")
        elif k == "require":
            L.append(("require" if st[1] is None else f"require[{wtxt(st[1])}]") + " " + ctxt(st[2]))
        elif k == "param":
            L.append(f"param {st[1]} = {etxt(st[2])}")
        elif k == "object":
            specs = [f"at ({st[1]}, 0)"] + [f"with {p} {etxt(x)}" for p, x in st[2]] + ["with allowCollisions True"]
            L.append(("ego = " if first_obj else "") + "new Object " + ", ".join(specs))
            first_obj = False
    return "\n".join(L) + "\n"


# ------------------------------------------------------------------ specification
class Reject(Exception):
    pass


UNDEF = object()      # value of a variable whose domain is empty (and of everything computed from it), see Spec.check_total


class Spec:
    """Random variables of the program in creation order.  A ref is ('c', value), ('rv', id) or
    ('tup', tag, [refs]) (a Python container holding refs)."""

    def __init__(self, prog):
        self.defs = []       # (kind, payload, parent refs)
        self.params = []     # (name, ref)
        self.objs = []       # [(prop, ref)]
        self.reqs = []       # (prob or None, cond, {name: ref})
        env = {}
        for st in prog["stmts"]:
            k = st[0]
            if k == "assign":
                env[st[1]] = self.ev(st[2], env)
            elif k == "require":
                names = sorted(cond_names(st[2]))
                self.reqs.append((st[1], st[2], {n: env[n] for n in names}))
            elif k == "param":
                self.params.append((st[1], self.ev(st[2], env)))
            elif k == "object":
                self.objs.append([(p, self.ev(x, env)) for p, x in st[2]])

    def new(self, kind, payload, parents):
        self.defs.append((kind, payload, parents))
        return ("rv", len(self.defs) - 1)

    @staticmethod
    def is_random(r):
        return r[0] == "rv" or (r[0] == "tup" and any(Spec.is_random(x) for x in r[2]))

    @staticmethod
    def const_value(r):
        if r[0] == "c":
            return r[1]
        seq = [Spec.const_value(x) for x in r[2]]
        return tuple(seq) if r[1] == 0 else seq

    def det(self, fn, parents):
        if not any(self.is_random(p) for p in parents):
            return ("c", fn(*[self.const_value(p) for p in parents]))
        return self.new("det", fn, parents)

    def ev(self, e, env):
        k = e[0]
        if k == "const":
            return ("c", exact(e[1]) if isinstance(e[1], Fraction) else e[1])
        if k == "var":
            return env[e[1]]
        if k == "drange":
            return self.new("drange", None, [self.ev(e[1], env), self.ev(e[2], env)])
        if k == "wdrange":
            return self.new("wrange", (e[1], [Fraction(w) for w in e[2]]), [])
        if k == "divmod":
            return self.det(BIN["divmod"], [self.ev(e[1], env), self.ev(e[2], env)])
        if k == "uniform":
            opts = [self.ev(x, env) for x in e[1]]
            return self.new("choose", [Fraction(1)] * len(opts), opts)
        if k == "options":
            pairs = [(self.ev(x, env), Fraction(w)) for x, w in e[1]]
            pairs = [(r, w) for r, w in pairs if w != 0]
            consts = [r[1] for r, _ in pairs if r[0] == "c"]
            if any(a == b for a, b in itertools.combinations(consts, 2)):
                raise ValueError("equal constant keys would merge in the Python dict literal")
            return self.new("choose", [w for _, w in pairs], [r for r, _ in pairs])
        if k == "ustar":
            items = [(self.ev(x, env), s) for x, s in e[1]]
            return self.new("choose_star", [s for _, s in items], [r for r, _ in items])
        if k == "bin":
            return self.det(BIN[e[1]], [self.ev(e[2], env), self.ev(e[3], env)])
        if k == "neg":
            return self.det(lambda a: -a, [self.ev(e[1], env)])
        if k == "abs":
            return self.det(abs, [self.ev(e[1], env)])
        if k in ("tuple", "list"):
            return ("tup", 0 if k == "tuple" else 1, [self.ev(x, env) for x in e[1]])
        if k == "index":
            base, idx = self.ev(e[1], env), self.ev(e[2], env)
            if base[0] == "tup" and idx[0] == "c":
                return base[2][idx[1]]
            if base[0] != "rv" and idx[0] == "rv":
                raise ValueError("a plain Python list cannot be indexed by a random value")
            return self.det(lambda b, i: b[i], [base, idx])
        if k == "attr":
            return self.det(lambda b, n=e[2]: getattr(b, n), [self.ev(e[1], env)])
        if k == "mcall":
            return self.det(lambda b, x: b.a + b.b + x, [self.ev(e[1], env), self.ev(e[2], env)])
        if k == "call":
            args = [(self.ev(x, env), s) for x, s in e[2]]
            stars = [s for _, s in args]

            def fn(*vals, f=FUN[e[1]], stars=stars):
                flat = []
                for v, s in zip(vals, stars):
                    if s:
                        flat.extend(v)
                    else:
                        flat.append(v)
                return f(*flat)
            return self.det(fn, [r for r, _ in args])
        if k == "resample":
            r = env[e[1]]
            if r[0] != "rv":
                return r
            kind, payload, parents = self.defs[r[1]]
            if kind == "det":
                raise ValueError("resample of a non-primitive value")
            return self.new(kind, payload, parents)      # same law, same parameter values, fresh draw
        raise ValueError(k)

    # -- which random variables the scene depends on
    def needed(self):
        roots = [r for _, r in self.params] + [r for o in self.objs for _, r in o]
        for _, _, b in self.reqs:
            roots += list(b.values())
        seen = set()

        def visit(r):
            if r[0] == "rv":
                if r[1] not in seen:
                    seen.add(r[1])
                    for p in self.defs[r[1]][2]:
                        visit(p)
            elif r[0] == "tup":
                for x in r[2]:
                    visit(x)
        for r in roots:
            visit(r)
        return sorted(seen)

    def value(self, r, asg):
        if r[0] == "c":
            return r[1]
        if r[0] == "rv":
            return asg[r[1]]
        seq = [self.value(x, asg) for x in r[2]]
        return tuple(seq) if r[1] == 0 else seq

    def law(self, i, asg):
        kind, payload, parents = self.defs[i]
        vals = [self.value(p, asg) for p in parents]
        if kind == "det":
            return [(payload(*vals), Fraction(1))]
        if kind == "drange":
            lo, hi = math.ceil(vals[0]), math.floor(vals[1])
            if hi < lo:
                raise Reject()
            n = hi - lo + 1
            return [(v, Fraction(1, n)) for v in range(lo, hi + 1)]
        if kind == "wrange":
            lo, ws = payload
            tot = sum(ws)
            return [(lo + i, w / tot) for i, w in enumerate(ws) if w != 0]
        if kind == "choose":
            tot = sum(payload)
            return [(v, w / tot) for v, w in zip(vals, payload)]
        if kind == "choose_star":
            flat = []
            for v, s in zip(vals, payload):
                if s:
                    flat.extend(v)
                else:
                    flat.append(v)
            if not flat:
                raise Reject()
            return [(v, Fraction(1, len(flat))) for v in flat]
        raise ValueError(kind)

    def prior(self, limit=200000):
        """[(assignment, prob)] over the needed variables + the rejected mass (empty domains)."""
        order = self.needed()
        out, rej = [], Fraction(0)
        stack = [({}, Fraction(1), 0)]
        steps = 0
        while stack:
            asg, p, j = stack.pop()
            steps += 1
            if steps > limit:
                raise OverflowError("prior too large")
            if j == len(order):
                out.append((asg, p))
                continue
            i = order[j]
            try:
                law = self.law(i, asg)
            except Reject:
                rej += p
                continue
            for v, q in law:
                a2 = dict(asg)
                a2[i] = v
                stack.append((a2, p * q, j + 1))
        return out, rej

    def n_random(self):
        return sum(1 for i in self.needed() if self.defs[i][0] != "det")

    def _undefined(self, r, asg):
        if r[0] == "rv":
            return asg.get(r[1]) is UNDEF
        if r[0] == "tup":
            return any(self._undefined(x, asg) for x in r[2])
        return False

    def check_total(self, limit=200000):
        """Fragment membership: NO needed variable may raise (zero divisor, bad index, inexact float, ...) under ANY
        joint assignment of the others - including assignments in which some OTHER variable has an empty domain.
        `prior` stops a branch at the first empty domain in creation order, but the order in which a sampler visits
        the needed variables is not part of the specification: a sampler that evaluates `2.0 // DiscreteRange(-0.25, 1.5)`
        before it meets the empty `DiscreteRange(5, 0)` raises ZeroDivisionError where creation order would reject.
        Such a program has no specified law; the generator must not emit it.  Here a variable with an empty domain is
        UNDEF, so is everything computed from it, and every other variable is still evaluated.  Raises what the
        offending variable raises (the generator treats that like any other out-of-fragment program)."""
        order = self.needed()
        stack = [({}, 0)]
        steps = 0
        while stack:
            asg, j = stack.pop()
            steps += 1
            if steps > limit:
                raise OverflowError("totality check too large")
            if j == len(order):
                continue
            i = order[j]
            if any(self._undefined(p, asg) for p in self.defs[i][2]):
                vals = [UNDEF]
            else:
                try:
                    vals = [v for v, _ in self.law(i, asg)]
                except Reject:
                    vals = [UNDEF]
            for v in vals:
                a2 = dict(asg)
                a2[i] = v
                stack.append((a2, j + 1))

    def observe(self, asg):
        out = {}
        for name, r in self.params:
            out["param:" + name] = canon(self.value(r, asg))
        for i, o in enumerate(self.objs):
            for p, r in o:
                out[f"obj{i}.{p}"] = canon(self.value(r, asg))
        return out

    def holds(self, cond, binds, asg):
        k = cond[0]
        if k in ("and", "or"):
            a, b = self.holds(cond[1], binds, asg), self.holds(cond[2], binds, asg)
            return (a and b) if k == "and" else (a or b)
        if k == "not":
            return not self.holds(cond[1], binds, asg)
        x, y = self.rval(cond[1], binds, asg), self.rval(cond[2], binds, asg)
        return dict(lt=x < y, le=x <= y, eq=x == y, ne=x != y)[k]

    def rval(self, e, binds, asg):
        k = e[0]
        if k == "name":
            return self.value(binds[e[1]], asg)
        if k == "const":
            return e[1]
        if k == "bin":
            return BIN[e[1]](self.rval(e[2], binds, asg), self.rval(e[3], binds, asg))
        if k == "index":
            return self.rval(e[1], binds, asg)[e[2]]
        raise ValueError(k)

    def distribution(self, n):
        """The specified law of generation with at most n attempts:
        {(iterations, outcome-json): prob, 'REJ': prob}."""
        pri, _ = self.prior()
        result = {}
        rej_total = Fraction(0)
        probs = [Fraction(1) if p is None else min(max(Fraction(p), Fraction(0)), Fraction(1)) for p, _, _ in self.reqs]
        for acts in itertools.product([True, False], repeat=len(self.reqs)):
            pa = Fraction(1)
            for a, p in zip(acts, probs):
                pa *= p if a else 1 - p
            if pa == 0:
                continue
            ok = {}
            acc = Fraction(0)
            for asg, p in pri:
                if all((not a) or self.holds(c, b, asg) for a, (_, c, b) in zip(acts, self.reqs)):
                    key = json.dumps(self.observe(asg), sort_keys=True)
                    ok[key] = ok.get(key, Fraction(0)) + p
                    acc += p
            r = 1 - acc
            for k in range(1, n + 1):
                f = pa * r ** (k - 1)
                if f == 0:
                    break
                for key, p in ok.items():
                    result[(k, key)] = result.get((k, key), Fraction(0)) + f * p
            rej_total += pa * r ** n
        if rej_total:
            result["REJ"] = rej_total
        return result


def cond_names(c):
    k = c[0]
    if k in ("and", "or"):
        return cond_names(c[1]) | cond_names(c[2])
    if k == "not":
        return cond_names(c[1])
    return rexpr_names(c[1]) | rexpr_names(c[2])


def rexpr_names(e):
    k = e[0]
    if k == "name":
        return {e[1]}
    if k == "const":
        return set()
    if k == "bin":
        return rexpr_names(e[2]) | rexpr_names(e[3])
    if k == "index":
        return rexpr_names(e[1])
    raise ValueError(k)


# ------------------------------------------------------------------ generator
# float literals (dyadic, so that float arithmetic is exact); Fraction(2) prints as 2.0
FCONST = [Fraction(1, 2), Fraction(3, 2), Fraction(5, 2), Fraction(-1, 2), Fraction(1, 4), Fraction(15, 2),
          Fraction(2), Fraction(4), Fraction(1), Fraction(-3, 2)]
NUMT = ("int", "rint", "num")

SOFT_P = [Fraction(1, 4), Fraction(1, 2), Fraction(1, 2), Fraction(3, 4), Fraction(1, 8)]
HARD_OR_SOFT_P = [None, None, None] + SOFT_P + [Fraction(0), Fraction(1)]


class Gen:
    def __init__(self, rng):
        self.rng = rng
        self.vars = {}     # name -> type: 'int' | 'rint' (random int, primitive) | 'seq' (random list) | 'ptuple' | 'box'
        self.plen = {}

    def pick(self, ty):
        c = [n for n, t in self.vars.items() if t in ty]
        return self.rng.choice(c) if c else None

    def const(self):
        return ("const", self.rng.choice([-2, -1, 0, 1, 1, 2, 2, 3, 4, 5]))

    def small_int(self, depth):
        """int expression, preferring cheap ones (for bounds/indices)"""
        r = self.rng.random()
        v = self.pick(("int", "rint"))
        if v and r < 0.45:
            return ("var", v)
        if depth > 0 and r < 0.6:
            return self.prim(depth - 1)
        return self.const()

    def fconst(self):
        return ("const", self.rng.choice(FCONST))

    def frac_bounds(self, depth):
        """DiscreteRange endpoints that are not integers: constant, or computed from (random) values"""
        rng = self.rng
        r = rng.random()
        base = self.pick(("int", "rint"))
        x = ("var", base) if base and rng.random() < 0.7 else self.int_expr(min(depth, 1))
        half = ("const", rng.choice([Fraction(1, 2), Fraction(1, 4), Fraction(3, 2)]))
        if r < 0.25:
            lo = rng.choice([Fraction(1, 2), Fraction(-1, 2), Fraction(3, 2), Fraction(1, 4), Fraction(5, 2), Fraction(-5, 4)])
            hi = lo + rng.choice([Fraction(1, 2), 1, Fraction(3, 2), 2, Fraction(9, 4), Fraction(1, 4)])
            return ("const", lo), ("const", hi if rng.random() < 0.7 else int(hi))
        if r < 0.45:          # n / 2 .. constant or n / 2 + c
            lo = ("bin", "div", x, ("const", rng.choice([2, 2, 4, Fraction(2)])))
            hi = rng.choice([("const", rng.choice([1, 2, 3])), ("bin", "add", lo, ("const", rng.choice([1, Fraction(3, 2), Fraction(1, 2)])))])
            return lo, hi
        if r < 0.65:          # x - 1/2 .. x + 3/2
            return ("bin", "sub", x, half), ("bin", "add", x, ("const", rng.choice([Fraction(3, 2), Fraction(1, 2), 1, Fraction(1, 4)])))
        if r < 0.8:           # integer low, fractional high
            lo = self.small_int(0)
            return lo, ("bin", "add", lo, ("const", rng.choice([Fraction(1, 2), Fraction(3, 2), Fraction(5, 2), Fraction(-1, 2)])))
        if r < 0.9:           # fractional low, integer high
            return ("bin", "sub", x, half), ("bin", "add", x, ("const", rng.choice([0, 1, 2])))
        v = self.pick(("num",))
        lo = ("var", v) if v else ("bin", "mul", x, half)
        return lo, ("bin", "add", lo, ("const", rng.choice([1, Fraction(3, 2), 2])))

    def num_expr(self, depth):
        """a numeric expression that may take non-integral values: int-valued random operands combined with
        float constants (and float-valued random operands) under every binary operator, in both operand orders"""
        rng = self.rng
        k = rng.choice(["bin", "bin", "bin", "rbin", "rbin", "rbin", "divmod", "pow", "choice", "numbin", "unary"])
        a = self.prim(0) if rng.random() < 0.4 else self.int_expr(max(depth - 1, 1))
        v = self.pick(("num",))
        if v and rng.random() < 0.25:
            a = ("var", v)
        if k == "bin":
            op = rng.choice(["sub", "sub", "div", "div", "floordiv", "mod", "add", "mul"])
            if op in ("div", "floordiv", "mod"):
                b = ("const", rng.choice([2, 4, Fraction(1, 2), Fraction(2), Fraction(-2), Fraction(1, 4), Fraction(3, 2), Fraction(1)]))
                if op == "div" and b[1] == Fraction(3, 2):
                    b = ("const", Fraction(2))
            else:
                b = self.fconst()
            return ("bin", op, a, b)
        if k == "rbin":
            op = rng.choice(["sub", "sub", "div", "floordiv", "mod", "add", "mul", "pow"])
            c = ("const", rng.choice([Fraction(1, 2), Fraction(2), Fraction(3, 2), Fraction(-1, 2)])) if op == "pow" else self.fconst()
            return ("bin", op, c, a)
        if k == "divmod":
            b = ("const", rng.choice([2, Fraction(2), Fraction(1, 2), Fraction(3, 2), Fraction(-2)]))
            pair = ("divmod", a, b) if rng.random() < 0.6 else ("divmod", self.fconst(), a)
            return ("index", pair, ("const", rng.choice([0, 1])))
        if k == "pow":
            return ("bin", "pow", a, ("const", rng.choice([2, Fraction(2), 3, 0, 1])))
        if k == "choice":
            opts = [self.fconst() if rng.random() < 0.5 else self.int_expr(0) for _ in range(rng.randint(2, 3))]
            if rng.random() < 0.5:
                return ("uniform", opts)
            seen, pairs = set(), []
            for x in opts:
                key = repr(float(x[1])) if x[0] == "const" else repr(x)
                if key not in seen:
                    seen.add(key)
                    pairs.append((x, rng.choice([1, 2, Fraction(1, 2), 3])))
            return ("options", pairs)
        if k == "numbin" and depth > 0:
            op = rng.choice(["sub", "div", "add", "mul", "floordiv", "mod"])
            x, y = self.num_expr(depth - 1), self.int_expr(1)
            if op in ("div", "floordiv", "mod"):
                y = ("const", rng.choice([2, Fraction(1, 2), 4]))
            return ("bin", op, x, y) if rng.random() < 0.5 or op in ("div", "floordiv", "mod") else ("bin", op, y, x)
        if k == "unary" and depth > 0:
            return (rng.choice(["neg", "abs"]), self.num_expr(depth - 1))
        return ("bin", "sub", a, self.fconst())

    def prim(self, depth):
        """a primitive distribution expression over ints"""
        rng = self.rng
        k = rng.choice(["drange", "drange", "uniform", "options", "ustar", "wdrange", "fdrange", "fdrange"])
        if k == "ustar" and not self.pick(("seq2", "seqv")):
            k = "uniform"
        if k == "wdrange":        # weighted DiscreteRange used directly, with any low endpoint (zero weights kept)
            n = rng.randint(2, 4)
            ws = [rng.choice([1, 1, 2, 3, Fraction(1, 2), Fraction(1, 4), 0]) for _ in range(n)]
            if all(w == 0 for w in ws):
                ws[rng.randrange(n)] = 1
            return ("wdrange", rng.choice([-2, -1, 0, 1, 2, 3, 5]), ws)
        if k == "fdrange":
            lo, hi = self.frac_bounds(depth)
            return ("drange", lo, hi)
        if k == "drange":
            lo = self.small_int(depth)
            if lo[0] == "const":
                hi = ("const", lo[1] + rng.choice([0, 1, 2, 2, 3])) if rng.random() < 0.7 else self.small_int(depth)
            else:
                hi = rng.choice([("const", rng.choice([1, 2, 3, 4])), ("bin", "add", lo, ("const", rng.choice([1, 2])))])
            return ("drange", lo, hi)
        if k == "uniform":
            return ("uniform", [self.int_expr(depth) for _ in range(rng.randint(2, 3))])
        if k == "options":
            n = rng.randint(2, 3)
            used, pairs = set(), []
            for _ in range(n):
                x = self.int_expr(depth)
                key = repr(x)
                if x[0] in ("const", "var") and key in used:
                    continue
                used.add(key)
                w = rng.choice([1, 1, 2, 3, Fraction(1, 2), Fraction(1, 4), Fraction(3, 2)])
                pairs.append((x, w))
            if rng.random() < 0.2:
                z = ("const", 7 + len(pairs))
                pairs.insert(rng.randint(0, len(pairs)), (z, 0))
            if all(w == 0 for _, w in pairs):
                pairs.append((("const", 6), 1))
            return ("options", pairs)
        if k == "ustar":
            items = [(("var", self.pick(("seq2", "seqv"))), True)]
            if rng.random() < 0.6:
                items.insert(rng.randint(0, 1), (self.int_expr(0), False))
            return ("ustar", items)

    def int_expr(self, depth):
        rng = self.rng
        if depth <= 0:
            v = self.pick(("int", "rint"))
            return ("var", v) if v and rng.random() < 0.6 else self.const()
        k = rng.choice(["prim", "prim", "var", "const", "bin", "bin", "unary", "index", "attr", "mcall", "call", "scall",
                        "resample", "pindex", "rindex"])
        if k == "prim":
            return self.prim(depth - 1)
        if k == "var":
            v = self.pick(("int", "rint"))
            return ("var", v) if v else self.const()
        if k == "const":
            return self.const()
        if k == "bin":
            op = rng.choice(["add", "add", "sub", "mul", "floordiv", "mod"])
            a = self.int_expr(depth - 1)
            b = ("const", rng.choice([2, 3, -2])) if op in ("floordiv", "mod") else self.int_expr(depth - 1)
            if rng.random() < 0.3 and op in ("add", "sub", "mul"):
                a, b = ("const", rng.choice([0, 1, 2, 3])), a          # reflected operators, x+0 / 1*x shortcuts
            elif rng.random() < 0.25:
                # the identity element of some operator (0, 1, 0.0, 1.0) on either side of ANY operator: the code
                # simplifies x+0, 0+x, x-0, x*1, 1*x, x/1, x**1 and must simplify nothing else (0-x, 1/x, 1-x, ...)
                op = rng.choice(["add", "sub", "sub", "mul", "div", "pow", "floordiv", "mod"])
                unit = ("const", rng.choice([0, 1, 0, 1, Fraction(0), Fraction(1)]))
                x = a if a[0] != "const" else self.prim(0)
                a, b = (unit, x) if rng.random() < 0.5 else (x, unit)
            return ("bin", op, a, b)
        if k == "unary":
            return (rng.choice(["neg", "abs"]), self.int_expr(depth - 1))
        if k == "index":
            v = self.pick(("seq2", "seqv"))
            if v:
                return ("index", ("var", v), ("const", rng.choice([0, 1])))
        if k == "rindex":
            v = self.pick(("seq2", "seqv"))
            if v:
                return ("index", ("var", v), ("drange", ("const", 0), ("const", 1)))
        if k == "pindex":
            v = self.pick(("ptuple",))
            if v:
                return ("index", ("var", v), ("const", rng.randrange(self.plen[v])))
        if k == "attr":
            v = self.pick(("box",))
            if v:
                return ("attr", ("var", v), rng.choice(["a", "b"]))
        if k == "mcall":
            v = self.pick(("box",))
            if v:
                return ("mcall", ("var", v), self.int_expr(depth - 1))
        if k == "call":
            return ("call", "comb", [(self.int_expr(depth - 1), False), (self.int_expr(depth - 1), False)])
        if k == "scall":
            v = self.pick(("seq2",))
            if v:
                if rng.random() < 0.5:
                    return ("call", "plain2", [(("var", v), True)])
                return ("call", "plain3", [(("var", v), True), (self.int_expr(depth - 1), False)])
        if k == "resample":
            v = self.pick(("rint",))
            if v:
                return ("resample", v)
        return self.int_expr(depth - 1)

    def seq_expr(self):
        """(expression, type): a random list; 'seq2' always has length 2"""
        rng = self.rng
        if rng.random() < 0.5:
            return ("call", "pair", [(self.int_expr(1), False), (self.int_expr(1), False)]), "seq2"
        a = [rng.randint(0, 3) for _ in range(2)]
        b = [rng.randint(0, 5) for _ in range(rng.choice([2, 2, 3]))]
        if a == b:
            b[0] += 1
        return ("uniform", [("const", a), ("const", b)]), ("seq2" if len(b) == 2 else "seqv")

    def box_expr(self):
        rng = self.rng
        opts = []
        for _ in range(2):
            if rng.random() < 0.5:
                opts.append(("const", SBox(rng.randint(0, 3), rng.randint(0, 3))))
            else:
                opts.append(("call", "mkbox", [(self.int_expr(1), False), (self.int_expr(0), False)]))
        if opts[0][0] == "const" and opts[1][0] == "const" and opts[0][1] == opts[1][1]:
            opts[1] = ("const", SBox(opts[0][1].a + 1, opts[0][1].b))
        return ("uniform", opts)

    def cond(self, depth=1):
        rng = self.rng
        if depth > 0 and rng.random() < 0.3:
            k = rng.choice(["and", "or", "not"])
            if k == "not":
                return ("not", self.cond(depth - 1))
            return (k, self.cond(depth - 1), self.cond(depth - 1))

        def term():
            r = rng.random()
            v = self.pick(NUMT)
            if v and r < 0.6:
                return ("name", v)
            t = self.pick(("ptuple",))
            if t and r < 0.75:
                return ("index", ("name", t), rng.randrange(self.plen[t]))
            if v and r < 0.9:
                return ("bin", rng.choice(["add", "sub", "mul"]), ("name", v), term())
            return ("const", rng.choice([0, 1, 2, 3, 4, Fraction(1, 2), Fraction(3, 2), Fraction(5, 2)]))
        a = term()
        if a[0] == "const":
            v = self.pick(NUMT)
            if v:
                a = ("name", v)
        return (rng.choice(["lt", "le", "eq", "ne", "lt", "le"]), a, term())

    def program(self):
        rng = self.rng
        stmts = []
        nvar = 0

        def fresh():
            nonlocal nvar
            nvar += 1
            return f"v{nvar - 1}"
        n_assign = rng.randint(2, 6)
        # 0-3 requirements between the assignments (plus possibly one after the objects): programs with
        # two or more SOFT requirements (0 < p < 1, equal or different probabilities) are common, so that the
        # joint law of the enforcement events is observed, not only each marginal
        req_slots = sorted(rng.sample(range(1, n_assign + 2), k=rng.choice([0, 1, 1, 2, 2, 3])))
        soft_only = rng.random() < 0.3
        had_req = False
        for i in range(n_assign + 1):
            while req_slots and req_slots[0] == i:
                req_slots.pop(0)
                if self.pick(NUMT):
                    p = rng.choice(SOFT_P if soft_only else HARD_OR_SOFT_P)
                    stmts.append(("require", p, self.cond()))
                    had_req = True
            if i == n_assign:
                break
            kind = rng.choice(["int", "int", "int", "prim", "prim", "seq", "box", "ptuple", "num", "num", "num"])
            if had_req and rng.random() < 0.35 and self.pick(("int", "rint")):
                name = self.pick(("int", "rint"))          # rebind a name a requirement may have captured
                kind = rng.choice(["int", "prim", "const", "const"])
            else:
                name = fresh()
            if kind == "const":
                e, ty = ("const", rng.choice([-3, 0, 2, 6, 9])), "int"
            elif kind == "int":
                e, ty = self.int_expr(2), "int"
                if e[0] in ("drange", "wdrange", "uniform", "options", "ustar"):
                    ty = "rint"
            elif kind == "prim":
                e, ty = self.prim(1), "rint"
            elif kind == "num":
                e, ty = self.num_expr(2), "num"
            elif kind == "seq":
                e, ty = self.seq_expr()
            elif kind == "box":
                e, ty = self.box_expr(), "box"
            else:
                items = [self.int_expr(1) for _ in range(rng.randint(2, 3))]
                e, ty = ("tuple", items), "ptuple"
                self.plen[name] = len(items)
            stmts.append(("assign", name, e))
            self.vars[name] = ty
        nobj = rng.choice([1, 1, 2])
        for j in range(nobj):
            props = [(f"foo{q}", self.num_expr(1) if rng.random() < 0.3 else self.int_expr(1)) for q in range(rng.randint(0, 2))]
            stmts.append(("object", 20 * j, props))
        if rng.random() < 0.3 and self.pick(NUMT):
            stmts.append(("require", rng.choice([None, Fraction(1, 2), Fraction(1, 4)]), self.cond(0)))
        np_ = rng.randint(1, 3)
        for q in range(np_):
            r = rng.random()
            v = None
            if r < 0.25:
                v = self.pick(("ptuple", "seq2", "seqv", "box"))
            if v:
                e = ("var", v)
            elif r < 0.5 and self.pick(NUMT):
                e = ("var", self.pick(NUMT))
            elif r < 0.58:
                e = self.num_expr(2)
            elif r < 0.6:
                e = ("tuple", [self.int_expr(1), self.int_expr(0)])
            elif r < 0.7:
                e = ("list", [self.int_expr(1), self.int_expr(0)])
            else:
                e = self.int_expr(2)
            stmts.append(("param", f"p{q}", e))
        return dict(stmts=stmts)


def gen_program(rng, max_random=9, max_prior=4000):
    """A program whose needed random variables are between 1 and max_random and whose prior is small."""
    for _ in range(200):
        prog = Gen(rng).program()
        try:
            sp = Spec(prog)
            nr = sp.n_random()
            if not 1 <= nr <= max_random:
                continue
            pri, rej = sp.prior(limit=4 * max_prior)
            if len(pri) > max_prior or not pri:
                continue
            if rej:          # some branch stops at an empty domain: the variables after it were not evaluated there
                sp.check_total(limit=50 * max_prior)
        except (OverflowError, ValueError, ZeroDivisionError, IndexError, TypeError):
            continue
        return prog, sp
    raise RuntimeError("generator failed to produce a program")


def to_json(prog):
    def enc(x):
        if isinstance(x, SBox):
            return {"__box__": [x.a, x.b]}
        if isinstance(x, Fraction):
            return {"__q__": [x.numerator, x.denominator]}
        if isinstance(x, (list, tuple)):
            return [enc(y) for y in x]
        if isinstance(x, dict):
            return {k: enc(v) for k, v in x.items()}
        return x
    return enc(prog)


def from_json(j):
    def dec(x, top=False):
        if isinstance(x, dict):
            if "__box__" in x:
                return SBox(*x["__box__"])
            if "__q__" in x:
                return Fraction(*x["__q__"])
            return {k: dec(v) for k, v in x.items()}
        if isinstance(x, list):
            return [dec(y) for y in x]
        return x
    return detuple(dec(j))


def detuple(x):
    """JSON lists back to the tuples the AST uses (AST nodes are lists whose head is a string)."""
    if isinstance(x, dict):
        return {k: detuple(v) for k, v in x.items()}
    if isinstance(x, list):
        y = [detuple(v) for v in x]
        if y and isinstance(y[0], str):
            return tuple(y)
        return y
    return x
