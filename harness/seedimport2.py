"""usage: seedimport2.py SRC_DIR ID NEWK yes|no "by"  -- import a seeded change from SRC_DIR (patch.diff, demo.py, meta.json) as seeded/<ID>-<NEWK>"""
import json, os, shutil, sys
src, ID, k, caught, by = sys.argv[1:6]
dst = f"/verif/seeded/{ID}-{k}"
os.makedirs(dst, exist_ok=True)
for f in ("patch.diff", "demo.py", "meta.json"):
    if os.path.exists(os.path.join(src, f)):
        shutil.copy(os.path.join(src, f), os.path.join(dst, f))
mp = os.path.join(dst, "meta.json")
m = json.load(open(mp)) if os.path.exists(mp) else {}
m["property"] = ID
m["verif_result"] = {"caught": caught, "by": by, "ran": f"harness/seedtest.sh {ID} /verif/seeded/{ID}-{k}/patch.diff"}
json.dump(m, open(mp, "w"), indent=1)
