"""C19 — do choose/shuffle and run-time random values follow the stated probabilities.
Proof layer: coq/Properties/C19.v (on coq/C01/Prob).  Tie: whole DummySimulator runs of generated
dynamic programs enumerated over every RNG path (exact rational probabilities): (a) implementation,
(b) extracted Coq model path by path (same RNG calls, probabilities, action logs / rejection),
(c) the specified distribution computed from the generator's AST.  (a)!=(c) property violation,
(a)!=(b) correspondence break."""
import concurrent.futures as cf
import json
import os
import sys
from fractions import Fraction

sys.path.insert(0, os.path.dirname(os.path.abspath(__file__)))
import common
from common import Check
import c19_progs as P

PID = "C19"
WORKERS = min(8, common.NCPU)


def qparse(s):
    a, b = s.split("/")
    return Fraction(int(a), int(b))


def prog_form(job):
    return job.get("form", "behavior")


def make_job(prog, name):
    return dict(name=name, src=P.source(prog), maxSteps=prog["maxSteps"], ast=P.to_json(prog), max_paths=5000,
                form=prog.get("form", "behavior"))


def run_jobs(jobs):
    chunks = [jobs[i::WORKERS] for i in range(WORKERS)]
    chunks = [ch for ch in chunks if ch]
    results = []
    with cf.ThreadPoolExecutor(len(chunks)) as ex:
        for r in ex.map(lambda ch: common.run_impl("impl_c19.py", dict(programs=ch), timeout=7000), chunks):
            results += r["results"]
    return {r["name"]: r for r in results}


def model_lines(exe, jobs, results):
    """Run the extracted model on every enumerated program in parallel: {name: output line or exception}."""
    tasks = [job for job in jobs if isinstance(results.get(job["name"], {}).get("runs"), list)]

    def one(job):
        try:
            return common.run_driver(exe, [P.driver_line(P.from_json(job["ast"]))])[0]
        except Exception as e:
            return e
    with cf.ThreadPoolExecutor(WORKERS) as ex:
        return {job["name"]: line for job, line in zip(tasks, ex.map(one, tasks))}


def judge(exe, job, res, stats=None, pre=None):
    bad = []
    prog = P.from_json(job["ast"])
    for k in ("compile_error", "unsupported", "crash"):
        if k in res:
            bad.append(("harness" if k == "compile_error" else "correspondence",
                        f"{k}: the simulation could not be enumerated", dict(error=res[k][:1500])))
            return bad, 0
    runs = res["runs"]
    if runs == "too-many-paths":
        return bad, 0
    line = pre[job["name"]] if pre and job["name"] in pre else common.run_driver(exe, [P.driver_line(prog)])[0]
    if isinstance(line, Exception):
        line = "FAIL " + str(line)[:500]
    if line.startswith("FAIL"):
        bad.append(("correspondence", "model driver failed", dict(error=line)))
        return bad, len(runs)
    model = {}
    for item in line.split(" ; "):
        lg, p, o = [x.strip() for x in item.split(" | ")]
        model[lg] = [p, o]
    impl = {lg: [p, o] for lg, p, o in runs}
    for lg, v in impl.items():
        if model.get(lg) != v:
            bad.append(("correspondence", "model and implementation differ on an RNG path",
                        dict(path=lg, impl=v, model=model.get(lg))))
            break
    else:
        extra = [lg for lg in model if lg not in impl]
        if extra:
            bad.append(("correspondence", "model has an RNG path the implementation does not take",
                        dict(path=extra[0], model=model[extra[0]])))
    agg = {}
    for lg, p, o in runs:
        agg[o] = agg.get(o, Fraction(0)) + qparse(p)
    spec = P.spec_distribution(prog, stats)
    if spec != agg:
        keys = sorted(set(spec) | set(agg))
        diff = [(k, str(spec.get(k, 0)), str(agg.get(k, 0))) for k in keys if spec.get(k, 0) != agg.get(k, 0)]
        wit = next(([lg, p, o] for lg, p, o in runs if spec.get(o, 0) != agg.get(o, 0)), None)
        bad.append(("distribution", "exact distribution over action logs / rejection differs from the stated probabilities",
                    dict(differing=diff[:6], n_differing=len(diff), witness_path=wit)))
    return bad, len(runs)


def main():
    c = Check(PID, "proof")
    c.cov["rule"] = ("dynamic programs from a seeded generator (+ directed programs in corpus/C19): 2-4 leaf invocables with "
                     "step-dependent preconditions, optional middle layer, do choose / do shuffle in dict (rational weights "
                     "including 0) and list form with repeated items, do, run-time DiscreteRange/Options draws (zero weights "
                     "too), run-time require[p]; as behaviours of an agent or as compose blocks of modular scenarios / "
                     "sub-scenarios (half each); every RNG path of a whole DummySimulator run enumerated.  Non-trivial: > 1 RNG "
                     "path and a choose/shuffle over >= 2 items; distinct by hash of source.  pick:* histogram entries count "
                     "the programs reaching such a pick (ineligible item listed before an eligible one, zero weights, ...)")
    common.ensure_parser()
    if not os.environ.get("VERIF_DEV_NOPROOFS") and not c.proofs():
        c.finish()
    exe = common.build_ocaml(PID)
    quick = c.tier == "quick"
    nprog = int(os.environ.get("VERIF_C19_N", 120 if quick else 1500))
    jobs = []
    corpus_dir = os.path.join(common.VERIF, "corpus", PID)
    if os.path.isdir(corpus_dir):
        for f in sorted(os.listdir(corpus_dir)):
            if f.endswith(".json"):
                jobs.append(json.load(open(os.path.join(corpus_dir, f))))
    for i in range(nprog):
        jobs.append(make_job(P.gen_program(c.rng), f"prog{i}"))
    if c.replay:
        body = json.load(open(c.replay))
        case = body.get("case", {})
        jobs = [case["job"]] if "job" in case else jobs[:3]
    results = run_jobs(jobs)
    pre = model_lines(exe, jobs, results)
    for job in jobs:
        res = results.get(job["name"])
        if res is None:
            c.violation("harness", "no result for program", dict(job=job), no_input=True)
            continue
        stats = {}
        bad, npaths = judge(exe, job, res, stats, pre=pre)
        for k in stats:                      # programs in which such a pick is reached (spec evaluator)
            c.hist(k)
        c.hist("form:" + prog_form(job))
        prog = P.from_json(job["ast"])
        kinds = [st[0] for b in prog["behaviors"] for st in b["body"]]
        c.count(job["src"], nontrivial=(npaths > 1 and any(k in ("choose", "shuffle") for k in kinds)))
        c.cov["traces_validated_against_impl"] += npaths
        for k in kinds:
            c.hist("stmt:" + k)
        for b in prog["behaviors"]:
            c.hist("pre:" + b["pre"][0])
        c.hist(f"paths<={10 ** len(str(max(npaths, 1)))}")
        rej = any(o == "REJ" for _, _, o in res.get("runs", [])) if isinstance(res.get("runs"), list) else False
        c.hist("has-rejection" if rej else "no-rejection")
        if npaths >= 4:
            c.sample(dict(program=job["src"], paths=npaths, maxSteps=job["maxSteps"]), limit=3)
        seen = set()
        for kind, what, detail in bad:
            if kind in seen:
                continue
            seen.add(kind)
            c.cov["disagreements_checked"] += 1
            c.violation(kind, what, dict(job=job, program=job["src"], detail=detail))
    c.assumptions += [
        "random.random()/uniform(0,1) is an exact uniform real on [0,1); RNG calls are independent",
        "dyadic weights (float accumulation exact); preconditions are tests on simulation().currentTime",
        "extraction via ExtrOcamlBasic only; OCaml compiler; ocaml/c19/driver.ml",
    ]
    c.finish()


if __name__ == "__main__":
    main()
